"""C17 - reading a routine-local scratch variable before writing it is rejected.

Three parts (see DESIGN.md, section C17):

1. proofs       lean/PyTealV/Proofs/C17*.lean (validate_sound / validate_complete / validate_exact,
                termination of the memoised exploration, initCheck_agrees ...)
2. direct       random block graphs built from the REAL TealSimpleBlock / TealConditionalBlock /
                TealOp / ScratchSlot classes: REAL `start.validateSlots(slotsInUse)` against
                  (a) the Lean model `c17-validate` (same errors in the same order),
                  (b) the Lean dataflow oracle `c17-initcheck` (same verdict, same positions),
                  (c) a brute-force path enumeration written here (property on the real code).
3. end to end   programs built through the public API (recipes.Builder) with stores and loads of
                ScratchVars sprinkled over every control shape; oracle = path enumeration over the
                recipe itself (collecting semantics, no PyTeal involved) cross-checked with the Lean
                `initCheck` on a CFG built here; REAL `compileTeal` must fail (TealInternalError
                caused by a TealCompileError whose sourceExpr is an offending load, and announcing as
                many errors as there are offending loads) iff the oracle finds a read-before-write.
"""
from __future__ import annotations

import json
import os
import sys
import time

import common
from common import Report, check_proofs, proof_coverage, Driver, rng, seed

sys.path.insert(0, str(common.REPO))

PROOF_MODULES = ["PyTealV.Proofs.C17", "PyTealV.Proofs.C17Lemmas", "PyTealV.Proofs.C17Dataflow"]
KEY_DEAD = "C17-dead-load-after-return-reported"
REQUIRED_THEOREMS = [
    "PyTealV.Proofs.C17.validateSlots_total", "PyTealV.Proofs.C17.validate_exact",
    "PyTealV.Proofs.C17.validate_sound", "PyTealV.Proofs.C17.validate_sound_exec",
    "PyTealV.Proofs.C17.validate_complete", "PyTealV.Proofs.C17.validate_complete_exec",
    "PyTealV.Proofs.C17.validate_reports_bad_load", "PyTealV.Proofs.C17.validate_complete_identifies",
    "PyTealV.Proofs.C17.validate_reports_exec_partial", "PyTealV.Proofs.C17.validate_reports_exec_counterexample",
    "PyTealV.Proofs.C17.initCheck_total", "PyTealV.Proofs.C17.initCheck_agrees",
    "PyTealV.Proofs.C17.validate_agrees_initCheck",
]


def _pt():
    import pyteal as pt  # the code under /repo (or VERIF_REPO), imported at run time
    return pt


# ============================================================================ part 2: block graphs
# graph = {"blocks": [(ops, succ)], "init": [slot], "start": i, "ns": #slots, "ne": #exprs}
#   op   = ("s", slot) | ("l", slot, expr) | ("r", "return_"|"retsub"|"err") | ("i", slot) [int <slot>: index taken] | ("o",)
#   succ = ("n",) | ("j", i) | ("c", t, f) | ("ct", t) | ("cf", f)     (ct/cf: conditional block, one edge unset)


def gen_graph(r, nb_max=7, ns_max=4):
    nb = r.randint(1, nb_max)
    ns = r.randint(1, ns_max)
    ne = r.choice([1, 2, 3, 6, 40])  # few expression objects -> shared sourceExpr -> de-duplication
    shape = r.random()
    blocks = []
    for b in range(nb):
        ops = []
        for _ in range(r.choice([0, 1, 1, 2, 3, 4])):
            c = r.random()
            if c < 0.33:
                ops.append(("s", r.randrange(ns)))
            elif c < 0.8:
                ops.append(("l", r.randrange(ns), r.randrange(ne)))
            elif c < 0.87:
                ops.append(("r", r.choice(["return_", "retsub", "err"])))
            elif c < 0.94:
                ops.append(("i", r.randrange(ns)))   # `int <slot>`: takes the index of a slot, writes nothing
            else:
                ops.append(("o",))
        c = r.random()

        def tgt():
            # mostly forward edges for "structured" graphs, anything for the others
            if shape < 0.5 and b + 1 < nb and r.random() < 0.8:
                return r.randrange(b + 1, nb)
            return r.randrange(nb)
        if c < 0.15:
            succ = ("n",)
        elif c < 0.5:
            succ = ("j", tgt())
        else:
            t, f = tgt(), tgt()
            k = r.random()
            if k < 0.1:
                f = t  # both edges to the same block
            succ = ("c", t, f) if k < 0.85 else (("ct", t) if k < 0.93 else ("cf", f))
        blocks.append((ops, succ))
    init = [s for s in range(ns + 1) if r.random() < 0.2]
    return dict(blocks=blocks, init=init, start=r.randrange(nb) if r.random() < 0.2 else 0, ns=ns + 1, ne=ne)


def gen_chain_graph(r):
    """k sequential `if c: store v_k` diamonds followed by loads: the memo sees 2^k subsets."""
    k = r.randint(2, 8)
    blocks = []
    for i in range(k):
        blocks.append(([("o",)], ("c", 2 * i + 1, 2 * i + 2)))
        blocks.append(([("s", i)], ("j", 2 * i + 2)))
    tail = [("l", r.randrange(k), j) for j in range(r.randint(1, 3))]
    blocks.append((tail + [("r", "return_")], ("n",)))
    return dict(blocks=blocks, init=[], start=0, ns=k, ne=4)


def encode_graph(g) -> str:
    bl = []
    for ops, succ in g["blocks"]:
        o = []
        for op in ops:
            if op[0] == "s":
                o.append(f"s{op[1]}")
            elif op[0] == "l":
                o.append(f"l{op[1]}.{op[2]}")
            elif op[0] == "r":
                o.append("r")
            else:
                o.append("o")
        if succ[0] == "n":
            s = "n"
        elif succ[0] in ("j", "ct", "cf"):
            s = f"j{succ[1]}"
        else:
            s = f"c{succ[1]}.{succ[2]}"
        bl.append((",".join(o) or "-") + ":" + s)
    init = ",".join(map(str, g["init"])) or "-"
    return f"{g['start']} {init} {';'.join(bl)}"


def real_validate(g):
    """Build the graph from the real classes and call the real validateSlots.
    Returns the list of (expr index) of the reported errors, in order."""
    pt = _pt()
    from pyteal.ir import TealSimpleBlock, TealConditionalBlock, TealOp, Op
    slots = [pt.ScratchSlot() for _ in range(g["ns"])]  # ids increase with the index
    exprs = [None] + [pt.Int(i) for i in range(1, g["ne"] + 1)]
    bs = []
    for ops, succ in g["blocks"]:
        tops = []
        for op in ops:
            if op[0] == "s":
                tops.append(TealOp(None, Op.store, slots[op[1]]))
            elif op[0] == "l":
                tops.append(TealOp(exprs[op[2]], Op.load, slots[op[1]]))
            elif op[0] == "r":
                tops.append(TealOp(None, getattr(Op, op[1])))
            elif op[0] == "i":
                tops.append(TealOp(None, Op.int, slots[op[1]]))
            else:
                tops.append(TealOp(None, Op.int, 7))
        bs.append(TealConditionalBlock(tops) if succ[0] in ("c", "ct", "cf") else TealSimpleBlock(tops))
    for (ops, succ), b in zip(g["blocks"], bs):
        if succ[0] == "j":
            b.setNextBlock(bs[succ[1]])
        elif succ[0] == "c":
            b.setTrueBlock(bs[succ[1]])
            b.setFalseBlock(bs[succ[2]])
        elif succ[0] == "ct":
            b.setTrueBlock(bs[succ[1]])
        elif succ[0] == "cf":
            b.setFalseBlock(bs[succ[1]])
    errs = bs[g["start"]].validateSlots(slotsInUse=set(slots[i] for i in g["init"]))
    out = []
    for e in errs:
        if not isinstance(e, pt.TealCompileError) or "load occurs before store" not in e.msg:
            out.append(-1)
            continue
        out.append(next(i for i, x in enumerate(exprs) if x is e.sourceExpr))
    return out


def outgoing(succ):
    if succ[0] == "n":
        return []
    if succ[0] in ("j", "ct", "cf"):
        return [succ[1]]
    return [succ[1], succ[2]]


def brute_paths(g, exec_precise=False):
    """Independent path enumeration on a block graph: set of (block, op index) of loads reached on
    some path with the slot never stored.  Explores (block, frozenset) states with a work list."""
    blocks = g["blocks"]
    bad = set()
    seen = set()
    work = [(g["start"], frozenset(g["init"]))]
    while work:
        st = work.pop()
        if st in seen:
            continue
        seen.add(st)
        b, S = st
        ops, succ = blocks[b]
        cur = set(S)
        dead = False
        term = False
        for i, op in enumerate(ops):
            if op[0] == "s":
                cur.add(op[1])
            elif op[0] == "l":
                if op[1] not in cur and not (exec_precise and dead):
                    bad.add((b, i))
            elif op[0] == "r":
                term = True
                dead = True
        if term:
            continue
        for n in outgoing(succ):
            work.append((n, frozenset(cur)))
    return bad


def graph_exprs_of(g, positions):
    return sorted({g["blocks"][b][0][i][2] for (b, i) in positions})


def check_graph(d: Driver, g):
    """returns (problem or None, info)"""
    enc = encode_graph(g)
    m, o = d.ask_many(["c17-validate " + enc, "c17-initcheck " + enc])
    real = real_validate(g)
    info = {"real": real, "model": m, "oracle": o}
    if m.startswith("perr") or o.startswith("perr") or m == "fuel" or o == "fuel":
        return ("model answered " + m + " / " + o, info)
    model_errs = [] if m == "ok" else [tuple(int(x) for x in w.split(".")) for w in m.split()[1:]]
    oracle_pos = set() if o == "ok" else {tuple(int(x) for x in w.split(".")) for w in o.split()[1:]}
    if [e[2] for e in model_errs] != real:
        return ("real validateSlots and Lean model disagree on the error list", info)
    brute = brute_paths(g)
    info["brute"] = sorted(brute)
    if oracle_pos != brute:
        return ("Lean initCheck and brute-force path enumeration disagree", info)
    # real code against the property: verdict and reported expressions
    if bool(real) != bool(brute):
        return ("real validateSlots verdict differs from path enumeration", info)
    if sorted(set(real)) != graph_exprs_of(g, brute):
        return ("real validateSlots reports a different set of load expressions than path enumeration", info)
    if not {(b, i) for (b, i, _e) in model_errs} <= oracle_pos:
        return ("model error positions are not oracle positions", info)
    return (None, info)


# ============================================================================ part 3: programs
# Recipe nodes as in recipes.py; ("load", var, occurrence_id) carries an id so that the error's
# sourceExpr can be traced back.  All variables are uint64.

from recipes import Builder, Program, Sub, Var, U, N, PT_MODE  # noqa: E402


class PGen:
    """Generator of programs with stores/loads sprinkled over all control shapes."""

    def __init__(self, r, careful: bool):
        self.r = r
        self.careful = careful
        self.occ = 0
        self.stats = {}
        self.budget = 0

    def note(self, k):
        self.stats[k] = self.stats.get(k, 0) + 1

    # --- expressions (uint64).  `di`: variables definitely initialised here (generator's estimate)
    def load(self, v):
        self.occ += 1
        self.note("load")
        return ("load", v, self.occ)

    def pick_load(self, di):
        r = self.r
        safe = [v for v in self.rvars if v.uid in di]
        if self.careful or r.random() < 0.6:
            if not safe:
                return ("int", r.randrange(5))
            return self.load(r.choice(safe))
        return self.load(r.choice(self.rvars))

    def expr(self, d, di):
        r = self.r
        c = r.random()
        if d <= 0 or c < 0.3:
            k = r.random()
            if k < 0.45 and self.rvars:
                if r.random() < 0.12:
                    # the index of a variable's slot: a reference to the variable which neither reads nor writes it
                    self.note("index")
                    return ("index", r.choice(self.rvars))
                return self.pick_load(di)
            if k < 0.6 and self.cur_sub is not None and self.cur_sub.params:
                return ("param", 0)
            if k < 0.8:
                return ("int", r.randrange(9))
            return r.choice([("txn", "Fee"), ("global", "Round"), ("txn", "NumAppArgs")])
        if c < 0.7:
            return ("op", r.choice(["Add2", "Lt", "EqU", "Minus", "Mul2"]), [self.expr(d - 1, di), self.expr(d - 1, di)])
        if c < 0.8:
            self.note("if-expr")
            cond = self.expr(d - 1, di)
            return ("if", cond, self.expr(d - 1, di), self.expr(d - 1, di))
        if c < 0.9:
            vs = [s for s in self.callable if s.ret == U]
            if vs:
                s = r.choice(vs)
                self.note("call")
                return ("call", s, [self.expr(d - 1, di) for _ in s.params])
        return ("op", "Not", [self.expr(d - 1, di)])

    # --- statements: return (node, definitely-initialised set after it | None if control never falls through)
    def store(self, d, di):
        r = self.r
        v = r.choice(self.rvars)
        self.note("store")
        self.budget -= 1
        e = self.expr(d, di)
        return ("store", v, e), di | {v.uid}

    def stmt(self, d, di, in_loop):
        r = self.r
        c = r.random()
        if d <= 0:
            c *= 0.42
        if self.budget <= 0 and c < 0.3:
            c = 0.35
        if c < 0.3 and self.rvars:
            return self.store(d - 1, di)
        if c < 0.42:
            self.note("pop")
            return ("op", "PopU", [self.expr(d, di)]), di
        if c < 0.58:
            self.note("if")
            cond = self.expr(d - 1, di)
            a, da = self.block(d - 1, di, in_loop)
            if r.random() < 0.5:
                self.note("if-else")
                b, db = self.block(d - 1, di, in_loop)
            else:
                b, db = None, di
            out = db if da is None else (da if db is None else da & db)
            return ("if", cond, a, b), out
        if c < 0.66:
            self.note("cond")
            arms = []
            cur = di
            outs = []
            k = r.choice([1, 2, 3])
            for i in range(k):
                cnd = ("int", 1) if (i == k - 1 and r.random() < 0.5) else self.expr(d - 1, cur)
                body, db = self.block(d - 1, cur, in_loop)
                arms.append((cnd, body))
                if db is not None:
                    outs.append(db)
            out = None
            for o in outs:
                out = o if out is None else out & o
            return ("cond", arms), out
        if c < 0.8:
            return self.loop(d, di)
        if c < 0.87 and in_loop:
            self.note("break/continue")
            inner = ("break",) if r.random() < 0.5 else ("continue",)
            if r.random() < 0.75:
                return ("if", self.expr(d - 1, di), inner, None), di
            return inner, None
        if c < 0.94:
            self.note("early-exit")
            ex = self.exit_stmt(d, di)
            if r.random() < 0.8:
                return ("if", self.expr(d - 1, di), ex, None), di
            return ex, None
        vs = [s for s in self.callable if s.ret == N]
        if vs:
            s = r.choice(vs)
            self.note("call")
            return ("call", s, [self.expr(d - 1, di) for _ in s.params]), di
        return ("op", "PopU", [self.expr(d, di)]), di

    def exit_stmt(self, d, di):
        r = self.r
        if self.cur_sub is not None:
            k = r.random()
            if k < 0.7:
                return ("ret", None if self.cur_sub.ret == N else self.expr(d - 1, di))
            return r.choice([("approve",), ("err",)])
        return r.choice([("approve",), ("reject",), ("ret", self.expr(d - 1, di)), ("err",)])

    def loop(self, d, di):
        r = self.r
        if r.random() < 0.5:
            self.note("while")
            cond = self.expr(d - 1, di)
            body, _ = self.block(d - 1, di, True)
            return ("while", cond, body), di
        self.note("for")
        if self.rvars and r.random() < 0.7:
            init, d1 = self.store(0, di)
        else:
            init, d1 = ("op", "PopU", [("int", 0)]), di
        cond = self.expr(d - 1, d1)
        body, db = self.block(d - 1, d1, True)
        if self.rvars and r.random() < 0.6:
            step, _ = self.store(1, d1 if db is None else (db & d1) | d1)
        else:
            step = ("op", "PopU", [self.expr(1, d1)])
        return ("for", init, cond, step, body), d1

    def block(self, d, di, in_loop):
        k = self.r.choice([1, 1, 2, 3])
        ss = []
        cur = di
        for _ in range(k):
            s, cur2 = self.stmt(d, cur if cur is not None else frozenset(), in_loop)
            ss.append(s)
            if cur2 is None:
                cur = None
                # statements after an unconditional exit are dead code: rarely keep generating
                if self.r.random() < 0.8:
                    break
                self.note("dead-tail")
            elif cur is not None:
                cur = cur2
        return (ss[0] if len(ss) == 1 and self.r.random() < 0.5 else ("seq", ss)), cur

    # --- routines
    def routine(self, sub, rvars, callable_, depth):
        self.cur_sub, self.rvars, self.callable = sub, rvars, callable_
        self.budget = 8
        di = frozenset()
        body = [("op", "PopU", [("int", 0)])]  # never start a routine with a loop (separate defect, C20)
        cur = di
        for _ in range(self.r.choice([1, 2, 3, 4])):
            s, cur2 = self.stmt(depth, cur if cur is not None else frozenset(), False)
            body.append(s)
            if cur2 is None:
                cur = None
                if self.r.random() < 0.85:
                    break
                self.note("dead-tail")
            elif cur is not None:
                cur = cur2
        fin = cur if cur is not None else frozenset()
        if sub is None:
            t = self.r.random()
            last = ("approve",) if t < 0.4 else (("ret", self.expr(1, fin)) if t < 0.7 else self.expr(2, fin))
            body.append(last)
        elif sub.ret == U:
            body.append(self.expr(2, fin))
        return ("seq", body)

    def program(self):
        r = self.r
        nsubs = r.choice([0, 0, 1, 1, 2])
        shared = [Var(U) for _ in range(r.choice([0, 0, 1]))] if nsubs else []
        subs = []
        allvars = list(shared)
        for sid in range(nsubs):
            ret = r.choice([N, U])
            params = [("val", Var(U))] if r.random() < 0.5 else []
            s = Sub(sid, f"f{sid}", params, ret)
            own = [Var(U, slot=(r.randrange(0, 256) if r.random() < 0.1 else None)) for _ in range(r.choice([1, 2, 3]))]
            own = _distinct_slots(own, allvars)
            allvars += own
            rv = own + (shared if r.random() < 0.7 else [])
            s.body = self.routine(s, rv, list(subs), 2)
            subs.append(s)
        own = [Var(U, slot=(r.randrange(0, 256) if r.random() < 0.1 else None)) for _ in range(r.choice([1, 2, 3, 4, 5]))]
        own = _distinct_slots(own, allvars)
        allvars += own
        main = self.routine(None, own + shared, list(subs), 3)
        # make sure most subroutines are referenced (an unreferenced one is not compiled at all)
        called = set()
        _calls(main, called)
        for s in subs:
            if s.sid not in called and r.random() < 0.85:
                call = ("call", s, [("int", 1) for _ in s.params])
                main[1].insert(1, call if s.ret == N else ("op", "PopU", [call]))
        return Program("app", main, allvars, subs)


def _distinct_slots(vs, others):
    used = {v.slot for v in others if v.slot is not None}
    for v in vs:
        if v.slot is not None and v.slot in used:
            v.slot = None
        if v.slot is not None:
            used.add(v.slot)
    return vs


def _calls(n, acc):
    if isinstance(n, tuple) and n and n[0] == "call":
        acc.add(n[1].sid)
    if isinstance(n, (tuple, list)):
        for x in n:
            if isinstance(x, (tuple, list)):
                _calls(x, acc)


def _vars_of(n, acc):
    if isinstance(n, tuple) and n and n[0] in ("load", "store", "index"):
        acc.add(n[1].uid)
    if isinstance(n, (tuple, list)):
        for x in n:
            if isinstance(x, (tuple, list)):
                _vars_of(x, acc)


def _loads_of(n, acc):
    if isinstance(n, tuple) and n and n[0] == "load":
        acc.add(n[2])
    if isinstance(n, (tuple, list)):
        for x in n:
            if isinstance(x, (tuple, list)):
                _loads_of(x, acc)


def routines_of(prog: Program):
    """reachable routines {key: body}, key None = main; and per routine the set of variables that
    are used by that routine only (the ones the compiler validates)."""
    bodies = {None: prog.main}
    by_sid = {s.sid: s for s in prog.subs}
    todo = [None]
    used = {}
    while todo:
        k = todo.pop()
        # what the routine references in the compiler's block graph: places cut off by Break/Continue (e.g. the step of a For whose body
        # only breaks) are not part of it, places behind Return/Approve/Err are
        fl = Flow(set(), linked_after_exit=True)
        fl.run(bodies[k], frozenset([frozenset()]))
        used[k] = fl.used
        for sid in fl.called:
            if sid not in bodies:
                bodies[sid] = by_sid[sid].body
                todo.append(sid)
    local = {}
    for k in bodies:
        others = set()
        for k2, s in used.items():
            if k2 != k:
                others |= s
        local[k] = used[k] - others
    return bodies, local


# ---------------------------------------------------------------- oracle 1: collecting semantics on the recipe


class Flow:
    """All syntactic paths through one routine, represented by the set of possible
    'variables stored so far' sets at every program point (loops: iterate to the fixpoint)."""

    def __init__(self, local, linked_after_exit=False):
        self.local = local
        self.bad = set()     # occurrence ids of loads reached with the variable possibly unset
        self.live = set()    # occurrence ids of loads that lie on some path at all
        # `linked_after_exit`: the view of the compiler's block graph, in which the code behind Return/Approve/Err stays linked (only
        # Break/Continue cut an edge); used to find which variables and routines a routine REFERENCES in the compiler's sense
        self.linked_after_exit = linked_after_exit
        self.used = set()    # variables referenced (load / store / index) at a linked place
        self.called = set()  # routines called from a linked place

    def run(self, n, S):
        """S: set of frozensets.  Returns (fallthrough, break, continue) state sets."""
        E = frozenset()
        t = n[0]
        if t in ("int", "txn", "global", "param"):
            return S, E, E
        if t == "index":
            if S:
                self.used.add(n[1].uid)
            return S, E, E
        if t == "load":
            if S:
                self.used.add(n[1].uid)
                self.live.add(n[2])
                if n[1].uid in self.local and any(n[1].uid not in s for s in S):
                    self.bad.add(n[2])
            return S, E, E
        if t == "store":
            S1, b, c = self.run(n[2], S)
            if S1:
                self.used.add(n[1].uid)
            if n[1].uid in self.local:
                S1 = frozenset(s | {n[1].uid} for s in S1)
            return S1, b, c
        if t in ("op", "call"):
            B, C = set(), set()
            for a in n[2]:
                S, b, c = self.run(a, S)
                B |= b
                C |= c
            if t == "call" and S:
                self.called.add(n[1].sid)
            return S, frozenset(B), frozenset(C)
        if t == "seq":
            B, C = set(), set()
            for x in n[1]:
                S, b, c = self.run(x, S)
                B |= b
                C |= c
            return S, frozenset(B), frozenset(C)
        if t == "if":
            S1, b0, c0 = self.run(n[1], S)
            Sa, ba, ca = self.run(n[2], S1)
            if n[3] is not None:
                Sb, bb, cb = self.run(n[3], S1)
            else:
                Sb, bb, cb = S1, E, E
            return Sa | Sb, b0 | ba | bb, c0 | ca | cb
        if t == "cond":
            out, B, C = set(), set(), set()
            cur = S
            for cnd, body in n[1]:
                cur, b, c = self.run(cnd, cur)
                B |= b
                C |= c
                So, b, c = self.run(body, cur)
                out |= So
                B |= b
                C |= c
            return frozenset(out), frozenset(B), frozenset(C)  # no arm taken: err
        if t == "while":
            H = frozenset(S)
            while True:
                S1, _, _ = self.run(n[1], H)
                Sb, brk, cont = self.run(n[2], S1)
                H2 = H | Sb | cont
                if H2 == H:
                    return S1 | brk, E, E
                H = H2
        if t == "for":
            S0, _, _ = self.run(n[1], S)
            H = frozenset(S0)
            while True:
                S1, _, _ = self.run(n[2], H)
                Sb, brk, cont = self.run(n[4], S1)
                S2, _, _ = self.run(n[3], Sb | cont)
                H2 = H | S2
                if H2 == H:
                    return S1 | brk, E, E
                H = H2
        if t == "break":
            return E, frozenset(S), E
        if t == "continue":
            return E, E, frozenset(S)
        if t in ("approve", "reject", "err"):
            return (S if self.linked_after_exit else E), E, E
        if t == "ret":
            if n[1] is not None:
                S, _b, _c = self.run(n[1], S)
            return (S if self.linked_after_exit else E), E, E
        raise ValueError("flow: unknown node " + str(t))


# ---------------------------------------------------------------- oracle 2: own CFG -> Lean initCheck


class Cfg:
    def __init__(self, local, slot_of):
        self.local, self.slot_of = local, slot_of
        self.blocks = []   # [ops, succ]
        self.pos = {}      # (block, idx) -> occurrence id
        self.loops = []    # (break target, continue target)

    def new(self):
        self.blocks.append([[], ("n",)])
        return len(self.blocks) - 1

    def emit(self, cur, op, occ=None):
        if occ is not None:
            self.pos[(cur, len(self.blocks[cur][0]))] = occ
        self.blocks[cur][0].append(op)

    def build(self, n, cur):
        """append the code of n starting in the open block cur; return the open block where control continues
        (a fresh block without predecessors after an unconditional exit)"""
        t = n[0]
        if t in ("int", "txn", "global", "param", "index"):
            self.emit(cur, ("o",))
            return cur
        if t == "load":
            self.emit(cur, ("l", self.slot_of[n[1].uid], n[2]), n[2])
            return cur
        if t == "store":
            cur = self.build(n[2], cur)
            self.emit(cur, ("s", self.slot_of[n[1].uid]))
            return cur
        if t in ("op", "call"):
            for a in n[2]:
                cur = self.build(a, cur)
            self.emit(cur, ("o",))
            return cur
        if t == "seq":
            for x in n[1]:
                cur = self.build(x, cur)
            return cur
        if t == "if":
            cur = self.build(n[1], cur)
            tb, join = self.new(), self.new()
            te = self.build(n[2], tb)
            self.blocks[te][1] = ("j", join)
            if n[3] is not None:
                fb = self.new()
                fe = self.build(n[3], fb)
                self.blocks[fe][1] = ("j", join)
            else:
                fb = join
            self.blocks[cur][1] = ("c", tb, fb)
            return join
        if t == "cond":
            join = self.new()
            for cnd, body in n[1]:
                cur = self.build(cnd, cur)
                tb, nxt = self.new(), self.new()
                self.blocks[cur][1] = ("c", tb, nxt)
                te = self.build(body, tb)
                self.blocks[te][1] = ("j", join)
                cur = nxt
            self.emit(cur, ("r", "err"))
            return join
        if t in ("while", "for"):
            if t == "for":
                cur = self.build(n[1], cur)
            head, body, exit_ = self.new(), self.new(), self.new()
            self.blocks[cur][1] = ("j", head)
            he = self.build(n[1] if t == "while" else n[2], head)
            self.blocks[he][1] = ("c", body, exit_)
            if t == "for":
                step = self.new()
                se = self.build(n[3], step)
                self.blocks[se][1] = ("j", head)
                cont = step
            else:
                cont = head
            self.loops.append((exit_, cont))
            be = self.build(n[2] if t == "while" else n[4], body)
            self.loops.pop()
            self.blocks[be][1] = ("j", cont)
            return exit_
        if t in ("break", "continue"):
            self.blocks[cur][1] = ("j", self.loops[-1][0 if t == "break" else 1])
            return self.new()
        if t in ("approve", "reject", "err"):
            self.emit(cur, ("r", "return_"))
            return self.new()
        if t == "ret":
            if n[1] is not None:
                cur = self.build(n[1], cur)
            self.emit(cur, ("r", "return_"))
            return self.new()
        raise ValueError("cfg: unknown node " + str(t))


def oracle(prog: Program, d: Driver):
    """returns (bad occurrence ids by path enumeration, bad occurrence ids by Lean initCheck on own CFG,
    live occurrence ids, all occurrence ids of compiled routines, bad occurrence ids per routine)"""
    bodies, local = routines_of(prog)
    bad1, bad2, live, allocc = set(), set(), set(), set()
    per_routine = []
    lines, cfgs = [], []
    for k, body in bodies.items():
        fl = Flow(local[k])
        fl.run(body, frozenset([frozenset()]))
        bad1 |= fl.bad
        per_routine.append(set(fl.bad))
        live |= fl.live
        _loads_of(body, allocc)
        used = set()
        _vars_of(body, used)
        slot_of = {u: i for i, u in enumerate(sorted(used))}
        cfg = Cfg(local[k], slot_of)
        end = cfg.build(body, cfg.new())
        cfg.emit(end, ("r", "return_"))  # the compiler appends the final return
        g = dict(blocks=[(ops, succ) for ops, succ in cfg.blocks],
                 init=sorted(slot_of[u] for u in used - local[k]), start=0)
        lines.append("c17-initcheck " + encode_graph(g))
        cfgs.append(cfg)
    for cfg, ans in zip(cfgs, d.ask_many(lines)):
        if ans == "ok":
            continue
        if not ans.startswith("bad "):
            raise common.ToolFailure("c17-initcheck answered " + ans)
        for w in ans.split()[1:]:
            b, i = (int(x) for x in w.split("."))
            bad2.add(cfg.pos[(b, i)])
    return bad1, bad2, live, allocc, per_routine


# ---------------------------------------------------------------- the real compiler


class B17(Builder):
    def __init__(self, prog):
        self.load_ids = {}
        self.keep = []
        super().__init__(prog)

    def e(self, n):
        x = super().e(n)
        if n[0] == "load":
            self.load_ids[id(x)] = n[2]
            self.keep.append(x)
        return x


def compile_real17(prog: Program, version: int, optimize):
    """('ok',) | ('rbw', n_errors, occurrence id of the load named by the error, message)
       | ('err', class, message) | ('crash', class, message)"""
    pt = _pt()
    import pyteal.errors as pe
    b = B17(prog)
    try:
        ast = b.main()
        kw = {}
        if optimize is not None:
            kw["optimize"] = pt.OptimizeOptions(scratch_slots=optimize)
        pt.compileTeal(ast, PT_MODE[prog.mode], version=version, **kw)
        return ("ok",)
    except pe.TealInternalError as e:
        c = e.__cause__
        msg = str(e)
        if isinstance(c, pe.TealCompileError) and "load occurs before store" in c.msg and msg.startswith("Encountered "):
            try:
                n = int(msg.split()[1])
            except ValueError:
                n = -1
            return ("rbw", n, b.load_ids.get(id(c.sourceExpr)), msg[:120])
        return ("err", "TealInternalError", msg[:200])
    except (pe.TealInputError, pe.TealCompileError, pe.TealTypeError, pe.TealPragmaError) as e:
        return ("err", type(e).__name__, str(e)[:200])
    except Exception as e:  # noqa: BLE001
        return ("crash", type(e).__name__, str(e)[:200])


def show(n, ind=0):
    """human-readable rendering of a recipe (for replays)"""
    if isinstance(n, tuple):
        t = n[0]
        if t == "load":
            return f"{n[1].name}.load#{n[2]}"
        if t == "store":
            return f"{n[1].name}.store({show(n[2])})"
        if t == "index":
            return f"{n[1].name}.index()"
        if t == "call":
            return f"{n[1].name}({', '.join(show(a) for a in n[2])})"
        if t == "seq":
            return "Seq(" + "; ".join(show(x) for x in n[1]) + ")"
        if t == "cond":
            return "Cond(" + ", ".join(f"[{show(c)} -> {show(b)}]" for c, b in n[1]) + ")"
        return t + "(" + ", ".join(show(x) for x in n[1:] if x is not None) + ")"
    if isinstance(n, list):
        return "[" + ", ".join(show(x) for x in n) + "]"
    return str(n)


def show_prog(p: Program):
    out = [f"sub {s.name}({len(s.params)} params) -> {s.ret}: {show(s.body)}" for s in p.subs]
    out.append("main: " + show(p.main))
    return out


def gen_program(tag: str, i: int):
    r = rng(f"c17-prog-{tag}-{i}")
    careful = r.random() < 0.3
    g = PGen(r, careful)
    p = g.program()
    version = r.choice([6, 7, 8, 10])
    optimize = r.choice([None, None, True, False])
    return p, version, optimize, g.stats, careful


def dead_load_program():
    """the known finding: `Seq(Approve(), Pop(v.load()), Approve())` - the load can never execute"""
    v = Var(U)
    main = ("seq", [("approve",), ("op", "PopU", [("load", v, 1)]), ("approve",)])
    return Program("app", main, [v], [])


def check_program(d: Driver, p: Program, version, optimize):
    """returns (status, detail) with status in ok-accept / ok-reject / skip / known-dead / violation / oracle-mismatch"""
    bad1, bad2, live, allocc, per_routine = oracle(p, d)
    res = compile_real17(p, version, optimize)
    detail = {"oracle_paths": sorted(bad1), "oracle_initcheck": sorted(bad2), "real": list(res),
              "version": version, "optimize": optimize, "program": show_prog(p)}
    if bad1 != bad2:
        return "oracle-mismatch", detail
    if res[0] in ("crash", "err"):
        return "skip", detail
    dead = allocc - live
    if res[0] == "ok":
        if bad1:
            detail["why"] = "accepted although a path reads a routine-local variable before any store"
            return "violation", detail
        return "ok-accept", detail
    _, n, occ, _msg = res
    if not bad1:
        if occ in dead:
            return "known-dead", detail
        detail["why"] = "rejected although no path reads a variable before its first store"
        return "violation", detail
    if occ not in bad1:
        if occ in dead:
            return "known-dead", detail
        detail["why"] = "the error names a load that is not a read-before-write"
        return "violation", detail
    # the compiler validates routine by routine and stops at the first routine with errors
    mine = next(b for b in per_routine if occ in b)
    if n != len(mine):
        if dead:
            return "known-dead", detail
        detail["why"] = f"{n} errors announced, {len(mine)} offending loads in the routine of the reported load"
        return "violation", detail
    return "ok-reject", detail


# ============================================================================ entry points


def run(tier: str) -> int:
    rep = Report("C17", tier, level="proof")
    t0 = time.time()
    st = check_proofs(PROOF_MODULES, extra_files=[common.LEAN / "PyTealV/Models/ValidateSlots.lean",
                                                  common.LEAN / "PyTealV/Cmd/C17.lean"])
    rep.coverage.update(proof_coverage(st, "cd lean && lake build PyTealV.Proofs.C17", [
        "Lean 4 kernel; axioms propext, Classical.choice, Quot.sound only",
        "model lean/PyTealV/Models/ValidateSlots.lean mirrors TealBlock.validateSlots / isTerminal / getOutgoing (tied by the direct correspondence below)",
        "distinct ScratchSlot objects of one program have distinct ids (enforced by assignScratchSlotsToSubroutines before validateSlots runs), so the set of slot objects is modelled by the sorted list of ids",
        "every store/load TealOp carries exactly one ScratchSlot (ScratchStore/ScratchLoad/ScratchStackStore)",
        "end to end: the block graph handed to validateSlots has the paths of the source program (C01-C05 compile_correct); checked here only by the oracle comparison on generated programs",
    ]))
    proofs_ok = st.ok
    missing = [t for t in REQUIRED_THEOREMS if t not in st.theorems]
    if st.build_ok and missing:
        proofs_ok = False
        st.problems.append("missing theorems: " + ", ".join(missing))
    rep.notes.append(f"proofs: {'ok' if proofs_ok else 'BROKEN ' + '; '.join(st.problems)[:500]}")

    d = Driver()
    quick = tier == "quick"
    # ------------------------------------------------------------------ part 2
    n_graphs = 5000 if quick else 60000
    r = rng("c17-graphs")
    gstats = {"graphs": 0, "rejected": 0, "dedup_effective": 0, "terminal_mid_block": 0, "chain": 0}
    gsamples = []
    graph_problem = None
    for i in range(n_graphs):
        if i % 50 == 49:
            g = gen_chain_graph(r)
            gstats["chain"] += 1
        else:
            g = gen_graph(r)
        prob, info = check_graph(d, g)
        gstats["graphs"] += 1
        if info["real"]:
            gstats["rejected"] += 1
        if "brute" in info and len(info["brute"]) > len(set(info["real"])):
            gstats["dedup_effective"] += 1
        if any(any(op[0] == "r" for op in ops[:-1]) for ops, _ in g["blocks"]):
            gstats["terminal_mid_block"] += 1
        if len(gsamples) < 3 and info["real"]:
            gsamples.append({"graph": encode_graph(g), "real_errors(expr ids)": info["real"], "model": info["model"], "initcheck": info["oracle"]})
        if prob and graph_problem is None:
            graph_problem = (prob, g, info)
    if graph_problem:
        prob, g, info = graph_problem
        # is it a failing input of the property on the real code, or only a model mismatch?
        brute = brute_paths(g)
        real = info["real"]
        real_wrong = bool(real) != bool(brute) or sorted(set(real)) != graph_exprs_of(g, brute)
        rep.violation(("real validateSlots contradicts path enumeration: " if real_wrong else "correspondence only: ") + prob,
                      {"kind": "graph", "graph": g, "encoded": encode_graph(g), "info": info,
                       "expected_bad_positions": sorted(brute)}, no_input=not real_wrong)

    # ------------------------------------------------------------------ known finding (replayed on the real code)
    p = dead_load_program()
    stt, det = check_program(d, p, 8, None)
    # NOT a violation of C17: the property only demands rejection when a bad path exists; rejecting a
    # program whose only unset load is unreachable (ops after return/err in the same block are still
    # scanned; Lean: validate_reports_exec_counterexample) is conservative. Reported in the evidence only.
    rep.notes.append(f"conservative rejection of a dead load after return in the same block: {'reproduces' if stt == 'known-dead' else 'no longer reproduces (' + stt + ')'}")

    # ------------------------------------------------------------------ part 3
    n_prog = 700 if quick else 9000
    pstats = {"programs": 0, "ok-accept": 0, "ok-reject": 0, "skip": 0, "known-dead": 0, "careful": 0}
    shapes = {}
    skips = {}
    psamples = []
    budget = (30 if quick else 420)
    tstart = time.time()
    first_bad = None
    for i in range(n_prog):
        if i >= 60 and time.time() - tstart > budget:
            break
        p, version, optimize, stats, careful = gen_program(tier, i)
        stt, det = check_program(d, p, version, optimize)
        pstats["programs"] += 1
        pstats["careful"] += careful
        for k, v in stats.items():
            shapes[k] = shapes.get(k, 0) + v
        if stt in pstats:
            pstats[stt] += 1
        if stt == "skip":
            k = det["real"][1] + ": " + det["real"][2][:60]
            skips[k] = skips.get(k, 0) + 1
        if stt in ("violation", "oracle-mismatch") and first_bad is None:
            first_bad = (stt, i, det)
        if len(psamples) < 3 and stt == "ok-reject":
            psamples.append({"index": i, "program": det["program"], "offending_loads": det["oracle_paths"], "real": det["real"]})
    if first_bad:
        stt, i, det = first_bad
        if stt == "violation":
            rep.violation("compileTeal: " + det["why"], {"kind": "program", "tier": tier, "index": i, "detail": det})
        else:
            rep.violation("the two oracles (path enumeration on the recipe / Lean initCheck on the CFG) disagree",
                          {"kind": "program", "tier": tier, "index": i, "detail": det}, no_input=True)
    # ---- the same routine object in two programs of one process: whether a variable is "used by a single routine" is a fact about the
    # PROGRAM being compiled, so a routine accepted inside one program can hold an offending load inside the next
    hist = {"sequences": 0, "rejected_as_required": 0}
    pt = _pt()
    import pyteal.errors as pe
    for version, okw in ((6, {}), (8, {}), (8, {"frame_pointers": False}), (10, {"scratch_slots": False}), (10, {})):
        for order in ("good-first", "bad-first", "good-good-bad"):
            g_ = pt.ScratchVar(pt.TealType.uint64)

            def _reader():
                return g_.load() + pt.Int(1)
            reader = pt.Subroutine(pt.TealType.uint64, name="reader")(_reader)
            good = lambda: pt.Seq(g_.store(pt.Int(5)), pt.Pop(reader()), pt.Approve())     # noqa: E731  main stores: shared slot
            bad = lambda: pt.Seq(pt.Pop(reader()), pt.Approve())                            # noqa: E731  the routine is the only user
            kw = {"optimize": pt.OptimizeOptions(**okw)} if okw else {}
            seq_ = {"good-first": [good, bad], "bad-first": [bad, good], "good-good-bad": [good, good, bad]}[order]
            hist["sequences"] += 1
            for th in seq_:
                try:
                    teal = pt.compileTeal(th(), pt.Mode.Application, version=version, **kw)
                    outcome_ = ("ok", teal)
                except pe.TealInternalError as e:
                    c_ = e.__cause__
                    outcome_ = ("rbw",) if isinstance(c_, pe.TealCompileError) and "load occurs before store" in c_.msg else ("err", str(e)[:200])
                except Exception as e:  # noqa: BLE001
                    outcome_ = ("err", type(e).__name__ + ": " + str(e)[:200])
                want = "ok" if th is good else "rbw"
                if outcome_[0] == want:
                    hist["rejected_as_required"] += want == "rbw"
                    continue
                rep.violation(f"one routine object in two programs of a process (order {order}, v{version} {okw}): the program in which the routine is the "
                              f"only user of the variable and nothing stores it gives {outcome_[0]} (required: {'accepted' if want == 'ok' else 'rejected, naming the load'})",
                              {"kind": "shared-routine", "order": order, "version": version, "options": okw, "outcome": list(outcome_)})
    # ---- a routine first compiled inside Router.compile_program (the slot-id counter is rewound afterwards, the routine keeps its slots), then
    # used by a program whose k-th fresh variable is read on a path that never wrote it: the variable may carry the id of one of the
    # routine's slots; it is still a variable of ONE routine and the load must be refused
    hist["after_router_programs"] = 0
    for version in (6, 8):
        for k in range(1, 9):
            hv_ = pt.ScratchVar(pt.TealType.uint64)

            def _helper(x):
                return pt.Seq(hv_.store(x + pt.Int(1)), hv_.load())
            helper = pt.Subroutine(pt.TealType.uint64, name="helper")(_helper)
            router = pt.Router("c17", pt.BareCallActions(no_op=pt.OnCompleteAction.create_only(pt.Approve())))

            def _m(a, *, output):
                return output.set(helper(a.get()))
            _m.__annotations__ = {"a": pt.abi.Uint64, "output": pt.abi.Uint64, "return": pt.Expr}
            _m.__name__ = "m"
            router.add_method_handler(pt.ABIReturnSubroutine(_m))
            try:
                router.compile_program(version=version)
                vs_ = [pt.ScratchVar(pt.TealType.uint64) for _ in range(k)]
                flag = vs_[-1]
                prog_ = pt.Seq(*[x.store(pt.Int(i)) for i, x in enumerate(vs_[:-1])], pt.Pop(helper(pt.Int(3))),
                               pt.If(pt.Txn.fee() > pt.Int(5)).Then(flag.store(pt.Int(7))), pt.Return(flag.load()))
                hist["after_router_programs"] += 1
                try:
                    pt.compileTeal(prog_, pt.Mode.Application, version=version)
                    got_ = "ok"
                except pe.TealInternalError as e:
                    c_ = e.__cause__
                    got_ = "rbw" if isinstance(c_, pe.TealCompileError) and "load occurs before store" in c_.msg else "err " + str(e)[:150]
            except Exception as e:  # noqa: BLE001
                got_ = "err " + type(e).__name__ + ": " + str(e)[:150]
            if got_ != "rbw":
                rep.violation(f"after a Router compiled the routine `helper`, a program calling it whose variable no. {k} is loaded on a path that never stored it "
                              f"gives {got_} (v{version}; required: rejected, naming the load)",
                              {"kind": "after-router", "k": k, "version": version, "outcome": got_})
    d.close()

    if not proofs_ok:
        # the proofs no longer stand; the searches above are the failing-input search on the real code
        rep.violation("Lean proofs of C17 do not build / are not axiom-clean: " + "; ".join(st.problems)[:300],
                      {"kind": "proofs", "problems": st.problems, "log": st.log[-2000:]}, no_input=True)

    decided = pstats["ok-accept"] + pstats["ok-reject"]
    rep.coverage.update({
        "evaluations": gstats["graphs"] + pstats["programs"],
        "distinct_nontrivial": gstats["rejected"] + pstats["ok-reject"],
        "rule": "graphs: real validateSlots error list == Lean model (ordered), verdict/positions == Lean initCheck == brute-force paths; "
                "programs: compileTeal raises TealInternalError caused by TealCompileError('Scratch slot load occurs before store') naming an "
                "offending load and announcing |offending loads| errors iff the recipe has a read-before-write path",
        "samples": gsamples + psamples,
        "distribution": {"graphs": gstats, "programs": pstats, "program_constructs": shapes, "skipped_because": skips,
                         "one_routine_object_in_several_programs": hist,
                         "rejected_share_of_decided_programs": round(pstats["ok-reject"] / decided, 3) if decided else None},
    })
    rep.assumptions += [
        "programs: uint64 ScratchVars only (a few with requested slot ids), <= 5 variables and <= ~10 stores per routine "
        "(validateSlots is exponential in the number of conditional stores), versions 6/7/8/10, optimiser on/off/default",
        "programs the real compiler refuses or crashes on for another reason are skipped and counted (skipped_because)",
    ]
    rep.notes.append(f"wall: proofs+graphs+programs {round(time.time() - t0, 1)}s")
    return rep.finish()


def replay(path: str) -> int:
    body = json.loads(open(path).read())
    os.environ["VERIF_SEED"] = str(body.get("seed", 0))
    d = Driver()
    kind = body.get("kind")
    print("what:", body.get("what"))
    if kind == "graph":
        g = body["graph"]
        g["blocks"] = [([tuple(o) for o in ops], tuple(s)) for ops, s in g["blocks"]]
        enc = encode_graph(g)
        print("graph           :", enc)
        print("real validateSlots (expr ids, in order):", real_validate(g))
        print("Lean model      :", d.ask("c17-validate " + enc))
        print("Lean initCheck  :", d.ask("c17-initcheck " + enc))
        print("brute-force bad (block, op):", sorted(brute_paths(g)))
        print("brute-force, executed loads only:", sorted(brute_paths(g, exec_precise=True)))
    elif kind == "program":
        p, version, optimize, _, _ = gen_program(body["tier"], body["index"])
        stt, det = check_program(d, p, version, optimize)
        print("\n".join(det["program"]))
        print("version", version, "optimize", optimize)
        print("oracle (paths)     offending load ids:", det["oracle_paths"])
        print("oracle (initCheck) offending load ids:", det["oracle_initcheck"])
        print("real compileTeal:", det["real"])
        print("status:", stt, det.get("why", ""))
    elif kind == "dead-load":
        stt, det = check_program(d, dead_load_program(), 8, None)
        print("\n".join(det["program"]))
        print("oracle offending loads:", det["oracle_paths"], " real:", det["real"], " status:", stt)
    else:
        print(json.dumps(body, indent=1)[:3000])
    d.close()
    return 0
