"""C11 - compilation is deterministic and independent of process history.

proof          lean/PyTealV/Proofs/C11.lean (+ C11Rename.lean) on the SESSION model
               lean/PyTealV/Models/Session.lean (process-global counters, `_current_proto`, declaration
               caches) and on the C10 slot model.  Full strength, all histories: `session_inv`
               (`_current_proto` is None between API calls - true since fix 6bedda4 put the restore of
               `_frame_pointer_context` in a `finally:`), `decl_shape_inv`, `compile_history_independent`,
               `compile_rel_order_only`, `compile_tiebreak_irrelevant`, `compile_idempotent`.  Still partial:
               `compile_history_independent_anysort_partial` (any tie-break of sorted(allSlots, key=id), for
               targets without colliding slot ids) with `router_recompile_counterexample`.  Regression
               witness of the fix: `session_counterexample_old`.
correspondence (part A) random sessions of API operations executed by the REAL code in separate
               interpreter processes (explicit PYTHONHASHSEED) and by the model (driver `c11-run`):
               after every operation the same `ScratchSlot.nextSlotId`,
               `SubroutineDefinition.nextSubroutineId`, `SubroutineEval._current_proto`, the same
               exception class, and for every compilation the same slot numbers, label indices and ABI
               value locations read back from the real TEAL; at the end the same declaration caches.
exploration    (part B, what no Lean model exhibits: fresh interpreters, hash seeds) every generated
               target (recipe programs with subroutines / requested, automatic and dynamic slots, ABI
               subroutines, routers compiled repeatedly and at different versions, templates, probed
               subroutines) is built and compiled in SEPARATE interpreter processes after DIFFERENT prior
               histories (incl. compilations failing at every stage and subroutine bodies raising under
               frame pointers) and under different hash seeds; all TEAL texts of one target must be
               byte-identical across processes and repeats.  A difference is a KNOWN-FINDING only when
               the session model predicts it (colliding slot ids on a router re-compile) AND the real
               difference has exactly the predicted shape (a renaming of slot numbers); anything else -
               in particular a `_current_proto` leaking out of a failed compilation again - is a
               VIOLATION whose replay holds both child scripts (history + target).
"""
from __future__ import annotations

import hashlib
import json
import os
import re
import subprocess
import sys
import time
from concurrent.futures import ThreadPoolExecutor
from pathlib import Path

HERE = Path(__file__).resolve().parent
if str(HERE.parent) not in sys.path:
    sys.path.insert(0, str(HERE.parent))

import common  # noqa: E402
from common import Report, check_proofs, proof_coverage, Driver, rng, seed  # noqa: E402

PYTHON = "/venv/bin/python"
PROOF_MODULES = ["PyTealV.Proofs.C11", "PyTealV.Proofs.C11Rename"]
KEY_TIE = "C11-router-recompile-slot-id-collision"
KEY_ORDER = "C11-version-order-slot-renaming"
REQUIRED_THEOREMS = [
    "PyTealV.Proofs.C11Rename.assignWith_rename", "PyTealV.Proofs.C11Rename.assignSlots_rename",
    "PyTealV.Proofs.C11Rename.assignWith_tiebreak_irrelevant",
    "PyTealV.Proofs.C11.compile_rel_order_only", "PyTealV.Proofs.C11.compile_tiebreak_irrelevant",
    "PyTealV.Proofs.C11.decl_shape_inv", "PyTealV.Proofs.C11.session_inv",
    "PyTealV.Proofs.C11.session_counterexample_old", "PyTealV.Proofs.C11.compile_history_independent",
    "PyTealV.Proofs.C11.compile_history_independent_anysort_partial",
    "PyTealV.Proofs.C11.compile_idempotent", "PyTealV.Proofs.C11.router_recompile_counterexample",
]
TRUSTED = [
    "Lean 4 kernel; axioms propext, Classical.choice, Quot.sound only",
    "model = code: Models/Session.lean mirrors scratch.py / subroutine.py (_frame_pointer_context, __probe_info, "
    "get_declaration_by_option, evaluate) / abstractvar.py / router.py (_cleaning_context, wrap_handler) / "
    "abi/type.py (store_into) - tied to the code by part A of this check (step-by-step state comparison)",
    "Models/Slots.lean (C10) as the model of assignScratchSlotsToSubroutines; resolveSubroutines = rank in sorted ids",
    "what a Lean model cannot exhibit (fresh interpreters, PYTHONHASHSEED, CPython set order for EQUAL ids) is "
    "decided by multi-process differential execution only (part B), not proved",
]

# ============================================================================ real sessions (child side)
# An operation is a string in the encoding of the driver command `c11-run` (see lean/PyTealV/Cmd/C11.lean);
# `into:D:A1,A2:OUT` carries the names of the ABI values used as arguments (the model only gets `into:D`).


def mark(name: int, kind: int, idx: int) -> int:
    return 1_000_000 + name * 1000 + kind * 100 + idx


class SessionBoom(Exception):
    """raised by the generated subroutine bodies"""


PROTO_OWNER: dict[int, int] = {}
KEEP: list = []


class RealSession:
    """Executes session operations on the real PyTeal under common.REPO."""

    def __init__(self):
        sys.path.insert(0, str(common.REPO))
        import pyteal as pt
        from pyteal.ast.subroutine import SubroutineEval, SubroutineDefinition
        self.pt, self.SubroutineEval, self.SubroutineDefinition = pt, SubroutineEval, SubroutineDefinition
        self.env: dict[int, object] = {}
        self.info: dict[int, tuple] = {}
        # shared by all sessions of the process: a proto leaked by the history is named in the target's states
        self.proto_owner: dict[int, int] = PROTO_OWNER
        self.keep: list = KEEP
        self.routers: dict[int, list] = {}

    # ---- observation of the global state
    def state(self) -> str:
        pt = self.pt
        p = self.SubroutineEval._current_proto
        if p is None:
            ps = "-"
        else:
            ps = f"{self.proto_owner.get(id(p), '?')}.{len(p.mem_layout.local_stack_types)}"
        return f"{pt.ScratchSlot.nextSlotId},{self.SubroutineDefinition.nextSubroutineId},{ps}"

    def defs(self) -> str:
        out = []
        for n, o in self.env.items():
            if n in self.info:
                d = o.subroutine.declarations
                b = lambda x: "1" if x else "0"  # noqa: E731
                out.append(f"{n}:{o.subroutine.id}:{b(d.option_map[False] is not None)}:{b(d.option_map[True] is not None)}:"
                           f"{b(d.has_return is not None and d.type_of is not None)}")
        return " ".join(out)

    # ---- object construction
    def make_def(self, name, P, V, A, O, RS, RF):
        pt, S = self.pt, self

        def _body(args, output=None):
            proto = S.SubroutineEval._current_proto
            fp = proto is not None
            if fp:
                S.proto_owner[id(proto)] = name
                S.keep.append(proto)
            vs = [pt.ScratchVar(pt.TealType.uint64) for _ in range(V)]
            as_ = [pt.abi.Uint64() for _ in range(A)]
            if (RF if fp else RS):
                raise SessionBoom(f"body of d{name} raises")
            stmts = [v.store(pt.Int(mark(name, 1, i))) for i, v in enumerate(vs)]
            stmts += [a.set(pt.Int(mark(name, 2, j))) for j, a in enumerate(as_)]
            if output is not None:
                return pt.Seq(*stmts, output.set(pt.Int(mark(name, 3, 0))))
            return pt.Seq(*stmts, pt.Int(mark(name, 4, 0)))

        names = [f"a{i}" for i in range(P)]
        if O:
            sig = ", ".join(f"{n}: pt.abi.Uint64" for n in names) + (", " if names else "") + "*, output: pt.abi.Uint64"
            src = f"def fn({sig}) -> pt.Expr:\n    return _body([{', '.join(names)}], output)\n"
        else:
            sig = ", ".join(f"{n}: pt.Expr" for n in names)
            src = f"def fn({sig}) -> pt.Expr:\n    return _body([{', '.join(names)}])\n"
        g = {"pt": pt, "_body": _body}
        exec(compile(src, f"<c11-def-{name}>", "exec", dont_inherit=True), g)
        fn = g["fn"]
        fn.__name__ = f"d{name}"
        if O:
            return pt.ABIReturnSubroutine(fn)
        return pt.Subroutine(pt.TealType.uint64)(fn)

    def need(self, name, kind):
        o = self.env[name]
        ok = {"def": name in self.info, "router": name in self.routers}[kind]
        if not ok:
            raise KeyError(kind)
        return o

    # ---- one operation; returns the observation in the model's notation
    def op(self, w: str) -> str:
        pt = self.pt
        import pyteal.errors as pe
        f = w.split(":")
        k = f[0]
        lst = lambda s: [] if s in ("-", "") else [int(x) for x in s.split(",")]  # noqa: E731
        try:
            if k == "slot":
                self.env[int(f[1])] = pt.ScratchVar(pt.TealType.uint64)
                return "u"
            if k == "req":
                self.env[int(f[1])] = pt.ScratchVar(pt.TealType.uint64, int(f[2]))
                return "u"
            if k == "sub":
                name, P, V, A, O, RS, RF = (int(x) for x in f[1:8])
                self.env[name] = self.make_def(name, P, V, A, O, RS, RF)
                self.info[name] = (P, V, A, O, RS, RF)
                return "u"
            if k == "eval":
                self.need(int(f[1]), "def").subroutine.get_declaration_by_option(f[2] == "f")
                return "u"
            if k == "probe":
                self.need(int(f[1]), "def").type_of()
                return "u"
            if k == "into":
                d = self.need(int(f[1]), "def")
                args = [self.env[a] for a in lst(f[2])]
                self.keep.append(d(*args).store_into(self.env[int(f[3])]))
                return "u"
            if k == "abi":
                self.env[int(f[1])] = pt.abi.Uint64()
                return "u"
            if k == "tmpl":
                self.keep.append(pt.Tmpl.Int(f"TMPL_N{int(f[1])}"))
                return "u"
            if k == "compile":
                return self.compile(int(f[1]), f[2], f[3], lst(f[4]), lst(f[5]), lst(f[6]))
            if k == "router":
                r = pt.Router(f"r{f[1]}", pt.BareCallActions(no_op=pt.OnCompleteAction.create_only(pt.Approve())))
                ms = [] if f[2] in ("-", "") else [int(x.split(".")[0]) for x in f[2].split(",")]
                for m in ms:
                    r.add_method_handler(self.need(m, "def"))
                self.env[int(f[1])] = r
                self.routers[int(f[1])] = ms
                return "u"
            if k == "rbuild":
                self.keep.append(self.need(int(f[1]), "router")._build_program(version=int(f[2])))
                return "u"
            if k == "rcompile":
                return self.rcompile(int(f[1]), int(f[2]))
            raise ValueError("unknown operation " + w)
        except SessionBoom:
            return "r.body"
        except KeyError:
            return "r.unbound"
        except pe.TealInputError as e:
            if getattr(e, "c11_stage", None):
                return "r.stage." + e.c11_stage
            return "r.input"
        except pe.TealInternalError as e:
            m = str(e)
            if "has been assigned multiple times" in m:
                return "r.slots.dup"
            if "Too many slots" in m:
                return "r.slots.toomany" + re.search(r"in use: (\d+)", m).group(1)
            if "when assigning slots to subroutine" in m:
                return "r.stage.l"
            return "r.internal." + m[:60].replace(" ", "_")

    def compile(self, version, fp, st, slots, abis, subs) -> str:
        pt = self.pt
        import pyteal.errors as pe
        fpopt = {"n": None, "t": True, "f": False}[fp]
        opt = pt.OptimizeOptions(scratch_slots=False, frame_pointers=fpopt)
        stmts = []
        if st == "m":
            class Boom(pt.Expr):
                def __teal__(self, options):
                    e = pe.TealInputError("c11: injected failure in __teal__ of the main routine")
                    e.c11_stage = "m"
                    raise e

                def type_of(self):
                    return pt.TealType.none

                def has_return(self):
                    return False

                def __str__(self):
                    return "(Boom)"
            stmts.append(Boom())
        vs = [self.env[x] for x in slots]
        if not all(isinstance(v, pt.ScratchVar) for v in vs):
            raise KeyError("slot")
        as_ = [self.env[x] for x in abis]
        if not all(isinstance(a, pt.abi.Uint64) for a in as_):
            raise KeyError("abi")
        ds = [self.env[x] for x in subs]
        if not all(isinstance(d, pt.SubroutineFnWrapper) for d in ds):
            raise KeyError("sub")
        if st == "l":
            # read-before-write of a variable: rejected by assignScratchSlotsToSubroutines, i.e. after
            # every declaration was evaluated
            stmts.append(pt.Pop(vs[0].load()))
        stmts += [v.store(pt.Int(mark(x, 5, 0))) for x, v in zip(slots, vs)]
        stmts += [a.set(pt.Int(mark(x, 6, 0))) for x, a in zip(abis, as_)]
        for x, d in zip(subs, ds):
            stmts.append(pt.Pop(d(*[pt.Int(7)] * self.info[x][0])))
        main = pt.Seq(*stmts, pt.Int(1))
        teal = pt.compileTeal(main, pt.Mode.Application, version=version, optimize=opt)
        self.last_teal = teal
        return read_back(teal, slots, abis, subs, self.info)

    def rcompile(self, r, version) -> str:
        pt = self.pt
        ap, cl, _ = self.need(r, "router").compile_program(version=version, optimize=pt.OptimizeOptions(scratch_slots=False))
        self.last_teal = ap
        return read_back_router(ap, self.routers[r], self.info, version >= 8)


# ---- reading the numbering back from the TEAL text


def split_routines(teal: str):
    """main routine lines, {label: lines}"""
    main, subs, cur = [], {}, None
    for ln in teal.split("\n"):
        ln = ln.strip()
        if not ln or ln.startswith("//") or ln.startswith("#pragma"):
            continue
        m = re.fullmatch(r"([A-Za-z0-9_]+):", ln)
        if m and re.fullmatch(r"(d\d+|d\d+caster)_\d+", m.group(1)):
            cur = m.group(1)
            subs[cur] = []
            continue
        (main if cur is None else subs[cur]).append(ln)
    return main, subs


def marks_of(lines):
    """marker -> location ('sN' | 'fN') from `int M` followed by `store N` / `frame_bury N`"""
    out = {}
    for a, b in zip(lines, lines[1:]):
        m = re.fullmatch(r"int (\d+)", a)
        if not m:
            continue
        s = re.fullmatch(r"store (\d+)", b)
        fb = re.fullmatch(r"frame_bury (-?\d+)", b)
        if s:
            out[int(m.group(1))] = "s" + s.group(1)
        elif fb:
            out[int(m.group(1))] = "f" + fb.group(1)
    return out


def show_l(l):
    return ",".join(l) if l else "-"


def show_ll(l):
    return "/".join(show_l(x) for x in l) if l else "-"


def sub_readback(lines, name, info, fp):
    """(slot numbers of the declaration in creation order, locations of the body's ABI values)"""
    P, V, A, O, _, _ = info
    mk = marks_of(lines)
    slots, abis = [], []
    if not fp:
        entry = []
        for ln in lines:
            m = re.fullmatch(r"store (\d+)", ln)
            if not m or len(entry) == P:
                break
            entry.append(m.group(1))
        slots += entry[::-1] + ["?"] * (P - len(entry))
        if O:
            slots.append(mk.get(mark(name, 3, 0), "s?")[1:])
    for i in range(V):
        slots.append(mk.get(mark(name, 1, i), "s?")[1:])
    for j in range(A):
        loc = mk.get(mark(name, 2, j), "s?")
        abis.append(loc)
        if loc.startswith("s"):
            slots.append(loc[1:])
    return slots, abis


def read_back(teal, slots, abis, subs, info) -> str:
    main, routines = split_routines(teal)
    mk = marks_of(main)
    fp = any(ln.startswith("proto ") for ls in routines.values() for ln in ls)
    ms = [mk.get(mark(x, 5, 0), "s?")[1:] for x in slots]
    ma = [mk.get(mark(x, 6, 0), "s?") for x in abis]
    labels, sslots, sabis = [], [], []
    for x in subs:
        lab = [l for l in routines if l.startswith(f"d{x}_")]
        labels.append(lab[0].split("_")[1] if lab else "?")
        s, a = sub_readback(routines.get(lab[0], []) if lab else [], x, info[x], fp)
        sslots.append(s)
        sabis.append(a)
    return ";".join(["c", show_l(ms), show_l(ma), show_l(labels), show_ll(sslots), show_ll(sabis)])


def read_back_router(teal, methods, info, fp) -> str:
    """labels of the methods (then of the casters), the SET of slot numbers the main routine uses, the
    declaration slots of every method, whether the main routine touches the frame"""
    main, routines = split_routines(teal)
    labels, sslots, sabis = [], [], []
    for x in methods:
        lab = [l for l in routines if l.startswith(f"d{x}_")]
        labels.append(lab[0].split("_")[1] if lab else "?")
        s, a = sub_readback(routines.get(lab[0], []) if lab else [], x, info[x], fp)
        sslots.append(s)
        sabis.append(a)
    for x in methods:
        lab = [l for l in routines if l.startswith(f"d{x}caster_")]
        if lab:
            labels.append(lab[0].split("_")[1])
    mainslots = sorted({int(m.group(1)) for ln in main for m in [re.fullmatch(r"(?:store|load) (\d+)", ln)] if m})
    frame = any(re.match(r"frame_(bury|dig) ", ln) for ln in main)
    return ";".join(["rc", show_l([str(x) for x in mainslots]), "F" if frame else "-", show_l(labels), show_ll(sslots),
                     show_ll(sabis), str(len(methods))])


def model_word(w: str) -> str:
    f = w.split(":")
    return f"into:{f[1]}" if f[0] == "into" else w


def run_job(job: dict) -> dict:
    if job["kind"] == "session":
        S = RealSession()
        trace = []
        for w in job["ops"]:
            o = S.op(w)
            trace.append(o + "@" + S.state())
        return {"trace": trace, "defs": S.defs(), "hashseed": os.environ.get("PYTHONHASHSEED")}
    if job["kind"] == "target":
        return run_target_job(job)
    raise ValueError(job["kind"])


def child_main() -> int:
    """stdin: one job, or {"kind": "batch", "jobs": [...]}: every job of a batch runs in a forked copy of
    this freshly started interpreter (pyteal imported, nothing else done), so each starts from pristine
    global state under the same hash seed"""
    job = json.loads(sys.stdin.read())
    if job["kind"] != "batch":
        sys.stdout.write(json.dumps(run_job(job)))
        return 0
    sys.path.insert(0, str(common.REPO))
    import pyteal  # noqa: F401  (before forking: every fork shares the imported, untouched module state)
    import recipes, gen  # noqa: F401,E401
    import gc
    gc.collect()
    gc.freeze()  # the imported modules are never traversed by the collector of a fork: far fewer copied pages
    outs = []
    for j in job["jobs"]:
        rd, wr = os.pipe()
        pid = os.fork()
        if pid == 0:
            os.close(rd)
            try:
                res = run_job(j)
            except BaseException as e:  # noqa: BLE001
                import traceback
                res = {"crash": f"{type(e).__name__}: {e}", "tb": traceback.format_exc()[-1500:]}
            with os.fdopen(wr, "w") as f:
                f.write(json.dumps(res))
            os._exit(0)
        os.close(wr)
        with os.fdopen(rd) as f:
            data = f.read()
        os.waitpid(pid, 0)
        outs.append(json.loads(data) if data else {"crash": "no output"})
    sys.stdout.write(json.dumps(outs))
    return 0


def spawn(job: dict, hashseed: str, timeout=900):
    env = dict(os.environ)
    env["PYTHONHASHSEED"] = hashseed
    env["VERIF_REPO"] = str(common.REPO)
    p = subprocess.run([PYTHON, str(Path(__file__).resolve()), "--child"], input=json.dumps(job), capture_output=True,
                       text=True, env=env, timeout=timeout)
    if p.returncode != 0 or not p.stdout:
        return {"crash": f"child exited {p.returncode}", "tb": (p.stderr or "")[-2000:]}
    return json.loads(p.stdout)


# ============================================================================ part A: model correspondence


def gen_session(r, n_ops: int) -> list[str]:
    """a random, mostly well-typed session; definitions and routers get fresh names (a router keeps the
    method OBJECTS it was given, the model looks names up), variables are re-bound freely"""
    ops: list[str] = []
    slots, abis = [], []
    plain: dict[int, tuple] = {}
    outd: dict[int, tuple] = {}
    routers: list[int] = []
    nxt = {"d": 20, "r": 80}
    for _ in range(n_ops):
        c = r.random()
        if c < 0.14:
            x = r.randrange(1, 7)
            ops.append(f"slot:{x}")
            slots.append(x)
        elif c < 0.19:
            x = r.randrange(1, 7)
            n = r.choice([5, 5, 17, 200, 255, 0, 256, 300])
            ops.append(f"req:{x}:{n}")
            if n < 256:
                slots.append(x)
        elif c < 0.29:
            x = r.randrange(11, 16)
            ops.append(f"abi:{x}")
            abis.append(x)
        elif c < 0.42:
            d = nxt["d"]
            nxt["d"] += 1
            O = 1 if r.random() < 0.4 else 0
            P, V, A = r.randrange(0, 4), r.randrange(0, 4), r.randrange(0, 4)
            RS = 1 if r.random() < 0.15 else 0
            RF = 1 if r.random() < 0.2 else 0
            ops.append(f"sub:{d}:{P}:{V}:{A}:{O}:{RS}:{RF}")
            (outd if O else plain)[d] = (P, V, A, O, RS, RF)
        elif c < 0.50 and (plain or outd):
            d = r.choice(list(plain) + list(outd))
            ops.append(f"eval:{d}:{r.choice('sf')}")
        elif c < 0.55 and plain:
            ops.append(f"probe:{r.choice(list(plain))}")
        elif c < 0.59 and outd and abis:
            d = r.choice(list(outd))
            args = [r.choice(abis) for _ in range(outd[d][0])]
            ops.append(f"into:{d}:{','.join(map(str, args)) or '-'}:{r.choice(abis)}")
        elif c < 0.61:
            ops.append(f"tmpl:{r.randrange(5)}")
        elif c < 0.80:
            v = r.choice([6, 7, 8, 8, 9, 10])
            fp = r.choice("nnnnntf")
            ss = sorted(set(r.sample(slots, min(len(slots), r.randrange(0, 4))))) if slots else []
            r.shuffle(ss)
            aa = sorted(set(r.sample(abis, min(len(abis), r.randrange(0, 3))))) if abis else []
            dd = r.sample(list(plain), min(len(plain), r.randrange(0, 4))) if plain else []
            st = "-"
            k = r.random()
            if k < 0.07:
                st = "m"
            elif k < 0.14 and ss:
                st = "l"
            ops.append(f"compile:{v}:{fp}:{st}:{show_l(list(map(str, ss)))}:{show_l(list(map(str, aa)))}:{show_l(list(map(str, dd)))}")
        elif c < 0.84 and outd:
            rr = nxt["r"]
            nxt["r"] += 1
            ms = r.sample(list(outd), min(len(outd), r.randrange(1, 4)))
            ops.append(f"router:{rr}:" + ",".join(f"{m}.{outd[m][0] + 1}" for m in ms))
            routers.append(rr)
        elif c < 0.855 and len(ops) + 5 <= n_ops + 4:
            # two methods with an output on one router, compiled twice below version 8: id collision
            a, b, rr = nxt["d"], nxt["d"] + 1, nxt["r"]
            nxt["d"] += 2
            nxt["r"] += 1
            for d in (a, b):
                info = (r.randrange(0, 3), r.randrange(0, 3), r.randrange(0, 3), 1, 0, 0)
                outd[d] = info
                ops.append(f"sub:{d}:{info[0]}:{info[1]}:{info[2]}:1:0:0")
            ops.append(f"router:{rr}:{a}.{outd[a][0] + 1},{b}.{outd[b][0] + 1}")
            routers.append(rr)
            v = r.choice([6, 7])
            ops += [f"rcompile:{rr}:{v}", f"rcompile:{rr}:{v}"]
        elif c < 0.87 and routers:
            ops.append(f"rbuild:{r.choice(routers)}:{r.choice([6, 8])}")
        elif c < 0.97 and routers:
            ops.append(f"rcompile:{r.choice(routers)}:{r.choice([6, 6, 7, 8, 8, 10])}")
        else:
            x = r.randrange(1, 7)
            ops.append(f"slot:{x}")
            slots.append(x)
    return ops


FIXED_SESSIONS = [
    # the history of Lean `session_counterexample_old` / `session_counterexample_fixed`: failing v8 compile, then an
    # unrelated abi.Uint64() (leaked the frame-pointer marker before fix 6bedda4)
    "sub:1:1:0:0:0:0:1 compile:8:n:-:-:-:1 abi:2 compile:8:n:-:-:2:-".split(),
    # the same below version 8: no frame-pointer evaluation, nothing leaks
    "sub:1:1:0:0:0:1:1 compile:7:n:-:-:-:1 abi:2 compile:7:n:-:-:2:-".split(),
    # raising evaluations under both conventions, ABI values created in between
    "sub:1:0:0:1:0:1:1 eval:1:f abi:2 eval:1:s abi:3 compile:8:n:-:-:2,3:-".split(),
    # probing: both conventions evaluated, counter rewound, nothing cached
    "sub:1:2:3:1:0:0:0 slot:2 probe:1 slot:3 probe:1 eval:1:s probe:1 compile:6:n:-:2,3:-:1".split(),
    # the Lean counterexample `router_recompile_counterexample`
    "sub:1:1:1:0:1:0:0 sub:2:1:0:0:1:0:0 router:3:1.2,2.2 rcompile:3:6 rcompile:3:6".split(),
    # slot overflow: 257 variables
    [f"slot:{i}" for i in range(100, 357)] + ["compile:6:n:-:" + ",".join(str(i) for i in range(100, 357)) + ":-:-", "slot:1",
                                              "compile:6:n:-:1:-:-"],
    # requested id given twice, then late failure, then success
    "req:1:17 req:2:17 slot:3 compile:8:n:-:1,2,3:-:- compile:8:n:l:3,1:-:- compile:8:n:-:3,1:-:-".split(),
]


def norm_compile(model_obs: str, real_obs: str):
    """bring the two notations of a compile result to a common form; None = not a compile result"""
    if not model_obs.startswith("c;"):
        return None
    m = model_obs.split(";")
    tie = m[6] == "1"
    if real_obs.startswith("c;"):
        r = real_obs.split(";")
        if tie:
            return tie, (m[3],), (r[3],)
        return tie, tuple(m[1:6]), tuple(r[1:6])
    if real_obs.startswith("rc;"):
        r = real_obs.split(";")
        n = int(r[6])
        main = sorted(int(x[1:]) for x in m[2].split(",") if x.startswith("s") and x[1:].isdigit()) if m[2] != "-" else []
        frame = "F" if any(x.startswith("f") for x in m[2].split(",")) else "-"
        ms = "/".join(m[4].split("/")[:n]) if n else "-"
        ma = "/".join(m[5].split("/")[:n]) if n else "-"
        if tie:
            return tie, (frame, m[3]), (r[2], r[3])
        return tie, (show_l([str(x) for x in main]), frame, m[3], ms, ma), tuple(r[1:6])
    return tie, ("compiled",), (real_obs,)


def compare_trace(ops, model_line: str, real: dict):
    """list of (step index, what, model, real)"""
    diffs = []
    if "crash" in real:
        return [(-1, "real side crashed", "", real.get("crash", "") + " " + real.get("tb", "")[-600:])], 0
    mpart, _, dpart = model_line.partition(" | ")
    mw = mpart.split()
    ties = 0
    if len(mw) != len(real["trace"]):
        return [(-1, "trace length", str(len(mw)), str(len(real["trace"])))], 0
    for i, (a, b) in enumerate(zip(mw, real["trace"])):
        ao, _, ast = a.rpartition("@")
        bo, _, bst = b.rpartition("@")
        if ast != bst:
            diffs.append((i, "global state after " + ops[i], ast, bst))
        nc = norm_compile(ao, bo)
        if nc is None:
            if ao != bo:
                diffs.append((i, "outcome of " + ops[i], ao, bo))
        else:
            tie, x, y = nc
            ties += tie
            if x != y:
                diffs.append((i, "compile result of " + ops[i] + (" (tie)" if tie else ""), ";".join(x), ";".join(y)))
    md = sorted(dpart.split())
    rd = sorted(real["defs"].split())
    if md != rd:
        diffs.append((len(mw), "declaration caches at the end", " ".join(md), " ".join(rd)))
    return diffs, ties


# ============================================================================ part B: targets and histories
# Everything random is decided in the PARENT (generators may iterate hash-ordered containers); children
# only rebuild from the shipped description, so every child of one target builds the SAME source.

ABI_TYPES = ["u64", "u8", "u16", "str", "bool", "addr"]


def _abi_cls(pt, t):
    return {"u64": pt.abi.Uint64, "u8": pt.abi.Uint8, "u16": pt.abi.Uint16, "str": pt.abi.String, "bool": pt.abi.Bool,
            "addr": pt.abi.Address}[t]


def _abi_const(pt, t, k):
    """an expression setting a fresh instance of type t to a constant; returns (instance, set-expr)"""
    x = _abi_cls(pt, t)()
    if t in ("u64", "u16"):
        return x, x.set(pt.Int(3 + k))
    if t == "u8":
        return x, x.set(pt.Int(1 + k % 200))
    if t == "str":
        return x, x.set(pt.Bytes("s%d" % k))
    if t == "bool":
        return x, x.set(pt.Int(k % 2))
    return x, x.set(pt.Global.zero_address())


def _abi_read(pt, t, x):
    if t in ("u64", "u8", "u16", "bool"):
        return x.get()
    return pt.Len(x.get())


def make_abi_method(pt, desc, built):
    """desc: {name, args:[type], out: type|None, vars, locals, calls: index|None}"""
    def _body(args, output=None):
        vs = [pt.ScratchVar(pt.TealType.uint64) for _ in range(desc["vars"])]
        ls = [pt.abi.Uint64() for _ in range(desc["locals"])]
        acc = pt.Int(desc["k"])
        for t, a in zip(desc["args"], args):
            acc = acc + _abi_read(pt, t, a)
        stmts = [v.store(acc + pt.Int(i)) for i, v in enumerate(vs)]
        stmts += [l.set(acc + pt.Int(i + 2)) for i, l in enumerate(ls)]
        total = acc
        for v in vs:
            total = total + v.load()
        for l in ls:
            total = total + l.get()
        if desc["calls"] is not None:
            cdesc, callee = built[desc["calls"]]
            cargs = []
            for j, t in enumerate(cdesc["args"]):
                x, e = _abi_const(pt, t, j)
                stmts.append(e)
                cargs.append(x)
            if cdesc["out"] is None:
                stmts.append(callee(*cargs))
            else:
                tmp = _abi_cls(pt, cdesc["out"])()
                stmts.append(callee(*cargs).store_into(tmp))
                total = total + _abi_read(pt, cdesc["out"], tmp)
            # an ABI value created AFTER the call (store_into may evaluate the callee's declaration on the spot: whatever that
            # nested evaluation does to the evaluation context must be undone before this allocation)
            post = pt.abi.Uint64()
            stmts.append(post.set(total))
            total = post.get() + pt.Int(0)
        if output is None:
            return pt.Seq(*stmts, pt.Log(pt.Itob(total)))
        if desc["out"] in ("u64",):
            return pt.Seq(*stmts, output.set(total))
        if desc["out"] in ("u8", "u16", "bool"):
            return pt.Seq(*stmts, output.set(total % pt.Int(2)))
        if desc["out"] == "str":
            return pt.Seq(*stmts, output.set(pt.Concat(pt.Bytes("r"), pt.Itob(total))))
        return pt.Seq(*stmts, output.set(pt.Global.zero_address()))

    names = [f"a{i}" for i in range(len(desc["args"]))]
    ann = {"u64": "pt.abi.Uint64", "u8": "pt.abi.Uint8", "u16": "pt.abi.Uint16", "str": "pt.abi.String",
           "bool": "pt.abi.Bool", "addr": "pt.abi.Address"}
    sig = ", ".join(f"{n}: {ann[t]}" for n, t in zip(names, desc["args"]))
    if desc["out"] is not None:
        sig += (", " if sig else "") + f"*, output: {ann[desc['out']]}"
        src = f"def fn({sig}) -> pt.Expr:\n    return _body([{', '.join(names)}], output)\n"
    else:
        src = f"def fn({sig}) -> pt.Expr:\n    return _body([{', '.join(names)}])\n"
    g = {"pt": pt, "_body": _body}
    exec(compile(src, f"<c11-abi-{desc['name']}>", "exec", dont_inherit=True), g)
    fn = g["fn"]
    fn.__name__ = desc["name"]
    return pt.ABIReturnSubroutine(fn)


def build_abi_methods(pt, descs):
    built = []
    for d in descs:
        built.append((d, make_abi_method(pt, d, built)))
    return built


def abi_main(pt, built, which):
    stmts, total = [], pt.Int(1)
    for idx in which:
        d, m = built[idx]
        args = []
        for j, t in enumerate(d["args"]):
            x, e = _abi_const(pt, t, j + 7)
            stmts.append(e)
            args.append(x)
        if d["out"] is None:
            stmts.append(m(*args))
        else:
            out = _abi_cls(pt, d["out"])()
            stmts.append(m(*args).store_into(out))
            total = total + _abi_read(pt, d["out"], out)
    return pt.Seq(*stmts, pt.Return(total))


def abi_main_classic(pt, built, which):
    """main calls a CLASSIC subroutine (no evaluation at build time); that routine calls the ABI method through store_into and
    allocates an ABI value afterwards"""
    d, m = built[which[0]]

    @pt.Subroutine(pt.TealType.uint64)
    def outer(a):
        stmts, args = [], []
        for j, t in enumerate(d["args"]):
            x, e = _abi_const(pt, t, j + 7)
            stmts.append(e)
            args.append(x)
        total = a
        if d["out"] is None:
            stmts.append(m(*args))
        else:
            out = _abi_cls(pt, d["out"])()
            stmts.append(m(*args).store_into(out))
            total = total + _abi_read(pt, d["out"], out)
        post = pt.abi.Uint64()
        stmts.append(post.set(total))
        return pt.Seq(*stmts, post.get())
    return pt.Return(outer(pt.Int(5)))


def gen_abi_descs(r, n, prefix="m"):
    descs = []
    for i in range(n):
        descs.append({
            "name": f"{prefix}{i}", "k": r.randrange(1, 50),
            "args": [r.choice(ABI_TYPES) for _ in range(r.randrange(0, 4))],
            "out": r.choice(["u64", "u64", "str", "u8", "bool", "addr", None]),
            "vars": r.randrange(0, 3), "locals": r.randrange(0, 3),
            "calls": (r.randrange(i) if i and r.random() < 0.5 else None),
        })
    return descs


def pickle_prog(prog) -> str:
    import base64
    import pickle
    return base64.b64encode(pickle.dumps(prog)).decode()


def unpickle_prog(s: str):
    import base64
    import pickle
    import recipes  # noqa: F401  (classes of the pickled recipe)
    return pickle.loads(base64.b64decode(s))


def gen_recipe(r, version, subs, dyn=False):
    import gen
    for _ in range(20):
        g = gen.G(r, gen.Cfg(mode="app", version=version, max_depth=3, max_stmts=4, subs=subs, dyn=dyn, req_slots=True,
                             exits=True, loops=True))
        prog = g.program()
        if gen.required_version(prog.main) <= version and all(gen.required_version(sb.body) <= version for sb in prog.subs):
            return prog
    return prog


def protected_slots_prog(r):
    """a program whose slots the scratch-slot optimiser must leave alone although each is stored and loaded back to back: a reserved
    slot, and a slot shared by the main routine and a subroutine"""
    from recipes import N, U, Program, Sub, Var
    a = Var(U, r.choice([3, 7, 100, 255]))
    g = Var(U)
    f = Sub(0, "reader", [], U, None)
    f.body = ("op", "Add2", [("load", g), ("int", r.randrange(1, 9))])
    main = ("seq", [("store", a, ("int", r.randrange(10, 99))), ("op", "PopU", [("load", a)]),
                    ("store", g, ("txn", "Fee")), ("op", "PopU", [("load", g)]),
                    ("op", "PopU", [("call", f, [])]), ("approve",)])
    return Program("app", main, [a, g], [f])


def gen_target(r, kind=None) -> dict:
    kind = kind or r.choice(["recipe", "recipe", "recipe-dyn", "abi", "abi", "router", "router", "tmpl", "probe", "session", "recspill"])
    optshare = kind == "optshare"
    if optshare:
        kind = "recipe"
    t = {"kind": kind}
    if kind in ("recipe", "recipe-dyn", "tmpl", "probe"):
        v = r.choice([5, 6, 7, 8, 9, 10])
        subs = r.choice([0, 1, 2, 3]) if kind != "probe" else r.choice([1, 2, 3])
        prog_ = gen_recipe(r, v, subs, dyn=(kind == "recipe-dyn"))
        if prog_.subs and r.random() < 0.4:
            # a routine whose NAME has no ASCII letter or digit (its label stem is empty): whatever stands in for the stem must not come
            # from process-wide counters
            prog_.subs[0].name = r.choice(["_", "__", "--", "сумма", "?!"])
        t.update(prog=pickle_prog(prog_), version=v,
                 assemble=r.random() < 0.3, scratch_slots=r.choice([None, None, True, False]),
                 frame_pointers=r.choice([None, None, False] + ([True] if v >= 8 else [])),
                 other=r.choice([x for x in (6, 7, 8, 9, 10) if x >= v] or [v]))
        if r.random() < 0.4:
            # the target is compiled with a module-level OptimizeOptions object (scratch-slot optimisation on more often than not)
            t["share_options"] = True
            if r.random() < 0.7:
                t["scratch_slots"] = True
            if kind == "recipe" and r.random() < 0.5:
                t["prog"] = pickle_prog(protected_slots_prog(r))
        if optshare:
            t.update(share_options=True, scratch_slots=True, prog=pickle_prog(protected_slots_prog(r)))
    elif kind == "abi":
        n = r.randrange(1, 4)
        t.update(descs=gen_abi_descs(r, n), which=[r.randrange(n) for _ in range(r.randrange(1, 3))],
                 version=r.choice([6, 7, 8, 9, 10]), other=r.choice([6, 8, 10]))
    elif kind == "abi-chain":
        # m_k calls m_{k-1} ... calls m_0 through store_into; main only touches the LAST one, so the callees' declarations are
        # first evaluated inside their caller's evaluation; compiled with frame pointers, then without, then again with
        n = r.randrange(2, 4)
        descs = gen_abi_descs(r, n)
        for i, dsc in enumerate(descs):
            dsc["calls"] = i - 1 if i else None
            if dsc["out"] is None and i < n - 1:
                dsc["out"] = "u64"
        t["kind"] = "abi"
        if r.random() < 0.7:
            t.update(descs=descs, which=[n - 1], version=r.choice([8, 9, 10]), other=r.choice([6, 7]), classic_outer=r.random() < 0.7)
        else:
            # the other order: frame pointers first, then the scratch convention (known finding KEY_ORDER when `classic_outer`)
            t.update(descs=descs, which=[n - 1], version=r.choice([6, 7]), other=r.choice([8, 9, 10]), classic_outer=True)
    elif kind == "router":
        n = r.randrange(1, 4)
        va = r.choice([6, 6, 7, 8, 8, 10])
        t.update(descs=gen_abi_descs(r, n), va=va, vb=r.choice([x for x in (6, 8, 9) if (x >= 8) != (va >= 8)]),
                 bare=r.random() < 0.7)
    elif kind == "refused":
        t.update(version=r.choice([4, 6, 8, 10]))
    elif kind == "session":
        t.update(ops=gen_session(r, r.choice([8, 12, 18])))
    elif kind == "recspill":
        # a routine that can re-enter itself with several locals live across the call: the spill/restore sequence
        # enumerates the routine's local slots.  Slot numbers that are equal modulo a small power of two (8, 16, 24 ...)
        # collide in a hash table of ints, where iteration order follows insertion order, i.e. process history
        base = r.choice([8, 16, 32])
        ids = sorted(r.sample([base * i for i in range(1, 255 // base + 1)], r.choice([2, 3, 4])))
        t.update(ids=ids, autos=r.choice([0, 1, 3, 9]), version=r.choice([4, 5, 6, 7, 8, 10]), other=r.choice([6, 8, 10]),
                 frame_pointers=r.choice([None, False]), mutual=r.random() < 0.4)
    return t


# ---- histories: lists of actions; {"op": word} is a session operation (the model runs it too), the others
# are opaque to the model (they cannot raise inside a subroutine body: the generated recipes never raise)

HISTORY_KINDS = ["nothing", "objects", "compiled-ok", "fail-build", "fail-version", "fail-overflow", "raise-fp",
                 "raise-scratch", "probe", "router", "fail-late", "mixed", "twin", "shared-options", "many-slots", "fail-in-loop"]
QUICK_HISTORIES = ["nothing", "compiled-ok", "fail-version", "fail-overflow", "raise-fp", "router", "twin", "shared-options", "many-slots", "fail-in-loop"]
HBASE = 500  # names of history objects (targets use names below 100)


SHARED_OPTS: dict = {}


def shared_options(pt, okw: dict):
    """ONE OptimizeOptions object per process and setting: what a user does who keeps `opts = OptimizeOptions(...)` at module level"""
    key = tuple(sorted(okw.items()))
    if key not in SHARED_OPTS:
        SHARED_OPTS[key] = pt.OptimizeOptions(**okw)
    return SHARED_OPTS[key]


def target_okw(t) -> dict:
    okw = {}
    if t.get("scratch_slots") is not None:
        okw["scratch_slots"] = t["scratch_slots"]
    if t.get("frame_pointers") is not None:
        okw["frame_pointers"] = t["frame_pointers"]
    return okw


def gen_history(r, kind, target=None) -> list[dict]:
    H = HBASE
    acts: list[dict] = []
    op = lambda w: acts.append({"op": w})  # noqa: E731
    if kind == "nothing":
        return acts
    if kind == "fail-in-loop":
        # compilations that raise from INSIDE a loop (condition, body, start, step) and inside a routine called from a loop
        acts.append({"opaque": "fail-in-loop", "n": r.randrange(1, 4)})
        return acts
    if kind == "many-slots":
        # earlier activity of the process has used up slot ids: the target's automatic ids straddle a power of ten (999/1000, 9999/10000)
        # or simply are large; numbering must follow the ids as numbers, whatever their size
        acts.append({"opaque": "slots-until", "value": r.choice([r.randrange(990, 1000), r.randrange(996, 1000), r.randrange(9990, 10000),
                                                                   r.randrange(99990, 100000), r.randrange(1000, 5000)])})
        return acts
    if kind == "shared-options":
        # other programs (reserved, dynamic and shared slots) compiled before with the very OptimizeOptions object the target uses
        okw = target_okw(target) if target is not None and target.get("share_options") else {"scratch_slots": True}
        for j in range(r.randrange(1, 4)):
            v = r.choice([6, 8, 9, 10])
            prog = protected_slots_prog(r) if j == 0 else gen_recipe(r, v, r.randrange(1, 3), dyn=r.random() < 0.5)
            acts.append({"opaque": "recipe", "prog": pickle_prog(prog), "version": v, "assemble": r.random() < 0.3, "share_okw": okw})
        return acts
    if kind == "twin":
        # an unrelated program that LOOKS like the target: same routine names and signatures, other bodies
        # (anything cached per name / signature / source position instead of per object shows up here)
        if target is not None and "descs" in target:
            twins = [dict(d, k=d["k"] + 17, vars=(d["vars"] + 1) % 3, locals=(d["locals"] + 2) % 3) for d in target["descs"]]
            acts.append({"opaque": "router", "descs": twins, "versions": [6, 8, r.choice([8, 9, 10])]})
            return acts
        kind = "compiled-ok"
    if kind in ("objects", "compiled-ok", "mixed"):
        for i in range(r.randrange(1, 40)):
            c = r.random()
            if c < 0.5:
                op(f"slot:{H + i % 7}")
            elif c < 0.6:
                op(f"req:{H + i % 7}:{r.randrange(256)}")
            elif c < 0.8:
                op(f"abi:{H + 10 + i % 5}")
            elif c < 0.9:
                op(f"tmpl:{i % 4}")
            else:
                op(f"sub:{H + 100 + i}:{r.randrange(3)}:{r.randrange(3)}:{r.randrange(3)}:{r.randrange(2)}:0:0")
        acts.append({"opaque": "garbage", "n": r.randrange(0, 60)})
    if kind in ("compiled-ok", "mixed"):
        for j in range(r.randrange(1, 4)):
            v = r.choice([5, 6, 8, 9, 10])
            acts.append({"opaque": "recipe", "prog": pickle_prog(gen_recipe(r, v, r.randrange(0, 3))), "version": v,
                         "assemble": r.random() < 0.5, "scratch_slots": r.choice([None, True, False])})
        d = H + 200
        op(f"sub:{d}:2:1:1:0:0:0")
        op(f"slot:{H}")
        op(f"abi:{H + 10}")
        op(f"compile:{r.choice([6, 8, 10])}:n:-:{H}:{H + 10}:{d}")
        op(f"compile:{r.choice([6, 8, 10])}:f:-:{H}:-:{d}")
    if kind in ("fail-build", "mixed"):
        acts.append({"opaque": "type-error"})
        op(f"req:{H + 1}:300")
        acts.append({"opaque": "bad-subroutine"})
    if kind in ("fail-version", "mixed"):
        acts.append({"opaque": "version-error"})
        op(f"slot:{H + 2}")
        op(f"sub:{H + 210}:1:1:0:0:0:0")
        op(f"compile:{r.choice([6, 8])}:n:m:{H + 2}:-:{H + 210}")
        op(f"compile:7:t:-:{H + 2}:-:-")
    if kind == "fail-overflow":
        names = [H + 1000 + i for i in range(257)]
        for n in names:
            op(f"slot:{n}")
        op(f"compile:{r.choice([6, 8])}:n:-:{','.join(map(str, names))}:-:-")
    if kind in ("raise-fp",):
        d = H + 220
        op(f"sub:{d}:{r.randrange(3)}:{r.randrange(3)}:{r.randrange(3)}:0:0:1")
        op(f"sub:{d + 1}:1:1:0:0:0:0")
        op(f"compile:{r.choice([8, 9, 10])}:n:-:-:-:{d + 1},{d}")
    if kind in ("raise-scratch", "mixed"):
        d = H + 230
        op(f"sub:{d}:{r.randrange(3)}:{r.randrange(3)}:{r.randrange(3)}:0:1:{r.randrange(2)}")
        op(f"compile:{r.choice([6, 7])}:n:-:-:-:{d}")
    if kind in ("probe", "mixed"):
        d = H + 240
        op(f"sub:{d}:2:2:1:0:0:0")
        op(f"probe:{d}")
        op(f"slot:{H + 3}")
        op(f"probe:{d}")
        op(f"sub:{d + 1}:1:1:1:0:1:0")
        op(f"probe:{d + 1}")
        if kind == "probe" and r.random() < 0.5:
            # a body that raises under frame pointers only: the scratch probe succeeds, the fp probe leaks
            op(f"sub:{d + 2}:1:1:1:0:0:1")
            op(f"probe:{d + 2}")
    if kind in ("router", "mixed"):
        d = H + 250
        op(f"sub:{d}:2:1:1:1:0:0")
        op(f"sub:{d + 1}:1:0:0:1:0:0")
        op(f"router:{H + 300}:{d}.3,{d + 1}.2")
        for v in r.sample([6, 6, 8, 8, 7, 10], 3):
            op(f"rcompile:{H + 300}:{v}")
        acts.append({"opaque": "router", "descs": gen_abi_descs(r, r.randrange(1, 3), prefix="h"), "versions": [r.choice([6, 8]), r.choice([6, 8])]})
    if kind in ("fail-late", "mixed"):
        op(f"slot:{H + 4}")
        op(f"req:{H + 5}:9")
        op(f"req:{H + 6}:9")
        op(f"compile:8:n:l:{H + 4}:-:-")
        op(f"compile:6:n:-:{H + 5},{H + 6}:-:-")
    return acts


def precise_ops(history) -> list[str]:
    return [a["op"] for a in history if "op" in a]


class _Slow(BaseException):
    pass


def run_opaque(pt, a):
    import pyteal.errors as pe
    own = (pe.TealInputError, pe.TealCompileError, pe.TealTypeError, pe.TealInternalError)
    k = a["opaque"]
    try:
        if k == "garbage":
            return [pt.Int(i) + pt.Int(i + 1) for i in range(a["n"])]
        if k == "fail-in-loop":
            res = []
            bad = lambda: pt.Pop(pt.BytesZero(pt.Int(4)))      # noqa: E731  needs version 4: a version error at version 2
            shapes = [lambda: pt.While(pt.Int(1)).Do(bad()), lambda: pt.For(pt.Pop(pt.Int(0)), pt.Int(1), bad()).Do(pt.Pop(pt.Int(1))),
                      lambda: pt.While(pt.Seq(bad(), pt.Int(1))).Do(pt.Pop(pt.Int(1))),
                      lambda: pt.While(pt.Int(1)).Do(pt.While(pt.Int(1)).Do(pt.Seq(bad(), pt.Break())))]
            for i in range(a["n"]):
                try:
                    res.append(pt.compileTeal(pt.Seq(shapes[i % len(shapes)](), pt.Int(1)), pt.Mode.Application, version=2))
                except own as e:
                    res.append(e)
            return res
        if k == "slots-until":
            made = []
            while pt.ScratchSlot.nextSlotId < a["value"]:
                made.append(pt.ScratchSlot())
            return made[-3:]
        if k == "recipe":
            import recipes
            prog = unpickle_prog(a["prog"])
            b = recipes.Builder(prog)
            kw = {}
            if a.get("share_okw") is not None:
                kw["optimize"] = shared_options(pt, a["share_okw"])
            elif a.get("scratch_slots") is not None:
                kw["optimize"] = pt.OptimizeOptions(scratch_slots=a["scratch_slots"])
            return pt.compileTeal(b.main(), recipes.PT_MODE[prog.mode], version=a["version"], assembleConstants=a["assemble"], **kw)
        if k == "type-error":
            return pt.Int(1) + pt.Bytes("a")
        if k == "bad-subroutine":
            @pt.Subroutine(pt.TealType.uint64)
            def bad(x: int):  # annotation PyTeal rejects at decoration time (a subroutine id is not consumed)
                return pt.Int(1)
            return bad
        if k == "version-error":
            return pt.compileTeal(pt.Seq(pt.Pop(pt.BytesZero(pt.Int(4))), pt.Int(1)), pt.Mode.Application, version=2)
        if k == "router":
            built = build_abi_methods(pt, a["descs"])
            r = pt.Router("hist", pt.BareCallActions(no_op=pt.OnCompleteAction.create_only(pt.Approve())))
            for _, m in built:
                r.add_method_handler(m)
            return [r.compile_program(version=v) for v in a["versions"]]
    except own as e:
        return e
    raise ValueError(k)


def outcome(f):
    """('ok', text) | ('err', 'Class: message')"""
    import pyteal.errors as pe
    try:
        return ("ok", f())
    except (pe.TealInputError, pe.TealCompileError, pe.TealTypeError, pe.TealInternalError, SessionBoom) as e:
        # the property is about the TEAL a compilation yields; of a refusal only the kind is compared (the wording may
        # name whichever of several offending slots a set happened to yield first)
        return ("err", f"{type(e).__name__}")


def run_target(pt, t) -> dict:
    """labels -> ('ok', TEAL) | ('err', message); `same` lists groups of labels the property requires equal"""
    import recipes
    k = t["kind"]
    out, same = {}, []
    if k in ("recipe", "recipe-dyn", "tmpl", "probe"):
        prog = unpickle_prog(t["prog"])
        kw = {}
        okw = {}
        if t["scratch_slots"] is not None:
            okw["scratch_slots"] = t["scratch_slots"]
        if t["frame_pointers"] is not None:
            okw["frame_pointers"] = t["frame_pointers"]
        if t.get("share_options"):
            kw["optimize"] = shared_options(pt, okw)      # the object earlier compilations of the process were given
        elif okw:
            kw["optimize"] = pt.OptimizeOptions(**okw)
        mode = recipes.PT_MODE[prog.mode]

        def build():
            b = recipes.Builder(prog)
            if k == "probe":
                for sid, w in b.subs.items():
                    w.type_of()
                    w.has_return()
            main = b.main()
            if k == "tmpl":
                main = pt.Seq(pt.Pop(pt.Tmpl.Int("TMPL_C11_A")), pt.Pop(pt.Tmpl.Bytes("TMPL_C11_B")),
                              pt.Pop(pt.Tmpl.Addr("TMPL_C11_C")), main)
            return main
        holder = {}

        def c1():
            holder["ast"] = build()
            return pt.compileTeal(holder["ast"], mode, version=t["version"], assembleConstants=t["assemble"], **kw)
        out["c1"] = outcome(c1)
        if "ast" in holder:
            out["c2"] = outcome(lambda: pt.compileTeal(holder["ast"], mode, version=t["version"], assembleConstants=t["assemble"], **kw))
            if t["frame_pointers"] is not True or t["other"] >= 8:
                out["other"] = outcome(lambda: pt.compileTeal(holder["ast"], mode, version=t["other"], assembleConstants=t["assemble"], **kw))
            out["c3"] = outcome(lambda: pt.compileTeal(holder["ast"], mode, version=t["version"], assembleConstants=t["assemble"], **kw))
        out["rebuild"] = outcome(lambda: pt.compileTeal(build(), mode, version=t["version"], assembleConstants=t["assemble"], **kw))

        def other_first():
            ast = build()
            outcome(lambda: pt.compileTeal(ast, mode, version=t["other"], assembleConstants=t["assemble"]))
            return pt.compileTeal(ast, mode, version=t["version"], assembleConstants=t["assemble"], **kw)
        if t["frame_pointers"] is not True or t["other"] >= 8:
            out["other-first"] = outcome(other_first)
            same.append(["c1", "c2", "c3", "rebuild", "other-first"])
        else:
            same.append(["c1", "c2", "c3", "rebuild"])
    elif k == "abi":
        holder = {}

        mk_main = abi_main_classic if t.get("classic_outer") else abi_main

        def c1():
            holder["built"] = build_abi_methods(pt, t["descs"])
            holder["ast"] = mk_main(pt, holder["built"], t["which"])
            return pt.compileTeal(holder["ast"], pt.Mode.Application, version=t["version"])
        out["c1"] = outcome(c1)
        if "ast" in holder:
            out["c2"] = outcome(lambda: pt.compileTeal(holder["ast"], pt.Mode.Application, version=t["version"]))
            out["other"] = outcome(lambda: pt.compileTeal(holder["ast"], pt.Mode.Application, version=t["other"]))
            out["c3"] = outcome(lambda: pt.compileTeal(holder["ast"], pt.Mode.Application, version=t["version"]))
        out["rebuild"] = outcome(lambda: pt.compileTeal(mk_main(pt, build_abi_methods(pt, t["descs"]), t["which"]),
                                                        pt.Mode.Application, version=t["version"]))

        def other_first():
            # a brand new copy of the program compiled at the OTHER version first: the order of versions is history too
            ast = mk_main(pt, build_abi_methods(pt, t["descs"]), t["which"])
            outcome(lambda: pt.compileTeal(ast, pt.Mode.Application, version=t["other"]))
            return pt.compileTeal(ast, pt.Mode.Application, version=t["version"])
        out["other-first"] = outcome(other_first)
        same.append(["c1", "c2", "c3", "rebuild", "other-first"])
    elif k == "router":
        def mk():
            built = build_abi_methods(pt, t["descs"])
            bare = pt.BareCallActions(no_op=pt.OnCompleteAction.create_only(pt.Approve()),
                                      opt_in=pt.OnCompleteAction.call_only(pt.Approve())) if t["bare"] else None
            r = pt.Router("target", bare, clear_state=pt.Approve())
            for _, m in built:
                r.add_method_handler(m)
            return r

        def rc(r, v):
            ap, cl, contract = r.compile_program(version=v)
            return ap + "\n==== clear ====\n" + cl + "\n==== contract ====\n" + json.dumps(contract.dictify(), sort_keys=True)
        holder = {}

        def r1():
            holder["r"] = mk()
            return rc(holder["r"], t["va"])
        out["r1"] = outcome(r1)
        if "r" in holder:
            out["r2"] = outcome(lambda: rc(holder["r"], t["va"]))
            out["rb"] = outcome(lambda: rc(holder["r"], t["vb"]))
            out["r4"] = outcome(lambda: rc(holder["r"], t["va"]))
        out["fresh"] = outcome(lambda: rc(mk(), t["va"]))
        same.append(["r1", "r2", "r4", "fresh"])
        # a compilation of a router that FAILS (version 2: the router's own code needs more) must leave nothing behind for the next one
        def after_failure():
            r_ = mk()
            try:
                r_.compile_program(version=2)
            except (pt.TealInputError, pt.TealCompileError, pt.TealTypeError, pt.TealInternalError):
                pass
            return rc(r_, t["va"])
        out["after-failed-compile"] = outcome(after_failure)
        same.append(["fresh", "after-failed-compile"])
    elif k == "recspill":
        def build():
            U = pt.TealType.uint64

            def body(n, other, shift=0):
                req = [pt.ScratchVar(U, i + shift) for i in t["ids"]]
                au = [pt.ScratchVar(U) for _ in range(t["autos"])]
                allv = req + au
                total = pt.Int(0)
                for v in allv:
                    total = total + v.load()
                return pt.Seq(*[v.store(n + pt.Int(j)) for j, v in enumerate(allv)],
                              pt.If(n > pt.Int(0)).Then(pt.Pop(other(n - pt.Int(1)))), total)

            @pt.Subroutine(U)
            def walk(n):
                return body(n, walk2 if t["mutual"] else walk)

            @pt.Subroutine(U)
            def walk2(n):
                return body(n, walk, 1)     # its own requested ids (one above the other routine's)
            return pt.Return(walk(pt.Int(3)))
        kw = {}
        if t["frame_pointers"] is not None and t["version"] >= 8:
            kw["optimize"] = pt.OptimizeOptions(frame_pointers=t["frame_pointers"])
        holder = {}

        def c1():
            holder["ast"] = build()
            return pt.compileTeal(holder["ast"], pt.Mode.Application, version=t["version"], **kw)
        out["c1"] = outcome(c1)
        if "ast" in holder:
            out["c2"] = outcome(lambda: pt.compileTeal(holder["ast"], pt.Mode.Application, version=t["version"], **kw))
            out["other"] = outcome(lambda: pt.compileTeal(holder["ast"], pt.Mode.Application, version=t["other"]))
            out["c3"] = outcome(lambda: pt.compileTeal(holder["ast"], pt.Mode.Application, version=t["version"], **kw))
        out["rebuild"] = outcome(lambda: pt.compileTeal(build(), pt.Mode.Application, version=t["version"], **kw))
        same.append(["c1", "c2", "c3", "rebuild"])
    elif k == "refused":
        # programs every fresh process REFUSES (Break / Continue outside a loop, a value-less Return in a value routine ...): whether a
        # source is refused is part of what it compiles to, and must not depend on what failed or succeeded before
        v = t["version"]
        progs = {
            "stray-break": lambda: pt.Seq(pt.Break(), pt.Int(1)),
            "stray-continue": lambda: pt.Seq(pt.If(pt.Txn.fee()).Then(pt.Continue()), pt.Int(1)),
            "break-after-loop": lambda: pt.Seq(pt.While(pt.Int(0)).Do(pt.Pop(pt.Int(1))), pt.Break(), pt.Int(1)),
            "break-in-routine": lambda: pt.Seq(pt.Subroutine(pt.TealType.none)(lambda: pt.Break())(), pt.Int(1)),
        }
        for nm, mk in progs.items():
            out[nm] = outcome(lambda mk=mk: pt.compileTeal(mk(), pt.Mode.Application, version=v))
            out[nm + "/again"] = outcome(lambda mk=mk: pt.compileTeal(mk(), pt.Mode.Application, version=v))
            same.append([nm, nm + "/again"])
    elif k == "session":
        S = RealSession()
        S.env, S.info, S.routers = {}, {}, {}
        for i, w in enumerate(t["ops"]):
            S.last_teal = None
            o = S.op(w)
            proto = S.state().split(",")[2]
            out[f"op{i}"] = ("ok", f"{o}@{proto}\n{S.last_teal or ''}")
    return {"out": out, "same": same}


def run_target_job(job) -> dict:
    sys.path.insert(0, str(common.REPO))
    import pyteal as pt
    hs = RealSession()
    trace = []
    for a in job["history"]:
        if "op" in a:
            trace.append(hs.op(a["op"]))
        else:
            hs.keep.append(run_opaque(pt, a))
            trace.append("opaque")
    state = hs.state()
    res = run_target(pt, job["target"])
    labels = {}
    for lab, (st, text) in res["out"].items():
        ctext = text
        if job["target"]["kind"] == "session":
            # first line = the numbering read back from the TEAL: not part of the canonical form
            first, _, rest = text.partition("\n")
            ctext = first.split(";")[0] + "@" + first.rpartition("@")[2] + "\n" + rest
        labels[lab] = {"st": st, "sha": sha(text), "csha": sha(canon_slots(ctext)), "frame": frame_in_main(text) if st == "ok" else False,
                       "head": text[:120] if st == "err" else ""}
        if job.get("full"):
            labels[lab]["text"] = text
    return {"labels": labels, "same": res["same"], "hist": trace, "state": state, "hashseed": os.environ.get("PYTHONHASHSEED")}


def sha(text: str) -> str:
    return hashlib.sha256(text.encode()).hexdigest()[:20]


def canon_slots(text: str) -> str:
    """the text with scratch slot numbers renamed in order of first appearance: two texts that differ by a
    bijective renaming of slot numbers (and nothing else) have the same canonical form"""
    m: dict[str, str] = {}

    def f(mo):
        n = mo.group(2)
        if n not in m:
            m[n] = f"#{len(m)}"
        return f"{mo.group(1)} {m[n]}"
    return re.sub(r"^(store|load|loads|stores|int) (\d+)$", lambda mo: f(mo) if mo.group(1) in ("store", "load") else mo.group(0),
                  text, flags=re.M)


def frame_in_main(text: str) -> bool:
    """a frame_bury / frame_dig in the main routine (before the first label that starts a subroutine
    with a `proto`): the visible effect of a leaked `_current_proto`"""
    lines = text.split("\n")
    end = len(lines)
    for i, ln in enumerate(lines):
        if re.fullmatch(r"[A-Za-z0-9_]+:", ln.strip()) and i + 1 < len(lines) and lines[i + 1].strip().startswith("proto "):
            end = i
            break
        if ln.startswith("==== clear"):
            end = i
            break
    return any(re.match(r"frame_(bury|dig) ", ln.strip()) for ln in lines[:end])


# ============================================================================ parent side of part B


def model_target_ops(t) -> list[str] | None:
    """the target as session operations for the model: exact for `session` targets, an abstraction for ABI and
    router targets (one definition per method: parameters, ScratchVars and ABI values of the body, output),
    None for targets that create no ABI value outside a subroutine body and no router (recipe programs)"""
    k = t["kind"]
    if k == "session":
        return [model_word(w) for w in t["ops"]]
    if k not in ("abi", "router"):
        return None

    def subs(base):
        out = []
        for i, d in enumerate(t["descs"]):
            extra = 0
            if d["calls"] is not None:
                c = t["descs"][d["calls"]]
                extra = len(c["args"]) + (1 if c["out"] is not None else 0)
            out.append(f"sub:{base + i}:{len(d['args'])}:{d['vars']}:{d['locals'] + extra}:{1 if d['out'] is not None else 0}:0:0")
        return out
    ops = subs(1)
    if k == "abi":
        def main(base, nbase):
            o, abis, n = [], [], nbase
            for idx in t["which"]:
                d = t["descs"][idx]
                for _ in range(len(d["args"]) + (1 if d["out"] is not None else 0)):
                    o.append(f"abi:{n}")
                    abis.append(n)
                    n += 1
                if d["out"] is not None:
                    o.append(f"into:{base + idx}")
            called = sorted({base + idx for idx in t["which"]})
            return o, f"{show_l([str(a) for a in abis])}:{show_l([str(c) for c in called])}"
        o, spec = main(1, 40)
        ops += o
        ops += [f"compile:{t['version']}:n:-:-:{spec}", f"compile:{t['version']}:n:-:-:{spec}", f"compile:{t['other']}:n:-:-:{spec}",
                f"compile:{t['version']}:n:-:-:{spec}"]
        ops += subs(20)
        o, spec = main(20, 60)
        ops += o + [f"compile:{t['version']}:n:-:-:{spec}"]
        return ops
    ms = lambda base: ",".join(f"{base + i}.{len(d['args']) + (1 if d['out'] is not None else 0)}" for i, d in enumerate(t["descs"]))  # noqa: E731
    ops += [f"router:90:{ms(1)}", f"rcompile:90:{t['va']}", f"rcompile:90:{t['va']}", f"rcompile:90:{t['vb']}", f"rcompile:90:{t['va']}"]
    ops += subs(20) + [f"router:91:{ms(20)}", f"rcompile:91:{t['va']}"]
    return ops


# which model operation (index from the END of the target's operations) stands for which label
ROUTER_LABEL_POS = {"r1": 0, "r2": 1, "rb": 2, "r4": 3}


class Predictor:
    def __init__(self):
        self.D = Driver()

    def run(self, ops: list[str]) -> tuple[list[str], str]:
        if not ops:
            return [], "-"
        line = self.D.ask("c11-run " + " ".join(ops))
        if line.startswith("perr"):
            raise common.ToolFailure("c11-run: " + line + " on " + " ".join(ops)[:300])
        words = line.partition(" | ")[0].split()
        return words, words[-1].rpartition("@")[2].split(",")[2]

    def predict(self, history, t) -> dict:
        """proto: the marker after the history (the model says `-` after EVERY history: `session_inv`);
        obs: the model's observations of the target after the history (equal to those in a fresh process:
        `compile_history_independent`); ties: labels of the target whose compile result has an id collision"""
        hops = precise_ops(history)
        _, proto = self.run(hops)
        tops = model_target_ops(t)
        out = {"proto": proto, "ties": [], "obs": None}
        if tops is None:
            return out
        strip = lambda ws: [w.rpartition("@")[0] + "@" + w.rpartition("@")[2].split(",")[2] for w in ws]  # noqa: E731
        with_h = strip(self.run(hops + tops)[0][len(hops):])
        fresh = strip(self.run(tops)[0])
        if with_h != fresh or proto != "-":
            raise common.ToolFailure("session model contradicts its own theorems (session_inv / compile_history_independent)")
        out["obs"] = with_h
        if t["kind"] == "router":
            base = len(t["descs"]) + 1
            for lab, pos in ROUTER_LABEL_POS.items():
                w = with_h[base + pos]
                if w.startswith("c;") and w.rpartition("@")[0].split(";")[6] == "1":
                    out["ties"].append(lab)
        elif t["kind"] == "session":
            for i, w in enumerate(with_h):
                if w.startswith("c;") and w.rpartition("@")[0].split(";")[6] == "1":
                    out["ties"].append(f"op{i}")
        return out


def session_target_mismatch(t, pred_obs, child) -> list:
    """exact comparison of a `session` target with the model's prediction (outcome, compile result read back
    from the real TEAL, owner and size of the current proto) - counters are not compared: opaque history
    actions advance them"""
    diffs = []
    for i, w in enumerate(t["ops"]):
        real = child["labels"][f"op{i}"].get("text")
        if real is None:
            return []
        robs = real.split("\n", 1)[0]
        mo, _, mp = pred_obs[i].rpartition("@")
        ro, _, rp = robs.rpartition("@")
        if mp != rp:
            diffs.append((i, "current proto after " + w, mp, rp))
        nc = norm_compile(mo, ro)
        if nc is None:
            if mo != ro:
                diffs.append((i, "outcome of " + w, mo, ro))
        elif nc[1] != nc[2]:
            diffs.append((i, "compile result of " + w, ";".join(nc[1]), ";".join(nc[2])))
    return diffs


MAXREC = 3  # replay files per failure class
_rec_counts: dict[str, int] = {}


def record(rep: Report, cls: str, what: str, replay_body: dict, key=None, no_input=False):
    """rep.violation, keeping at most MAXREC replay files per failure class (all occurrences are counted)"""
    if key is not None and rep.match_known(key) is not None:
        rep.violation(what, replay_body, key=key, no_input=no_input)
        return
    n = _rec_counts.get(cls, 0)
    _rec_counts[cls] = n + 1
    if n < MAXREC:
        rep.violation(what, replay_body, key=key, no_input=no_input)


def run_children(jobs: list[tuple[dict, str]], fresh: bool, workers=16) -> list[dict]:
    """jobs: (job, hashseed).  fresh: one interpreter process per job; otherwise one interpreter per hash seed
    and worker, forking once per job after importing pyteal"""
    results: list = [None] * len(jobs)
    if fresh:
        with ThreadPoolExecutor(workers) as ex:
            for i, o in zip(range(len(jobs)), ex.map(lambda js: spawn(js[0], js[1]), jobs)):
                results[i] = o
        return results
    by_seed: dict[str, list[int]] = {}
    for i, (_, hs) in enumerate(jobs):
        by_seed.setdefault(hs, []).append(i)
    chunks = []
    per = max(1, workers // max(1, len(by_seed)))
    for hs, idxs in by_seed.items():
        for c in range(per):
            part = idxs[c::per]
            if part:
                chunks.append((hs, part))

    def do(ch):
        hs, part = ch
        o = spawn({"kind": "batch", "jobs": [jobs[i][0] for i in part]}, hs, timeout=3000)
        if isinstance(o, dict):
            return [o] * len(part)
        return o
    with ThreadPoolExecutor(workers) as ex:
        for (hs, part), outs in zip(chunks, ex.map(do, chunks)):
            for i, o in zip(part, outs):
                results[i] = o
    return results


def part_b(rep: Report, n_targets: int, hist_kinds: list[str], hashseeds: list[str], n_fresh_targets: int, per_pair: int, stats: dict,
           budget_s: float = 1e9, wave: int = 20):
    """targets are processed in waves; a thorough run stops launching waves when its time budget is used up
    (the evidence reports the number of targets actually run)"""
    P = Predictor()
    kinds_cycle = ["recipe", "abi", "router", "recspill", "abi-chain", "recipe-dyn", "session", "router", "tmpl", "refused", "probe", "optshare", "recipe", "session", "recspill", "abi"]
    t_start = time.time()
    done = 0
    for w0 in range(0, n_targets, wave):
        if w0 and time.time() - t_start > budget_s:
            rep.notes.append(f"part B stopped after {done} of {n_targets} targets: time budget of {int(budget_s)} s used up")
            break
        tis = list(range(w0, min(n_targets, w0 + wave)))
        targets = {ti: gen_target(rng(f"C11/target/{ti}"), kinds_cycle[ti % len(kinds_cycle)] if ti < 24 else None) for ti in tis}
        _part_b_wave(rep, P, targets, hist_kinds, hashseeds, n_fresh_targets, per_pair, stats)
        done += len(tis)
    stats["targets_run"] = done
    P.D.close()


def _part_b_wave(rep: Report, P, targets: dict, hist_kinds, hashseeds, n_fresh_targets, per_pair, stats):
    jobs, meta = [], []
    for ti, t in targets.items():
        for hk in hist_kinds:
            h = gen_history(rng(f"C11/history/{ti}/{hk}"), hk, t)
            hi = hist_kinds.index(hk)
            # every target meets every history and every hash seed; with `per_pair` < len(hashseeds) each
            # (target, history) pair runs under a rotating subset of the hash seeds
            pp = len(hashseeds) if ti < n_fresh_targets else per_pair
            chosen = hashseeds if pp >= len(hashseeds) else [hashseeds[(ti + hi + j * 3) % len(hashseeds)] for j in range(pp)]
            if hi == 0:
                chosen = [hashseeds[0]] + [c for c in chosen if c != hashseeds[0]]
            for hs in chosen:
                jobs.append(({"kind": "target", "history": h, "target": t, "full": t["kind"] == "session"}, hs))
                meta.append((ti, hk, hs))
    fresh_idx = [i for i, m in enumerate(meta) if m[0] < n_fresh_targets]
    fork_idx = [i for i, m in enumerate(meta) if m[0] >= n_fresh_targets]
    results: list = [None] * len(jobs)
    for idxs, fresh in ((fresh_idx, True), (fork_idx, False)):
        if idxs:
            for i, o in zip(idxs, run_children([jobs[i] for i in idxs], fresh)):
                results[i] = o
    stats["processes_fresh"] = stats.get("processes_fresh", 0) + len(fresh_idx)
    stats["sessions_forked"] = stats.get("sessions_forked", 0) + len(fork_idx)
    by_target: dict[int, list[int]] = {}
    for i, m in enumerate(meta):
        by_target.setdefault(m[0], []).append(i)
    dist = stats.setdefault("target_kinds", {})
    hdist = stats.setdefault("history_kinds", {})
    for ti, idxs in by_target.items():
        t = targets[ti]
        dist[t["kind"]] = dist.get(t["kind"], 0) + 1
        base_i = idxs[0]
        base = results[base_i]
        preds = {}
        for i in idxs:
            _, hk, hs = meta[i]
            hdist[hk] = hdist.get(hk, 0) + 1
            res = results[i]
            replay = {"target": t, "a": {"history": jobs[base_i][0]["history"], "hashseed": meta[base_i][2], "history_kind": meta[base_i][1]},
                      "b": {"history": jobs[i][0]["history"], "hashseed": hs, "history_kind": hk}}
            if res is None or "crash" in res or "labels" not in res:
                record(rep, "child-failed", f"child process failed for target {ti} ({t['kind']}) after history {hk}: {str(res)[:300]}", replay)
                continue
            if hk not in preds:
                preds[hk] = P.predict(jobs[i][0]["history"], t)
            pr = preds[hk]
            stats["comparisons"] = stats.get("comparisons", 0) + len(res["labels"])
            if any(a.get("op", "").startswith("sub:") and a["op"].endswith(":1") for a in jobs[i][0]["history"]):
                stats["histories_with_fp_raising_body"] = stats.get("histories_with_fp_raising_body", 0) + 1
            # (1) exact model prediction for session targets
            if t["kind"] == "session" and pr["obs"] is not None:
                dm = session_target_mismatch(t, pr["obs"], res)
                stats["session_target_steps"] = stats.get("session_target_steps", 0) + len(t["ops"])
                for d in dm[:2]:
                    key = KEY_TIE if "compile result" in d[1] and f"op{d[0]}" in pr["ties"] else None
                    if key is None:
                        record(rep, "session-target-model", f"session model and real code disagree on target {ti} after history {hk} at step {d[0]} ({d[1]}): "
                                      f"model {d[2]} real {d[3]}", dict(replay, step=d[0]), no_input=True)
            # (2) repeats inside one process
            for group in res["same"]:
                have = [g for g in group if g in res["labels"]]
                for g in have[1:]:
                    a, b = res["labels"][have[0]], res["labels"][g]
                    if a["sha"] == b["sha"]:
                        continue
                    stats["diffs_within_process"] = stats.get("diffs_within_process", 0) + 1
                    if (t.get("classic_outer") and t.get("version", 9) < 8 <= t.get("other", 0) and "other-first" in (g, have[0])
                            and a["csha"] == b["csha"] and a["st"] == b["st"] == "ok"):
                        # known finding: ReturnedValue.store_into evaluates the callee's scratch-slot declaration where it is
                        # first needed; after a frame-pointer compile that moment is another one, so the slot objects are created
                        # in another order and get other numbers (the programs are equal up to a renaming of slots)
                        stats["order_diffs_confirmed"] = stats.get("order_diffs_confirmed", 0) + 1
                        record(rep, "order-within", f"compiling at version {t['other']} first changes the slot numbering of the version-{t['version']} "
                                      f"program (target {ti}, {have[0]} vs {g}); equal up to a renaming of slots", dict(replay, label=g), key=KEY_ORDER)
                    elif ((g in pr["ties"] or have[0] in pr["ties"] or (g == "after-failed-compile" and t["kind"] == "router"))
                          and a["csha"] == b["csha"] and a["st"] == b["st"] == "ok"):
                        # (a compilation that failed counts as a first compilation -- and one that stopped half-way: some declarations are
                        # cached with their slots, the id counter is rewound, so the next one has the listed slot-id ties whether or not the model
                        # predicts them for a complete second compilation; only differences that are a pure renaming of slots are classified)
                        stats["tie_diffs_confirmed"] = stats.get("tie_diffs_confirmed", 0) + 1
                        record(rep, "tie-within", f"repeated Router.compile_program differs by a renaming of slot numbers (target {ti}, {have[0]} vs {g})",
                                      dict(replay, label=g), key=KEY_TIE)
                    else:
                        record(rep, "within-process", f"target {ti} ({t['kind']}): {have[0]} and {g} differ inside one process (history {hk}, hash seed {hs})",
                                      dict(replay, label=g, within=have[0]))
            # (3) across processes: against the baseline child (no history, first hash seed)
            any_diff = False
            for lab, b in res["labels"].items():
                a = base["labels"].get(lab) if base and "labels" in base else None
                if a is None or a["sha"] == b["sha"]:
                    continue
                any_diff = True
                stats["diffs_across_processes"] = stats.get("diffs_across_processes", 0) + 1
                if (lab in pr["ties"] or (lab == "after-failed-compile" and t["kind"] == "router")) and a["csha"] == b["csha"] and a["st"] == b["st"] == "ok":
                    stats["tie_diffs_confirmed"] = stats.get("tie_diffs_confirmed", 0) + 1
                    record(rep, "tie-across", f"Router.compile_program #{lab} of target {ti} differs between processes by a renaming of slot numbers",
                                  dict(replay, label=lab), key=KEY_TIE)
                else:
                    record(rep, "across-processes", f"target {ti} ({t['kind']}) label {lab}: TEAL differs between [history {meta[base_i][1]}, hash seed {meta[base_i][2]}] and "
                                  f"[history {hk}, hash seed {hs}]" + (f" ({b['head'][:80]})" if b["st"] == "err" else "")
                                  + (" - frame_bury/frame_dig in the main routine: `_current_proto` leaked out of the history" if b["frame"] and not a["frame"] else ""),
                                  dict(replay, label=lab))
        if any(preds[h]["ties"] for h in preds):
            stats["targets_with_predicted_tie"] = stats.get("targets_with_predicted_tie", 0) + 1


def part_a(rep: Report, n_sessions: int, hashseeds: list[str], stats: dict):
    sessions = [list(x) for x in FIXED_SESSIONS]
    for i in range(n_sessions):
        r = rng(f"C11/session/{i}")
        sessions.append(gen_session(r, r.choice([6, 10, 16, 25])))
    jobs = [({"kind": "session", "ops": s}, hashseeds[i % len(hashseeds)]) for i, s in enumerate(sessions)]
    outs = run_children(jobs, fresh=False)
    D = Driver()
    nops = nbad = ties = leaks = 0
    opdist: dict[str, int] = {}
    for ops, (job, hs), real in zip(sessions, jobs, outs):
        line = D.ask("c11-run " + " ".join(model_word(w) for w in ops))
        diffs, t = compare_trace(ops, line, real)
        ties += t
        nops += len(ops)
        for w in ops:
            opdist[w.split(":")[0]] = opdist.get(w.split(":")[0], 0) + 1
        if "trace" in real and any(not x.endswith(",-") for x in real["trace"]):
            leaks += 1
        if diffs:
            nbad += 1
            d = diffs[0]
            record(rep, "session-model", f"session model and real code disagree at step {d[0]} ({d[1]}): model `{d[2]}` real `{d[3]}`",
                          {"kind": "session", "ops": ops, "hashseed": hs, "step": d[0], "model": d[2], "real": d[3]}, no_input=True)
    D.close()
    stats.update({"sessions": len(sessions), "session_ops": nops, "session_mismatches": nbad, "sessions_with_tie": ties,
                  "sessions_with_leak": leaks, "op_distribution": opdist})
    return sessions


def replay_known(rep: Report, stats: dict):
    """the history of the fixed finding (Lean `session_counterexample_old`) and the remaining Lean counterexample
    on the real code, each in fresh interpreters"""
    # regression of fix 6bedda4: a version-8 compilation whose subroutine body raises, then an unrelated
    # abi.Uint64() in a main routine; before the fix it compiled to frame_bury 0 / frame_dig 0
    target = {"kind": "session", "ops": ["abi:2", "compile:8:n:-:-:2:-"]}
    hist = [{"op": w} for w in FIXED_SESSIONS[0][:2]]
    a, b = run_children([({"kind": "target", "history": [], "target": target, "full": True}, "0"),
                         ({"kind": "target", "history": hist, "target": target, "full": True}, "0")], fresh=True)
    la, lb = a.get("labels", {}).get("op1"), b.get("labels", {}).get("op1")
    stats["fixed_leak_history_replayed"] = bool(la and lb)
    if not la or not lb:
        rep.violation("child process failed while replaying the history of the fixed finding: " + str(a)[:200] + str(b)[:200],
                      {"target": target, "a": {"history": [], "hashseed": "0"}, "b": {"history": hist, "hashseed": "0"}})
    elif la["sha"] != lb["sha"] or not b.get("state", "").endswith(",-"):
        rep.violation("REGRESSION of fix 6bedda4: after a version-8 compilation whose subroutine body raised, `_current_proto` is "
                      f"{b.get('state')} and an unrelated abi.Uint64() compiles differently"
                      + (" (frame_bury/frame_dig outside any frame)" if lb["frame"] else ""),
                      {"target": target, "label": "op1", "a": {"history": [], "hashseed": "0", "history_kind": "nothing"},
                       "b": {"history": hist, "hashseed": "0", "history_kind": "raise-fp"}})
    # router re-compilation: different processes / hash seeds give different second compilations
    job = {"kind": "target", "history": [], "full": False,
           "target": {"kind": "router", "bare": True, "va": 6, "vb": 8,
                      "descs": [{"name": "m0", "k": 1, "args": ["u64", "u64"], "out": "u64", "vars": 1, "locals": 1, "calls": None},
                                {"name": "m1", "k": 2, "args": ["str", "u8"], "out": "str", "vars": 0, "locals": 1, "calls": None},
                                {"name": "m2", "k": 3, "args": ["u64"], "out": None, "vars": 1, "locals": 0, "calls": 0}]}}
    outs = run_children([(job, hs) for hs in ("0", "1", "12345", "random")], fresh=True)
    ok = [o for o in outs if "labels" in o]
    r1 = {o["labels"]["r1"]["sha"] for o in ok}
    r2 = {o["labels"]["r2"]["sha"] for o in ok}
    c2 = {o["labels"]["r2"]["csha"] for o in ok} | {o["labels"]["r1"]["csha"] for o in ok}
    stats["router_recompile"] = {"processes": len(ok), "distinct_first": len(r1), "distinct_second": len(r2), "distinct_modulo_slots": len(c2)}
    if len(r1) == 1 and len(c2) == 1 and (len(r2) > 1 or r1 != r2):
        rep.violation("Router.compile_program called twice on one router: the second TEAL differs from the first and between "
                      f"processes ({len(r2)} variants in {len(ok)} processes), by a renaming of slot numbers", {"kind": "router-recompile", **job},
                      key=KEY_TIE)
        stats["counterexample_tie_reproduced"] = True
    elif len(r1) != 1 or len(c2) != 1:
        rep.violation("router re-compilation differs by more than slot numbers", {"kind": "router-recompile", **job})
    else:
        stats["counterexample_tie_reproduced"] = False
        rep.notes.append("router re-compilation: id collision predicted by the model did not show in 4 processes")


def run(tier: str) -> int:
    rep = Report("C11", tier, level="proof")
    _rec_counts.clear()
    st = check_proofs(PROOF_MODULES)
    rep.coverage.update(proof_coverage(st, "cd lean && lake build " + " ".join(PROOF_MODULES), TRUSTED))
    if not st.ok:
        for pb in st.problems:
            rep.violation("proof problem: " + pb, {"theorem": pb, "log": st.log[-1500:]}, no_input=True)
    missing = [t for t in REQUIRED_THEOREMS if t not in st.theorems]
    for m in missing:
        rep.violation("required theorem missing: " + m, {"theorem": m}, no_input=True)
    stats: dict = {}
    t0 = time.time()
    if tier == "quick":
        n_sessions, a_seeds = 32, ["0", "1"]
        n_targets, hk, seeds, n_fresh, per_pair = 12, QUICK_HISTORIES, ["0", "1", "12345"], 12, 3
    else:
        n_sessions, a_seeds = 600, ["0", "1", "12345", "random"]
        n_targets, hk, seeds, n_fresh, per_pair = 200, HISTORY_KINDS, ["0", "1", "12345", "random", "7", "4294967295"], 2, 1
    n_targets = int(os.environ.get("VERIF_C11_TARGETS", n_targets))
    n_sessions = int(os.environ.get("VERIF_C11_SESSIONS", n_sessions))
    per_pair = int(os.environ.get("VERIF_C11_PER_PAIR", per_pair))
    replay_known(rep, stats)
    part_a(rep, n_sessions, a_seeds, stats)
    stats["part_a_wall_s"] = round(time.time() - t0, 1)
    t1 = time.time()
    part_b(rep, n_targets, hk, seeds, n_fresh, per_pair, stats, budget_s=(1e9 if tier == "quick" else float(os.environ.get("VERIF_C11_BUDGET", 300))))
    stats["part_b_wall_s"] = round(time.time() - t1, 1)
    n_eval = stats.get("sessions", 0) + stats.get("processes_fresh", 0) + stats.get("sessions_forked", 0)
    stats["violations_by_class"] = dict(_rec_counts)
    rep.coverage.update({
        "evaluations": n_eval,
        "distinct_nontrivial": stats.get("sessions", 0) + stats.get("targets_run", 0) * len(hk),
        "rule": "part A: one random API session per process, every step compared with the model; part B: targets x histories x "
                "hash seeds, one process each, all TEAL digests of one target equal (differences allowed only where the session "
                "model predicts them and with the predicted shape)",
        "samples": [" ".join(FIXED_SESSIONS[0]), " ".join(FIXED_SESSIONS[4])],
        "distribution": stats,
    })
    rep.assumptions += [
        "hash seeds tried: " + ",".join(seeds) + "; address-dependent behaviour is explored only as far as these processes differ",
        "forked sessions share the address-space layout of their parent interpreter; only the first "
        f"{n_fresh} targets of a thorough run use a fresh interpreter per session" if tier != "quick" else
        "every part-B session of the quick tier runs in a fresh interpreter",
        "ABI / router targets reach the model through an abstraction (one definition per method, nested evaluations not modelled); "
        "the model's exact predictions are checked on `session` targets and in part A",
    ]
    return rep.finish()


def replay(path: str) -> int:
    body = json.loads(Path(path).read_text())
    if body.get("kind") == "session" or ("ops" in body and "target" not in body):
        real = spawn({"kind": "session", "ops": body["ops"]}, str(body.get("hashseed", "0")))
        D = Driver()
        line = D.ask("c11-run " + " ".join(model_word(w) for w in body["ops"]))
        D.close()
        print("ops  :", " ".join(body["ops"]))
        print("real :", " ".join(real.get("trace", [str(real)])), "|", real.get("defs"))
        print("model:", line)
        diffs, _ = compare_trace(body["ops"], line, real)
        for d in diffs:
            print("DIFF step", d[0], d[1], "model", d[2], "real", d[3])
        return 1 if diffs else 0
    if body.get("kind") == "router-recompile":
        outs = run_children([({"kind": "target", "history": [], "target": body["target"], "full": True}, hs) for hs in ("0", "1")], fresh=True)
        import difflib
        a, b = outs[0]["labels"], outs[1]["labels"]
        print("first compile equal across processes:", a["r1"]["sha"] == b["r1"]["sha"], "| second:", a["r2"]["sha"] == b["r2"]["sha"])
        print("\n".join(list(difflib.unified_diff(a["r1"]["text"].split("\n"), a["r2"]["text"].split("\n"), "compile#1", "compile#2", lineterm=""))[:80]))
        return 1 if a["r1"]["sha"] != a["r2"]["sha"] or a["r2"]["sha"] != b["r2"]["sha"] else 0
    t = body["target"]
    outs = [spawn({"kind": "target", "history": body[k]["history"], "target": t, "full": True}, str(body[k]["hashseed"])) for k in ("a", "b")]
    import difflib
    rc = 0
    for k, o in zip("ab", outs):
        print(f"--- child {k}: history {body[k].get('history_kind')} hash seed {body[k]['hashseed']} state after history {o.get('state')}")
        print("    history outcomes:", " ".join(o.get("hist", []))[:400])
    la, lb = outs[0].get("labels", {}), outs[1].get("labels", {})
    for lab in sorted(set(la) | set(lb)):
        x, y = la.get(lab), lb.get(lab)
        if x is None or y is None or x["sha"] != y["sha"]:
            rc = 1
            print(f"=== label {lab}: DIFFERENT")
            print("\n".join(list(difflib.unified_diff((x or {}).get("text", "").split("\n"), (y or {}).get("text", "").split("\n"),
                                                      "child a", "child b", lineterm=""))[:120]))
        else:
            print(f"=== label {lab}: identical ({x['sha']})")
    w = body.get("within")
    if w and body.get("label") in lb and w in lb and lb[w]["sha"] != lb[body["label"]]["sha"]:
        rc = 1
        print(f"=== inside child b: {w} vs {body['label']}")
        print("\n".join(list(difflib.unified_diff(lb[w]["text"].split("\n"), lb[body["label"]]["text"].split("\n"), w, body["label"], lineterm=""))[:120]))
    return rc


if __name__ == "__main__" and len(sys.argv) > 1 and sys.argv[1] == "--child":
    sys.exit(child_main())
