"""C15 — source maps are faithful and never perturb the program.

Three parts, labelled in the evidence:
  (a) proofs           PyTealV.Proofs.C15 (VLQ round trip, R3 "mappings" round trip, annotated line strip)
  (b) correspondence   real `_base64vlq_encode/_decode`, `R3SourceMap.to_json/from_json` vs the Lean model
                       (`lean/PyTealV/Models/SourceMap.lean`) on random integer lists, random strings, random
                       map objects and random JSON; `algosdk.source_map` as a second decoder
  (c) differential     what no Lean model can exhibit (CPython frame capture): generated source FILES with
                       one marker constant per line, run in fresh subprocesses with source mapping switched
                       on through the feature gate; TEAL with/without map, entries, attribution, JSON
                       round trip (Lean decoder AND real `from_json`), annotated TEAL stripped by the Lean
                       tokeniser.
"""
from __future__ import annotations

import json
import os
import shutil
import subprocess
import sys
import tempfile
import re
import time
from pathlib import Path

from common import (REPO, VERIF, Driver, Report, ToolFailure, check_proofs, hexs, proof_coverage,
                    rng, seed)

sys.path.insert(0, str(REPO))

PY = "/venv/bin/python"
TRUSTED = [
    "Lean 4 kernel; axioms propext / Classical.choice / Quot.sound only",
    "hand-written model lean/PyTealV/Models/SourceMap.lean of sourcemap.py:_base64vlq_encode/_decode, "
    "R3SourceMap.to_json/from_json (fields line, column, source, source_line, source_column, name; "
    "no sourcesContent, no target, add_right_bounds=False), tied to the real functions by the correspondence run",
    "TEAL tokeniser lean/PyTealV/Avm/Syntax.lean (trusted spec of where a comment starts); the model's scanner "
    "is proved to agree with it (codePart_tokens)",
    "shape of an annotated line (TEAL line, blanks, `//`, free text) taken from tabulate's plain format; "
    "checked on every annotated line produced in part (c)",
    "CPython frame capture, `executing`, `tabulate`, algosdk: exercised by differential execution only",
]


class CappedReport(Report):
    """at most CAP recorded violations per kind of case (a broken codec fails thousands of inputs)"""

    CAP = 3

    def __init__(self, *a, **kw):
        super().__init__(*a, **kw)
        self.per_kind: dict = {}
        self.suppressed = 0

    def violation(self, what, replay, key=None, no_input=False):
        if key is not None and self.match_known(key) is not None:
            return super().violation(what, replay, key=key, no_input=no_input)
        k = (replay.get("kind"), no_input)
        self.per_kind[k] = self.per_kind.get(k, 0) + 1
        if self.per_kind[k] > self.CAP:
            self.suppressed += 1
            return None
        return super().violation(what, replay, key=key, no_input=no_input)


# ------------------------------------------------------------------------------------------------
# protocol helpers (mirror lean/PyTealV/Cmd/C15.lean)

def tx(s: str) -> str:
    return hexs(s.encode("utf-8"))


def untx(h: str) -> str:
    return "" if h == "-" else bytes.fromhex(h).decode("utf-8")


def ints_w(vs) -> str:
    return ",".join(str(v) for v in vs) if vs else "-"


def ints_r(w: str):
    return [] if w == "-" else [int(x) for x in w.split(",")]


def strs_w(l) -> str:
    return "L" + ",".join(tx(s) for s in l) if l else "-"


def strs_r(w: str):
    return [] if w == "-" else [untx(x) for x in w[1:].split(",")]


def index_w(ix) -> str:
    return "I" + ";".join(",".join(str(c) for c in row) for row in ix) if ix else "-"


def index_r(w: str):
    if w == "-":
        return []
    return [[int(c) for c in row.split(",")] if row else [] for row in w[1:].split(";")]


def opt_w(v, text=False) -> str:
    if v is None:
        return "_"
    return tx(v) if text else str(v)


def opt_r(w: str, text=False):
    if w == "_":
        return None
    return untx(w) if text else int(w)


def entries_w(es) -> str:
    """es: list of (kline, kcol, line, col, source, sline, scol, name)"""
    if not es:
        return "-"
    return ",".join(
        ":".join([str(kl), str(kc), str(l), str(c), opt_w(s, True), opt_w(sl), opt_w(sc), opt_w(n, True)])
        for (kl, kc, l, c, s, sl, sc, n) in es
    )


def entries_r(w: str):
    if w == "-":
        return []
    out = []
    for e in w.split(","):
        kl, kc, l, c, s, sl, sc, n = e.split(":")
        out.append((int(kl), int(kc), int(l), int(c), opt_r(s, True), opt_r(sl), opt_r(sc), opt_r(n, True)))
    return out


def real_entries(sm) -> list:
    return [
        (k[0], k[1], e.line, e.column, e.source, e.source_line, e.source_column, e.name)
        for k, e in sm.entries.items()
    ]


def exc_name(e: BaseException) -> str:
    return type(e).__name__


class Raised:
    """result of a real-code call that raised (never equal to a proper result)"""

    def __init__(self, e: BaseException):
        self.e = e

    def __repr__(self):
        return f"<raised {type(self.e).__name__}: {str(self.e)[:200]}>"


def guarded(f):
    try:
        return f()
    except Exception as e:  # noqa: BLE001
        return Raised(e)


# ------------------------------------------------------------------------------------------------
# (b) codec correspondence

def gen_int(r) -> int:
    k = r.random()
    if k < 0.12:
        return 0
    if k < 0.35:
        v = r.randrange(1, 40)
    elif k < 0.55:
        e = r.randrange(1, 70)
        v = max(0, (1 << e) + r.choice([-1, 0, 1]))
    elif k < 0.7:
        v = r.randrange(1 << 32, 1 << 40)
    elif k < 0.8:
        v = r.randrange(1 << 64, 1 << 200)
    else:
        v = r.randrange(0, 1 << r.randrange(1, 34))
    return -v if r.random() < 0.45 else v


VLQ_JUNK = [" ", "=", "-", "_", "{", "~", "|", "é", "€", "\x00", "\n", "*", "@", "[", "`"]
B64 = "ABCDEFGHIJKLMNOPQRSTUVWXYZabcdefghijklmnopqrstuvwxyz0123456789+/"


def gen_vlq_text(r) -> str:
    n = r.randrange(0, 12)
    junk = r.random() < 0.35
    out = []
    for _ in range(n):
        if junk and r.random() < 0.2:
            out.append(r.choice(VLQ_JUNK))
        else:
            out.append(r.choice(B64))
    return "".join(out)


def check_vlq(rep: Report, d: Driver, n_enc: int, n_dec: int, stats: dict):
    import pyteal.compiler.sourcemap as sm
    from algosdk import source_map as asm

    r = rng("c15-vlq")
    lists = [[], [0], [-1], [1], [15], [16], [-16], [31], [32], [1 << 32], [-(1 << 32)], [(1 << 64) - 1],
             [0, 0, 0, 0], [-(1 << 200), 1 << 200]]
    while len(lists) < n_enc:
        lists.append([gen_int(r) for _ in range(r.randrange(0, 7))])
    answers = d.ask_many(["c15-vlq-enc " + ints_w(vs) for vs in lists])
    dec_q = []
    for vs, a in zip(lists, answers):
        real = sm._base64vlq_encode(*vs)
        model = untx(a) if not a.startswith("perr") else a
        stats["vlq_enc"] += 1
        if real != model:
            rep.violation(f"VLQ encoder: model {model!r} != real {real!r} for {vs}",
                          {"kind": "vlq-enc", "values": [str(v) for v in vs]}, no_input=True)
        back = guarded(lambda: sm._base64vlq_decode(real))
        if back != vs:
            rep.violation(f"VLQ round trip broken on the real code: decode(encode({vs})) = {back}",
                          {"kind": "vlq-roundtrip", "values": [str(v) for v in vs]})
        second = guarded(lambda: list(asm._base64vlq_decode(real)))
        if second != vs:
            rep.violation(f"algosdk decoder disagrees: {second} for encode({vs}) = {real!r}",
                          {"kind": "vlq-roundtrip", "values": [str(v) for v in vs]})
        dec_q.append(real)
    stats["vlq_big"] = sum(1 for vs in lists if any(abs(v) >= 1 << 32 for v in vs))
    stats["vlq_neg"] = sum(1 for vs in lists if any(v < 0 for v in vs))
    texts = dec_q[: n_dec // 3] + ["", "g", "gg", "gA", "B", "D", "{", "A{", "é", "A B", "A,B", "A;B", "//", "+/"]
    while len(texts) < n_dec:
        texts.append(gen_vlq_text(r))
    answers = d.ask_many(["c15-vlq-dec " + tx(t) for t in texts])
    for t, a in zip(texts, answers):
        try:
            real = "ok " + ints_w(sm._base64vlq_decode(t))
        except Exception as e:  # noqa: BLE001
            real = "err " + exc_name(e)
        stats["vlq_dec"] += 1
        stats["vlq_dec_err"] += real.startswith("err")
        if real != a:
            rep.violation(f"VLQ decoder: model {a!r} != real {real!r} for {t!r}", {"kind": "vlq-dec", "text": t},
                          no_input=True)


SRC_POOL = ["a.py", "dir/b.py", "", "unknown", "ü.py", "c d.py", "x,y;z.py"]
NAME_POOL = ["n", "", "foo", "bär", "a:b"]


def gen_map(r, wild: bool):
    """random (index, entries) in the harness tuple form; `wild` allows objects outside R3Map.wf"""
    nrows = r.choice([0, 1, 1, 2, 3, 4, 6]) if wild else r.choice([1, 1, 2, 3, 4, 6])
    pool = r.sample(SRC_POOL, r.randrange(1, 4))
    npool = r.sample(NAME_POOL, r.randrange(1, 4))
    index, entries = [], []
    for gl in range(nrows):
        cols, c = [], r.choice([0, 0, 0, r.randrange(0, 5), -r.randrange(0, 3) if wild else 0])
        for _ in range(r.choice([0, 1, 1, 1, 2, 3])):
            cols.append(c)
            c += r.randrange(1, 1 << r.randrange(1, 12))
        index.append(cols)
        for col in cols:
            if r.random() < 0.2:
                entries.append((gl, col, gl, col, None, None, None, None))
                continue
            src = r.choice(pool)
            sl, sc = gen_int(r) if r.random() < 0.3 else r.randrange(0, 4000), r.randrange(0, 120)
            nm = r.choice(npool) if r.random() < 0.3 else None
            entries.append((gl, col, gl, col, src, sl, sc, nm))
    if wild and entries and r.random() < 0.5:
        k = r.random()
        i = r.randrange(len(entries))
        kl, kc, l, c, s, sl, sc, nm = entries[i]
        if k < 0.3:
            del entries[i]                       # index names a missing key -> KeyError
        elif k < 0.5:
            entries[i] = (kl, kc, l, c + 1, s, sl, sc, nm)   # entry.column differs from its key (to_json uses the key)
        elif k < 0.7 and s is None:
            entries[i] = (kl, kc, l, c, None, 5, 7, None)    # line info without a source is dropped by to_json
        elif k < 0.85:
            index.append([])
        else:
            index[r.randrange(len(index))].append(99999)     # unknown key at the end of a row
    return index, entries


def py_wf(index, entries) -> bool:
    """the transparent reading of `R3Map.wf` (must imply the Lean predicate)"""
    if not index:
        return False
    keys = [(gl, c) for gl, row in enumerate(index) for c in row]
    if [(e[0], e[1]) for e in entries] != keys:
        return False
    for a, b in zip(entries, entries[1:]):
        if not ((a[2], a[3]) < (b[2], b[3])):
            return False
    for (kl, kc, l, c, s, sl, sc, nm) in entries:
        if (l, c) != (kl, kc):
            return False
        if s is None and (sl is not None or sc is not None or nm is not None):
            return False
        if s is not None and (sl is None or sc is None):
            return False
    return True


def build_real_map(index, entries):
    from pyteal.compiler.sourcemap import R3SourceMap, R3SourceMapping

    d = {}
    for (kl, kc, l, c, s, sl, sc, nm) in entries:
        d[(kl, kc)] = R3SourceMapping(line=l, column=c, source=s, source_line=sl, source_column=sc, name=nm)
    return R3SourceMap(filename=None, source_root=None, entries=d, index=[tuple(cs) for cs in index])


def json_of_answer(a: str):
    _, srcs, nms, m = a.split(" ")
    return {"version": 3, "sources": strs_r(srcs), "names": strs_r(nms), "mappings": untx(m)}


def check_r3_enc(rep: Report, d: Driver, n: int, stats: dict):
    from pyteal.compiler.sourcemap import R3SourceMap

    r = rng("c15-r3-enc")
    cases = []
    while len(cases) < n:
        wild = r.random() < 0.3
        cases.append((wild,) + gen_map(r, wild))
    qs, reals = [], []
    for wild, index, entries in cases:
        try:
            m = build_real_map(index, entries)
        except Exception as e:  # noqa: BLE001   constructor rejects (ordering / field checks)
            reals.append(("ctor", exc_name(e)))
            qs.append(None)
            continue
        try:
            j = m.to_json()
            reals.append(("ok", j, m))
        except Exception as e:  # noqa: BLE001
            reals.append(("err", exc_name(e)))
        qs.append(f"c15-r3-enc {index_w(index)} {entries_w(entries)}")
    live = [q for q in qs if q]
    ans = iter(d.ask_many(live))
    wfq = iter(d.ask_many([q.replace("c15-r3-enc", "c15-r3-wf", 1) for q in live]))
    for (wild, index, entries), q, real in zip(cases, qs, reals):
        if q is None:
            stats["r3_enc_ctor_rejects"] += 1
            continue
        a, wf = next(ans), next(wfq)
        stats["r3_enc"] += 1
        stats["r3_enc_wf"] += wf == "1"
        case = {"kind": "r3-enc", "index": index, "entries": entries}
        if real[0] == "err":
            stats["r3_enc_err"] += 1
            if a != "err " + real[1]:
                rep.violation(f"to_json: model {a!r} != real {real[1]} for index={index} entries={entries}", case,
                              no_input=True)
            continue
        j, m = real[1], real[2]
        if not a.startswith("ok "):
            rep.violation(f"to_json: model {a!r} but the real code returned {j}", case, no_input=True)
        else:
            mj = json_of_answer(a)
            if (mj["sources"], mj["names"], mj["mappings"]) != (j["sources"], j["names"], j["mappings"]):
                rep.violation(f"to_json: model {mj} != real {j} for index={index} entries={entries}", case,
                              no_input=True)
        # the property on the real code: from_json(to_json(m)) gives the same associations
        pwf = py_wf(index, entries)
        stats["r3_enc_pywf"] += pwf
        if pwf and wf != "1":
            rep.violation(f"R3Map.wf rejects a map that is well-formed in the transparent sense: {index} {entries}",
                          dict(case, kind="r3-wf"), no_input=True)
        if pwf or wf == "1":
            back = guarded(lambda: R3SourceMap.from_json(j, add_right_bounds=False))
            if isinstance(back, Raised):
                rep.violation(f"R3 JSON round trip broken on the real code for index={index} entries={entries}: "
                              f"from_json(to_json()) {back!r}", dict(case, kind="r3-roundtrip"))
            elif real_entries(back) != real_entries(m) or [list(c) for c in back.index] != index:
                rep.violation(f"R3 JSON round trip broken on the real code for index={index} entries={entries}: "
                              f"{real_entries(back)} / {back.index}", dict(case, kind="r3-roundtrip"))
            # and through the Lean decoder (a difference here alone means model and code disagree on to_json)
            a2 = d.ask(f"c15-r3-dec {strs_w(j['sources'])} {strs_w(j['names'])} {tx(j['mappings'])}")
            if a2 != f"ok {index_w(index)} {entries_w(entries)}":
                rep.violation(f"R3 JSON of the real to_json decoded by the Lean model differs from the map: {a2[:300]}",
                              dict(case, kind="r3-roundtrip-lean"), no_input=True)
            stats["r3_roundtrips"] += 1


def gen_json(r):
    srcs = r.sample(SRC_POOL, r.choice([0, 1, 1, 2, 3]))
    nms = r.sample(NAME_POOL, r.choice([0, 0, 1, 2, 3]))
    import pyteal.compiler.sourcemap as sm

    lines = []
    style = r.random()
    for _ in range(r.choice([0, 1, 1, 2, 3, 5])):
        segs = []
        for _ in range(r.choice([0, 1, 1, 1, 2, 3])):
            if style < 0.15 and r.random() < 0.3:
                segs.append(gen_vlq_text(r))
                continue
            nf = r.choice([1, 4, 4, 4, 5, 5, 2, 3, 6, 0])
            fs = []
            for i in range(nf):
                if i == 0:
                    fs.append(r.choice([0, 0, 1, 3, 17, -1, 0]))
                elif i in (1, 4):
                    fs.append(r.choice([0, 0, 0, 1, 1, -1, 2, -2]))
                else:
                    fs.append(r.choice([0, 1, -1, gen_int(r), r.randrange(0, 50)]))
            segs.append(sm._base64vlq_encode(*fs))
        lines.append(",".join(segs))
    return {"version": 3, "sources": srcs, "names": nms, "mappings": ";".join(lines)}


def check_r3_dec(rep: Report, d: Driver, n: int, stats: dict):
    from pyteal.compiler.sourcemap import R3SourceMap

    r = rng("c15-r3-dec")
    cases = [
        {"version": 3, "sources": [], "names": [], "mappings": ""},
        {"version": 3, "sources": ["a"], "names": [], "mappings": "AAAA,AAAA"},
        {"version": 3, "sources": ["a"], "names": [], "mappings": "CAAA,DAAA"},
        {"version": 3, "sources": ["a"], "names": [], "mappings": "CAAA,CAAA,FAAA"},
        {"version": 3, "sources": ["a"], "names": ["n"], "mappings": "ACAAA"},
        {"version": 3, "sources": ["a"], "names": ["n"], "mappings": "ADAAA"},
        {"version": 3, "sources": ["a", "b"], "names": ["n", "m"], "mappings": "AAAAD;;AAAAD,,"},
    ]
    while len(cases) < n:
        cases.append(gen_json(r))
    ans = d.ask_many([f"c15-r3-dec {strs_w(j['sources'])} {strs_w(j['names'])} {tx(j['mappings'])}" for j in cases])
    for j, a in zip(cases, ans):
        try:
            m = R3SourceMap.from_json(dict(j), add_right_bounds=False)
            real = f"ok {index_w([list(c) for c in m.index])} {entries_w(real_entries(m))}"
        except Exception as e:  # noqa: BLE001
            real = "err " + exc_name(e)
        stats["r3_dec"] += 1
        stats["r3_dec_err"] += real.startswith("err")
        if real != a:
            rep.violation(f"from_json: model {a!r} != real {real!r} for {j}", {"kind": "r3-dec", "json": j},
                          no_input=True)


# ------------------------------------------------------------------------------------------------
# (c) differential execution on generated source files

PROBE = r'''
"""C15 probe (generated): compiles the programs of c15_main with and without source maps."""
import json, os, sys, traceback
sys.path.insert(0, os.environ["C15_REPO"])
for _sib in ("../app_shared", "../lib"):          # modules of the project living beside the working directory
    if os.path.isdir(_sib):
        sys.path.insert(1, os.path.abspath(_sib))
sys.setrecursionlimit(20000)
ENABLED = os.environ.get("C15_SOURCEMAP") == "1"
from feature_gates import FeatureGates
FeatureGates.set_sourcemap_enabled(ENABLED)
import pyteal as pt
import c15_main as M

ANNOTATE = json.loads(os.environ.get("C15_ANNOTATE", "[]"))

def dump_map(sm):
    r3 = sm.r3_sourcemap
    return {
        "teal_filename": sm.teal_filename,
        "annotated": sm.annotated_teal,
        "json": r3.to_json(),
        "index": [list(c) for c in r3.index],
        "entries": [[k[0], k[1], e.line, e.column, e.source, e.source_line, e.source_column, e.name]
                    for k, e in r3.entries.items()],
        "source_root": r3.source_root,
        "source_files": r3.source_files,
        "file_lines": r3.file_lines,
    }

def run_case(case):
    out = {"name": case["name"], "kind": case["kind"], "cfg": case["cfg"], "runs": []}
    cfg = case["cfg"]
    def opt():
        return pt.OptimizeOptions(scratch_slots=cfg["optimize"], frame_pointers=cfg.get("frame_pointers"))
    def err(e):
        return type(e).__name__ + ": " + str(e)[:600] + "\n" + traceback.format_exc()[-1200:]
    if case["kind"] == "expr":
        def comp():
            return pt.Compilation(case["build"](), getattr(pt.Mode, cfg["mode"]), version=cfg["version"],
                                  assemble_constants=cfg["assemble_constants"], optimize=opt(), assembly_type_track=cfg.get("type_track", True))
        def plain():
            return [comp().compile(with_sourcemap=False).teal]
        def plain2():
            return [pt.compileTeal(case["build"](), getattr(pt.Mode, cfg["mode"]), version=cfg["version"],
                                   assembleConstants=cfg["assemble_constants"], optimize=opt(), assembly_type_track=cfg.get("type_track", True))]
        def mapped(a):
            r = comp().compile(with_sourcemap=True, teal_filename="c15.teal", annotate_teal=a["annotate"],
                               annotate_teal_headers=a["headers"], annotate_teal_concise=a["concise"])
            return {"annotate": a, "teal": [r.teal], "maps": [dump_map(r.sourcemap)]}
        def reuse(a):
            ast = case["build"]()
            def c():
                return pt.Compilation(ast, getattr(pt.Mode, cfg["mode"]), version=cfg["version"],
                                      assemble_constants=cfg["assemble_constants"], optimize=opt(), assembly_type_track=cfg.get("type_track", True))
            first = c().compile(with_sourcemap=False).teal
            r = c().compile(with_sourcemap=True, teal_filename="c15.teal", annotate_teal=a["annotate"],
                            annotate_teal_headers=a["headers"], annotate_teal_concise=a["concise"])
            ast2 = case["build"]()
            def c2():
                return pt.Compilation(ast2, getattr(pt.Mode, cfg["mode"]), version=cfg["version"],
                                      assemble_constants=cfg["assemble_constants"], optimize=opt(), assembly_type_track=cfg.get("type_track", True))
            c2().compile(with_sourcemap=False)
            twice = c2().compile(with_sourcemap=False).teal
            return {"annotate": a, "teal": [r.teal], "maps": [dump_map(r.sourcemap)], "first": [first], "plain_twice": [twice]}
    else:
        def reuse(a):
            router = case["build"]()
            kw = dict(version=cfg["version"], assemble_constants=cfg["assemble_constants"], optimize=opt())
            f = router.compile(**kw)
            r = router.compile(with_sourcemaps=True, annotate_teal=a["annotate"], annotate_teal_headers=a["headers"],
                               annotate_teal_concise=a["concise"], **kw)
            router2 = case["build"]()
            router2.compile(**kw)
            t = router2.compile(**kw)
            return {"annotate": a, "teal": [r.approval_teal, r.clear_teal],
                    "maps": [dump_map(r.approval_sourcemap), dump_map(r.clear_sourcemap)],
                    "first": [f.approval_teal, f.clear_teal], "plain_twice": [t.approval_teal, t.clear_teal]}
        def rcomp(**kw):
            return case["build"]().compile(version=cfg["version"], assemble_constants=cfg["assemble_constants"],
                                           optimize=opt(), **kw)
        def plain():
            r = rcomp()
            return [r.approval_teal, r.clear_teal]
        def plain2():
            ap, cl, _ = case["build"]().compile_program(version=cfg["version"],
                                                         assemble_constants=cfg["assemble_constants"], optimize=opt())
            return [ap, cl]
        def mapped(a):
            r = rcomp(with_sourcemaps=True, annotate_teal=a["annotate"], annotate_teal_headers=a["headers"],
                      annotate_teal_concise=a["concise"])
            return {"annotate": a, "teal": [r.approval_teal, r.clear_teal],
                    "maps": [dump_map(r.approval_sourcemap), dump_map(r.clear_sourcemap)]}
    try:
        out["plain"] = plain()
        out["plain_compileTeal"] = plain2()
    except Exception as e:
        out["plain_error"] = err(e)
        return out
    if ENABLED:
        for a in ANNOTATE:
            try:
                out["runs"].append(mapped(a))
            except Exception as e:
                out["runs"].append({"annotate": a, "error": err(e)})
        # the same object compiled first without and then with a source map
        a = dict(ANNOTATE[0], same_object_after_plain=True)
        try:
            out["runs"].append(reuse(a))
        except Exception as e:
            out["runs"].append({"annotate": a, "error": err(e)})
    else:
        try:
            mapped({"annotate": False, "headers": False, "concise": True})
            out["disabled_error"] = None
        except Exception as e:
            out["disabled_error"] = type(e).__name__
    return out

res = {"enabled": ENABLED, "cwd": os.getcwd(), "cases": [run_case(c) for c in M.CASES]}
with open(os.environ["C15_OUT"], "w") as f:
    json.dump(res, f)
'''

ANNOTATE_ALL = [
    {"annotate": False, "headers": False, "concise": True},
    {"annotate": True, "headers": False, "concise": True},
    {"annotate": True, "headers": False, "concise": False},
    {"annotate": True, "headers": True, "concise": True},
    {"annotate": True, "headers": True, "concise": False},
]

MARK0 = 7_000_000


class SrcFile:
    """a generated source file; `emit` returns the 1-based line number just written"""

    def __init__(self, name: str, mod: str | None = None):
        self.name = name                      # path relative to the project directory
        self.mod = mod or name[:-3]           # import name
        self.lines: list[str] = []

    def emit(self, text: str, ind: int = 0) -> int:
        self.lines.append("    " * ind + text)
        return len(self.lines)

    def text(self) -> str:
        return "\n".join(self.lines) + "\n"


class Gen:
    """random PyTeal source text with one marker constant per line"""

    def __init__(self, r, project: "Project"):
        self.r, self.p = r, project
        self.stats = project.stats

    def marker(self, f: SrcFile, line_no_next: int, kind: str | None = None):
        """allocate a marker that will be written on line `line_no_next` of `f`; returns its source text"""
        m = self.p.next_marker
        self.p.next_marker += 1
        kind = kind or self.r.choice(["int", "int", "int", "bytes"])
        self.p.markers[m] = (f.name, line_no_next, kind)
        return (f"pt.Int({m})" if kind == "int" else f'pt.Bytes("mk{m}")'), kind

    def val_u(self, f: SrcFile, ind: int, depth: int, suffix: str = ","):
        """emit a uint64-valued expression (possibly over several lines), ending with `suffix`"""
        r = self.r
        k = r.random()
        if depth <= 0 or k < 0.45:
            src, _ = self.marker(f, len(f.lines) + 1, "int")
            # some source lines LOOK like an import of the library to a word-splitting test (a trailing comment mentioning it)
            tail = r.choice(["  # keep in sync with the pyteal import above", "  # import pyteal as pt -- see the header"]) if r.random() < 0.1 else ""
            if tail:
                self.stats["shape_line_mentions_import"] += 1
            f.emit(src + suffix + tail, ind)
        elif k < 0.6:
            src, _ = self.marker(f, len(f.lines) + 1, "bytes")
            f.emit(f"pt.Len({src}){suffix}", ind)
            self.stats["shape_len_bytes"] += 1
        elif k < 0.85:
            f.emit("(", ind)
            self.val_u(f, ind + 1, depth - 1, suffix="")
            f.emit(r.choice(["+", "*", "-", "&", "|"]), ind + 1)
            self.val_u(f, ind + 1, depth - 1, suffix="")
            f.emit(")" + suffix, ind)
            self.stats["shape_binary_multiline"] += 1
        elif k < 0.885 and self.p.subs_ref:
            # a call that MIXES a by-reference argument with an expression argument: the literal the user wrote as the second argument
            # must stay attributed to its own line, not to the callee's definition
            name = r.choice(self.p.subs_ref)
            f.emit(f"{name}(", ind)
            f.emit(f"{r.choice(self.p.vars)},", ind + 1)
            self.val_u(f, ind + 1, 0 if r.random() < 0.6 else depth - 1, suffix=",")
            f.emit(")" + suffix, ind)
            self.stats["shape_sub_call_byref_mixed"] += 1
        elif k < 0.93 and self.p.subs_u:
            name = r.choice(self.p.subs_u)
            f.emit(f"{name}(", ind)
            self.val_u(f, ind + 1, depth - 1, suffix=",")
            f.emit(")" + suffix, ind)
            self.stats["shape_sub_call"] += 1
        elif len(self.p.twins) >= 2 and f.name == "c15_main.py" and r.random() < 0.5:
            (na, _ia), (nb, _ib) = r.sample(self.p.twins, 2)
            f.emit(f"({na}() + {nb}()){suffix}", ind)     # two adjacent TEAL lines from one (line, column) of two files
            self.stats["shape_twin_positions"] += 1
        elif self.p.helpers:
            name, (hf, hline, hm) = r.choice(self.p.helpers)
            f.emit(f"{name}(){suffix}", ind)          # the marker is written in the helper's file
            self.stats["shape_helper_other_file"] += 1
        else:
            src, _ = self.marker(f, len(f.lines) + 1, "int")
            f.emit(src + suffix, ind)

    def stmt(self, f: SrcFile, ind: int, depth: int, in_loop: bool = False):
        r = self.r
        k = r.random()
        if depth <= 0 or k < 0.3:
            src, kind = self.marker(f, len(f.lines) + 1)
            f.emit(f"pt.Pop({src}),", ind)
            self.stats["shape_pop"] += 1
        elif k < 0.4:
            f.emit("pt.Pop(", ind)
            self.val_u(f, ind + 1, depth - 1)
            f.emit("),", ind)
        elif k < 0.55:
            f.emit("pt.If(", ind)
            self.val_u(f, ind + 1, depth - 1)
            f.emit(").Then(", ind)
            self.stmts(f, ind + 1, depth - 1, r.randrange(1, 4), in_loop)
            if r.random() < 0.6:
                f.emit(").Else(", ind)
                self.stmts(f, ind + 1, depth - 1, r.randrange(1, 3), in_loop)
            f.emit("),", ind)
            self.stats["shape_if"] += 1
        elif k < 0.63:
            f.emit("pt.While(", ind)
            self.val_u(f, ind + 1, depth - 1)
            f.emit(").Do(", ind)
            self.stmts(f, ind + 1, depth - 1, r.randrange(1, 3), True)
            f.emit("),", ind)
            self.stats["shape_while"] += 1
        elif k < 0.7:
            f.emit("pt.Seq(", ind)
            self.stmts(f, ind + 1, depth - 1, r.randrange(1, 4), in_loop)
            f.emit("),", ind)
            self.stats["shape_seq"] += 1
        elif k < 0.74 and self.repeatable():
            # the SAME literal written once more, at another place (with assemble_constants it lands in a constant block;
            # each writing line must still get its own TEAL line)
            m = r.choice(self.repeatable())
            kind = self.p.markers[m][2]
            src = f"pt.Int({m})" if kind == "int" else f'pt.Bytes("mk{m}")'
            self.p.repeats.setdefault(m, []).append((f.name, len(f.lines) + 1))
            f.emit(f"pt.Pop({src}),", ind)
            self.stats["shape_repeated_literal"] += 1
        elif k < 0.77:
            src, _ = self.marker(f, len(f.lines) + 1, "int")
            f.emit(f'pt.Assert({src}, comment="c15 note // not a comment"),', ind)
            self.stats["shape_assert_comment"] += 1
        elif k < 0.84:
            v = r.choice(self.p.vars)
            f.emit(f"{v}.store(", ind)
            self.val_u(f, ind + 1, depth - 1)
            f.emit("),", ind)
            f.emit(f"pt.Pop({v}.load()),", ind)
            self.stats["shape_scratch"] += 1
        elif k < 0.9 and self.p.mode == "Application":
            src, _ = self.marker(f, len(f.lines) + 1, "bytes")
            f.emit(f"pt.Log({src}),", ind)
            self.stats["shape_log"] += 1
        elif k < 0.94 and in_loop:
            src, _ = self.marker(f, len(f.lines) + 1, "int")
            f.emit(f"pt.If({src}).Then(pt.{r.choice(['Break', 'Continue'])}()),", ind)
            self.stats["shape_break_continue"] += 1
        elif k < 0.97:
            f.emit('pt.Pop(pt.Bytes("base64", "//8=")),', ind)      # literal containing `//`
            f.emit('pt.Pop(pt.Bytes("a // b \\" c")),', ind)
            self.stats["shape_slash_literals"] += 1
        else:
            f.emit('pt.Comment("c15 comment"),', ind)
            src, _ = self.marker(f, len(f.lines) + 1, "int")
            f.emit(f"pt.Pop({src}),", ind)
            self.stats["shape_comment"] += 1

    def stmts(self, f: SrcFile, ind: int, depth: int, n: int, in_loop: bool = False):
        # first statement of a block is always a plain marker (a loop as the first statement of a routine
        # trips an unrelated compiler defect, C20)
        src, _ = self.marker(f, len(f.lines) + 1)
        f.emit(f"pt.Pop({src}),", ind)
        if len(self.p.twins) >= 2 and f.name == "c15_main.py" and self.r.random() < 0.5:
            (na, _ia), (nb, _ib) = self.r.sample(self.p.twins, 2)
            f.emit(f"pt.Pop({na}() + {nb}()),", ind)     # two adjacent TEAL lines from one (line, column) of two files
            self.stats["shape_twin_positions"] += 1
        for _ in range(n):
            self.stmt(f, ind, depth, in_loop)

    def subroutine(self, f: SrcFile, name: str, nstmts: int, depth: int, recursive: bool = False):
        f.emit("")
        f.emit("@pt.Subroutine(pt.TealType.uint64)")
        f.emit(f"def {name}(x):")
        f.emit("return pt.Seq(", 1)
        self.stmts(f, 2, depth, nstmts)
        if recursive:
            src, _ = self.marker(f, len(f.lines) + 2, "int")
            f.emit(f"pt.If(x).Then(pt.Pop({name}(x -", 2)
            f.emit(f"{src}))),", 3)
            self.stats["shape_recursive_sub"] += 1
        src, _ = self.marker(f, len(f.lines) + 1, "int")
        f.emit(f"x + {src},", 2)
        f.emit(")", 1)

    def subroutine_ref(self, f: SrcFile, name: str):
        """a subroutine taking a scratch variable by reference and a uint64 expression"""
        f.emit("")
        f.emit("@pt.Subroutine(pt.TealType.uint64)")
        f.emit(f"def {name}(v: pt.ScratchVar, x):")
        f.emit("return pt.Seq(", 1)
        f.emit("v.store(v.load() + x),", 2)
        src, _ = self.marker(f, len(f.lines) + 1, "int")
        f.emit(f"x + {src},", 2)
        f.emit(")", 1)

    def repeatable(self):
        """markers that may be written a second time: not those inside plain Python helper functions -- a helper called from several
        places yields several TEAL lines attributed to ITS line, so 'as many loads as writing places' would no longer mean one load each"""
        inside_helpers = {info[2] for _n, info in list(self.p.helpers) + list(self.p.twins)}
        return sorted(m for m in self.p.markers if m not in inside_helpers)

    def helper(self, f: SrcFile, name: str):
        """a plain Python function in `f` that writes a marker: attribution must be to `f`, not to its caller"""
        f.emit("")
        f.emit(f"def {name}():")
        src, _ = self.marker(f, len(f.lines) + 1, "int")
        f.emit(f"return {src}", 1)
        m = self.p.next_marker - 1
        return name, (f.name, len(f.lines), m)


HEADER = ["import pyteal as pt", ""]


class Project:
    """a directory of generated modules + c15_main.py exposing CASES for the probe"""

    def __init__(self, r, stats, shape: str, size: int):
        self.r, self.stats, self.shape = r, stats, shape
        self.next_marker = MARK0 + r.randrange(0, 1000) * 1000
        self.markers: dict[int, tuple[str, int, str]] = {}
        self.repeats: dict[int, list[tuple[str, int]]] = {}     # further writing positions of a marker
        self.subs_u: list[str] = []
        self.subs_ref: list[str] = []       # subroutines (v: ScratchVar, x) of c15_main.py
        self.helpers: list = []
        self.twins: list = []
        self.vars = ["c15_v0", "c15_v1"]
        self.files: list[SrcFile] = []
        self.cfgs: list[dict] = []
        self.seen: set[int] = set()
        self.mode = "Application" if shape in ("router", "long") else r.choice(["Application", "Application", "Signature"])
        self.build(size)

    def cfg(self):
        r, mode = self.r, self.mode
        version = r.choice([6, 7, 8, 8, 9, 10])
        return {"mode": mode, "version": version, "assemble_constants": r.random() < 0.35,
                "optimize": r.random() < 0.3, "frame_pointers": r.choice([None, None, False]) if version >= 8 else None,
                "type_track": r.random() >= 0.25}

    def build(self, size: int):
        r = self.r
        g = Gen(r, self)
        main = SrcFile("c15_main.py")
        mods = []
        nmods = {"single": 0, "multi": r.randrange(2, 4), "router": r.randrange(0, 2), "long": 1,
                 "shadow": r.randrange(1, 3), "sibling": r.randrange(2, 4)}[self.shape]
        for i in range(nmods):
            if self.shape == "sibling" and i < 2:
                # beside the working directory `app`: a directory whose NAME starts with the working directory's, and an unrelated one
                mods.append(SrcFile(("../app_shared/" if i == 0 else "../lib/") + f"c15_mod{i}.py", f"c15_mod{i}"))
            elif self.shape == "shadow" and i == 0:
                # a user module whose path contains the fragment `pyteal/ast` of StackFrame._internal_paths
                mods.append(SrcFile("c15pyteal/ast_mod0.py", "c15pyteal.ast_mod0"))
            else:
                mods.append(SrcFile(f"c15_mod{i}.py"))
        # helper modules first (they may import each other: mod1 imports mod0 ...)
        for i, mf in enumerate(mods):
            for l in HEADER:
                mf.emit(l)
            # a helper at the SAME line and column in every module (before anything module-specific): constants written at one
            # position of two different files
            tname, tinfo = g.helper(mf, f"twin_{i}")
            self.twins.append((f"{mf.mod}.{tname}", tinfo))
            if i > 0:
                mf.emit(f"import {mods[i - 1].mod}")
            for v in self.vars:
                mf.emit(f"{v} = pt.ScratchVar(pt.TealType.uint64)")
            for k in range(r.randrange(1, 3)):
                name, info = g.helper(mf, f"mk_{i}_{k}")
                self.helpers.append((f"{mf.mod}.{name}", info))
            nsubs = size // 134 + 1 if self.shape == "long" else r.randrange(1, 3)
            for k in range(nsubs):
                local = list(self.subs_u)
                name = f"sub_{i}_{k}"
                # inside module i, earlier subroutines of the same module are called unqualified
                self.subs_u = [s.split(".")[-1] if s.startswith(mf.mod + ".") else s for s in local]
                self.helpers_bak = self.helpers
                self.helpers = [(n[len(mf.mod) + 1:], inf) if n.startswith(mf.mod + ".") else (n, inf)
                                for n, inf in self.helpers]
                g.subroutine(mf, name, (38 if self.shape == "long" else r.randrange(1, 5)),
                             1 if self.shape == "long" else 2, recursive=r.random() < 0.25)
                self.helpers = self.helpers_bak
                self.subs_u = local + [f"{mf.mod}.{name}"]
        for l in HEADER:
            main.emit(l)
        for mf in mods:
            main.emit(f"import {mf.mod}")
        for v in self.vars:
            main.emit(f"{v} = pt.ScratchVar(pt.TealType.uint64)")
        if r.random() < 0.6:
            g.subroutine_ref(main, "rsub_0")
            self.subs_ref.append("rsub_0")
        for k in range(r.randrange(0, 3)):
            g.subroutine(main, f"msub_{k}", r.randrange(1, 5), 2, recursive=r.random() < 0.3)
            self.subs_u.append(f"msub_{k}")
        cases = []
        if self.shape == "router":
            main.emit("")
            main.emit("def build_router():")
            bare_sub = r.random() < 0.5
            self.bare_sub = bare_sub
            if bare_sub:
                # the bare-call action is itself a subroutine holding scratch variables: the router generates the call
                self.stats["shape_router_bare_subroutine"] += 1
                main.emit("@pt.Subroutine(pt.TealType.none)", 1)
                main.emit("def bare_create():", 1)
                main.emit("bv0 = pt.ScratchVar(pt.TealType.uint64)", 2)
                main.emit("bv1 = pt.ScratchVar(pt.TealType.uint64)", 2)
                main.emit("return pt.Seq(", 2)
                src, _ = g.marker(main, len(main.lines) + 1, "int")
                main.emit(f"bv0.store({src}),", 3)
                main.emit("bv1.store(bv0.load() + pt.Int(1)),", 3)
                g.stmts(main, 3, 1, 2)
                main.emit("pt.Pop(bv0.load() + bv1.load()),", 3)
                main.emit(")", 2)
                main.emit("")
            main.emit("router = pt.Router(", 1)
            main.emit('"c15",', 2)
            main.emit("pt.BareCallActions(", 2)
            main.emit("no_op=pt.OnCompleteAction.create_only(", 3)
            if bare_sub:
                main.emit("bare_create", 4)
            else:
                main.emit("pt.Seq(", 4)
                g.stmts(main, 5, 1, 2)
                main.emit("pt.Approve(),", 5)
                main.emit(")", 4)
            main.emit("),", 3)
            main.emit("),", 2)
            main.emit("clear_state=pt.Seq(", 2)
            g.stmts(main, 3, 1, 2)
            main.emit("pt.Approve(),", 3)
            main.emit("),", 2)
            main.emit(")", 1)
            for k in range(r.randrange(1, 4)):
                main.emit("")
                main.emit("@router.method", 1)
                main.emit(f"def meth_{k}(a: pt.abi.Uint64, b: pt.abi.String, *, output: pt.abi.Uint64):", 1)
                main.emit("return pt.Seq(", 2)
                g.stmts(main, 3, 2, r.randrange(1, 4))
                main.emit("output.set(", 3)
                main.emit("a.get() +", 4)
                g.val_u(main, 4, 1)
                main.emit("),", 3)
                main.emit(")", 2)
            main.emit("return router", 1)
            cfg = self.cfg()
            cases.append(("router", "build_router", cfg))
            self.stats["shape_router"] += 1
        nprogs = 1 if self.shape in ("long", "router") else r.randrange(1, 3)
        for k in range(nprogs):
            main.emit("")
            main.emit(f"def build_{k}():")
            main.emit("return pt.Seq(", 1)
            if self.shape == "long":
                # a call to every subroutine so that all 3 000 lines are compiled
                for s in self.subs_u:
                    src, _ = g.marker(main, len(main.lines) + 1, "int")
                    main.emit(f"pt.Pop({s}({src})),", 2)
            else:
                g.stmts(main, 2, 3, size)
            if self.shape == "shadow":
                main.emit(f"pt.Pop({mods[0].mod}.mk_0_0()),", 2)      # constant written in the shadow module
                src, _ = g.marker(main, len(main.lines) + 1, "int")
                main.emit(f"pt.Pop({mods[0].mod}.sub_0_0({src})),", 2)
            src, _ = g.marker(main, len(main.lines) + 1, "int")
            main.emit(f"{src},", 2)
            main.emit(")", 1)
            cases.append(("expr", f"build_{k}", self.cfg()))
        main.emit("")
        main.emit("CASES = [")
        for kind, fn, cfg in cases:
            main.emit(f'{{"name": "{fn}", "kind": "{kind}", "build": {fn}, "cfg": {cfg!r}}},', 1)
            self.cfgs.append(cfg)
        main.emit("]")
        self.files = mods + [main]

    def write(self, d: Path):
        for f in self.files:
            (d / f.name).parent.mkdir(parents=True, exist_ok=True)
            (d / f.name).write_text(f.text())
            if "/" in f.name and not f.name.startswith("../"):
                (d / f.name).parent.joinpath("__init__.py").write_text("")
        (d / "c15_probe.py").write_text(PROBE)


def run_probe(d: Path, enabled: bool, annotate: list, timeout: int = 600) -> dict:
    out = d / ("out_on.json" if enabled else "out_off.json")
    env = dict(os.environ)
    env.update({"C15_REPO": str(REPO), "C15_SOURCEMAP": "1" if enabled else "0", "C15_OUT": str(out),
                "C15_ANNOTATE": json.dumps(annotate), "PYTHONDONTWRITEBYTECODE": "1", "PYTHONHASHSEED": "0"})
    env.pop("PYTHONPATH", None)
    p = subprocess.run([PY, "c15_probe.py"], cwd=str(d), env=env, capture_output=True, text=True, timeout=timeout)
    if p.returncode != 0 or not out.exists():
        return {"crash": f"probe failed in {d} (enabled={enabled}):\n{p.stdout[-1500:]}\n{p.stderr[-3000:]}"}
    res = json.loads(out.read_text())
    res["stdout"] = p.stdout[-2000:]
    return res


def probe_pair(rep: Report, wd: Path, annotate: list, body: dict):
    """both processes; a crash with the gate off is infrastructure, a crash only with the gate on is a finding"""
    off = run_probe(wd, False, [])
    if "crash" in off:
        raise ToolFailure(off["crash"])
    on = run_probe(wd, True, annotate)
    if "crash" in on:
        rep.violation("the generated project runs with source mapping switched off but crashes with the feature gate "
                      "on: " + on["crash"][-700:], body)
        return None
    return on, off


import re

RE_BYTES_MARK = re.compile(r'"mk(\d+)"')


def marker_of_teal_line(line: str, markers: dict):
    """the marker constant a TEAL line pushes, if any"""
    toks = line.split()
    if not toks:
        return None
    op = toks[0]
    if op in ("int", "pushint") and len(toks) >= 2 and toks[1].isdigit():
        m = int(toks[1])
        return m if m in markers else None
    if op.startswith("intc") and op != "intcblock" and "//" in toks:
        t = toks[toks.index("//") + 1:]
        if t and t[0].isdigit():
            m = int(t[0])
            return m if m in markers else None
    if op in ("byte", "pushbytes") or (op.startswith("bytec") and op != "bytecblock"):
        g = RE_BYTES_MARK.search(line)
        if g and int(g.group(1)) in markers:
            return int(g.group(1))
    return None


_SLOT_OP = re.compile(r"^(load|store) (\d+)$")


def same_modulo_slots(a: list, b: list) -> bool:
    """the programs differ, and only by a one-to-one renumbering of the slots named by load/store"""
    if a == b or len(a) != len(b):
        return False
    for ta, tb in zip(a, b):
        la, lb = ta.split("\n"), tb.split("\n")
        if len(la) != len(lb):
            return False
        fwd, bwd = {}, {}
        for x, y in zip(la, lb):
            mx, my = _SLOT_OP.match(x), _SLOT_OP.match(y)
            if mx and my and mx.group(1) == my.group(1):
                if fwd.setdefault(mx.group(2), my.group(2)) != my.group(2) or bwd.setdefault(my.group(2), mx.group(2)) != mx.group(2):
                    return False
            elif x != y:
                return False
    return True


def analyse(rep: Report, d: Driver, proj: Project, wd: Path, on: dict, off: dict, stats: dict, replay: dict):
    """all C15 checks on one generated project; returns nothing, reports through `rep`"""
    from algosdk.source_map import SourceMap as AlgoSM
    from pyteal.compiler.sourcemap import R3SourceMap

    def viol(what, key=None, **extra):
        rep.violation(what, dict(replay, **extra), key=key)

    file_lines = {f.name: f.lines for f in proj.files}
    file_lines["c15_probe.py"] = PROBE.split("\n")
    off_cases = {c["name"]: c for c in off["cases"]}
    for case in on["cases"]:
        tag = f"{proj.shape}/{case['name']} cfg={case['cfg']}"
        oc = off_cases[case["name"]]
        if "plain_error" in case or "plain_error" in oc:
            stats["diff_cases_plain_compile_error"] += 1
            stats["plain_error:" + (case.get("plain_error") or oc.get("plain_error")).split("\n")[0][:90]] += 1
            if ("plain_error" in case) != ("plain_error" in oc):
                viol(f"{tag}: plain compilation fails only with the feature gate "
                     f"{'on' if 'plain_error' in case else 'off'}: {(case.get('plain_error') or oc.get('plain_error'))[:300]}",
                     case=case["name"])
            continue
        stats["diff_cases"] += 1
        if oc.get("disabled_error") != "SourceMapDisabledError":
            viol(f"{tag}: with the gate off, with_sourcemap=True gave {oc.get('disabled_error')!r}", case=case["name"])
        plain = case["plain"]
        # TEAL identical: gate on vs gate off process, Compilation vs compileTeal / compile_program
        for label, other in (("gate-off process", oc["plain"]), ("compileTeal/compile_program", case["plain_compileTeal"]),
                             ("gate-off compileTeal", oc["plain_compileTeal"])):
            stats["teal_identity_checks"] += 1
            if other != plain:
                # listed finding: with the feature on, the router re-frames the ASTs it generates and thereby evaluates the body of a
                # subroutine given as a bare-call action earlier than the compiler would, which renumbers the slots
                key = ("C15-feature-gate-renumbers-slots-router-bare-subroutine"
                       if label.startswith("gate-off") and case["kind"] == "router" and getattr(proj, "bare_sub", False)
                       and same_modulo_slots(plain, other) else None)
                viol(f"{tag}: TEAL differs between with_sourcemap=False (gate on) and {label}", key=key, case=case["name"])
        for run in case["runs"]:
            a = run["annotate"]
            atag = f"{tag} annotate={a}"
            if "error" in run:
                viol(f"{atag}: compiles without a source map but fails with one: {run['error'][:400]}", case=case["name"])
                continue
            stats["diff_compilations_with_map"] += 1
            stats["teal_identity_checks"] += 1
            # the reference: the same history without the request (a second compilation of one object is compared with a second
            # plain compilation of a twin object; what a repeated compilation does to the program is C11's subject, not C15's)
            ref = run.get("plain_twice", plain)
            if run["teal"] != ref:
                key = ("C15-second-compilation-with-map-renumbers-slots-router"
                       if a.get("same_object_after_plain") and case["kind"] == "router" and same_modulo_slots(ref, run["teal"]) else None)
                viol(f"{atag}: TEAL with source map differs from TEAL without", key=key, case=case["name"])
                if key is None:
                    continue
            for pi, (teal, mp) in enumerate(zip(run["teal"], run["maps"])):
                lines = teal.split("\n")
                n = len(lines)
                stats["teal_lines_checked"] += n
                ents = [tuple(e) for e in mp["entries"]]
                # one entry per TEAL line, in order
                if mp["index"] != [[0]] * n or [(e[0], e[1], e[2], e[3]) for e in ents] != [(i, 0, i, 0) for i in range(n)]:
                    viol(f"{atag}: map does not have exactly one entry per TEAL line in order "
                         f"({len(ents)} entries, {len(mp['index'])} index rows, {n} TEAL lines)", case=case["name"])
                    continue
                if mp["file_lines"] != lines:
                    viol(f"{atag}: R3SourceMap.file_lines differ from the TEAL lines", case=case["name"])
                # every entry points at an existing line of an existing file
                bad = None
                for i, e in enumerate(ents):
                    src, sl, sc = e[4], e[5], e[6]
                    if src is None or sl is None or sc is None:
                        bad = (i, "no source")
                        break
                    path = os.path.normpath(os.path.join(mp["source_root"], src))
                    base = os.path.relpath(path, str(wd))
                    if base not in file_lines or not os.path.isfile(path):
                        bad = (i, f"unknown file {path}")
                        break
                    fl = file_lines[base]
                    if not (0 <= sl < len(fl)) or not (0 <= sc <= len(fl[sl])):
                        bad = (i, f"{base}:{sl + 1}:{sc} outside the file ({len(fl)} lines)")
                        break
                if bad:
                    viol(f"{atag}: entry {bad[0]} ({lines[bad[0]]!r}) does not point at an existing source line: {bad[1]}",
                         case=case["name"])
                    continue
                # marker attribution
                hits: dict = {}
                for i, line in enumerate(lines):
                    m = marker_of_teal_line(line, proj.markers)
                    if m is None:
                        continue
                    stats["marker_lines_checked"] += 1
                    want = proj.markers[m][:2]
                    got = (os.path.relpath(os.path.normpath(os.path.join(mp["source_root"], ents[i][4])), str(wd)),
                           ents[i][5] + 1)
                    proj.seen.add(m)
                    hits.setdefault(m, []).append(got)
                    if m in proj.repeats:
                        # written at several places: the line must be attributed to one of them (which ones: below)
                        if got in [tuple(want)] + [tuple(x) for x in proj.repeats[m]]:
                            continue
                    if got != want:
                        # known finding only when the writer's file name matches StackFrame._internal_paths
                        internal = d.ask("c15-internal " + tx(str(wd / want[0]))) == "1"
                        stats["misattributed_internal_path" if internal else "misattributed_other"] += 1
                        viol(f"{atag}: TEAL line {i + 1} {line!r} carries the constant written at {want[0]}:{want[1]} "
                             f"but is attributed to {got[0]}:{got[1]}", case=case["name"], marker=m,
                             key="c15-user-file-matches-internal-path" if internal else None)
                        break
                for m, where in proj.repeats.items():
                    places = [tuple(proj.markers[m][:2])] + [tuple(x) for x in where]
                    got_l = hits.get(m, [])
                    stats["repeated_literals_checked"] += 1
                    # as many loads as writing places (nothing eliminated): every place must own exactly its loads
                    if len(got_l) == len(places) and sorted(got_l) != sorted(places):
                        # known finding only when a writer's file name matches StackFrame._internal_paths
                        internal = any(d.ask("c15-internal " + tx(str(wd / pl[0]))) == "1" for pl in places if pl not in got_l)
                        stats["misattributed_internal_path" if internal else "misattributed_other"] += 1
                        viol(f"{atag}: the constant {m} is written at {places} but its {len(got_l)} TEAL lines are attributed to {got_l}",
                             case=case["name"], marker=m, key="c15-user-file-matches-internal-path" if internal else None)
                        break
                # R3 JSON decodes back to the same associations: Lean decoder, real from_json, algosdk
                j = mp["json"]
                want_ans = f"ok {index_w(mp['index'])} {entries_w(ents)}"
                ans = d.ask(f"c15-r3-dec {strs_w(j['sources'])} {strs_w(j['names'])} {tx(j['mappings'])}")
                stats["json_roundtrips"] += 1
                if ans != want_ans:
                    viol(f"{atag}: the Lean decoder reads different associations from the R3 JSON", case=case["name"])
                wf = d.ask(f"c15-r3-wf {index_w(mp['index'])} {entries_w(ents)}")
                stats["maps_within_wf"] += wf == "1"
                enc = d.ask(f"c15-r3-enc {index_w(mp['index'])} {entries_w(ents)}")
                if not enc.startswith("ok ") or json_of_answer(enc)["mappings"] != j["mappings"] \
                        or json_of_answer(enc)["sources"] != j["sources"]:
                    viol(f"{atag}: the Lean encoder produces a different R3 JSON than to_json()", case=case["name"])
                for arb in (False, True):
                    back = guarded(lambda: R3SourceMap.from_json(dict(j), add_right_bounds=arb))
                    if isinstance(back, Raised) or real_entries(back) != ents \
                            or [list(c) for c in back.index] != mp["index"]:
                        viol(f"{atag}: from_json(to_json()) (add_right_bounds={arb}) gives different associations"
                             + (f" {back!r}" if isinstance(back, Raised) else ""), case=case["name"])
                asm = guarded(lambda: AlgoSM(j))
                if isinstance(asm, Raised) or [asm.pc_to_line.get(i) for i in range(n)] != [e[5] for e in ents]:
                    viol(f"{atag}: algosdk's decoder reads different source lines from the R3 JSON", case=case["name"])
                if j.get("file") != "c15.teal" and case["kind"] == "expr":
                    viol(f"{atag}: JSON file name {j.get('file')!r}", case=case["name"])
                # annotated TEAL
                if not a["annotate"]:
                    if mp["annotated"] is not None:
                        viol(f"{atag}: annotated TEAL present though not requested", case=case["name"])
                    continue
                alines = mp["annotated"].split("\n")
                hdr = 1 if a["headers"] else 0
                if len(alines) != n + hdr:
                    viol(f"{atag}: annotated TEAL has {len(alines)} lines for {n} TEAL lines", case=case["name"])
                    continue
                qs = []
                for al in alines[:hdr]:
                    qs.append("c15-strip " + tx(al))
                for pl, al in zip(lines, alines[hdr:]):
                    qs += ["c15-strip " + tx(al), "c15-strip " + tx(pl), "c15-tokens " + tx(al), "c15-tokens " + tx(pl),
                           "c15-line " + tx(pl)]
                ans = d.ask_many(qs)
                for h in range(hdr):
                    if ans[h] != "-":
                        viol(f"{atag}: header line of the annotated TEAL is not a pure comment: {alines[h]!r}", case=case["name"])
                k = hdr
                shape_q = []
                for li, (pl, al) in enumerate(zip(lines, alines[hdr:])):
                    sa, sp, ta, tp, flags = ans[k:k + 5]
                    k += 5
                    stats["annotated_lines_checked"] += 1
                    closed_, plain_ = flags.split(" ")
                    stats["annotated_lines_plainTeal"] += plain_ == "1"
                    stats["annotated_lines_with_own_comment"] += (closed_ == "1" and plain_ == "0")
                    if closed_ != "1":
                        stats["teal_lines_not_closed"] += 1
                    if sa != sp or ta != tp or (plain_ == "1" and untx(sa) != pl):
                        viol(f"{atag}: annotated line {li + 1} {al!r} without its comment is {untx(sa)!r}, "
                             f"the TEAL line is {pl!r} (stripped {untx(sp)!r})", case=case["name"], teal_line=li)
                        break
                    # shape of the annotated line = the model's `annotate`
                    rest = al[len(pl):] if al.startswith(pl) else None
                    g = re.match(r"^( *)//(.*)$", rest) if rest is not None else None
                    if g is None or len(g.group(1)) < 1:
                        viol(f"{atag}: annotated line {li + 1} {al!r} is not `TEAL line, blanks, //, text`",
                             case=case["name"], teal_line=li)
                        break
                    stats["min_pad"] = min(stats.get("min_pad", 99), len(g.group(1)))
                    if li < 25:      # the model's `annotate` rebuilds the real line from (TEAL line, padding, text)
                        shape_q.append((li, al, f"c15-annotate {tx(pl)} {len(g.group(1))} {tx(g.group(2))}"))
                for (li, al, q), a2 in zip(shape_q, d.ask_many([q for _, _, q in shape_q])):
                    stats["annotate_model_lines"] += 1
                    if untx(a2) != al:
                        viol(f"{atag}: the model's annotate() gives {untx(a2)!r} for annotated line {li + 1} {al!r}",
                             case=case["name"], teal_line=li)
                        break


# ------------------------------------------------------------------------------------------------
# frame classification (model of StackFrame._frame_info_is_pyteal)

def check_internal(rep: Report, d: Driver, n: int, stats: dict):
    from types import SimpleNamespace
    from pyteal.stack_frame import StackFrame

    r = rng("c15-internal")
    frags = ["pyteal/ast", "pyteal/compiler", "pyteal/ir", "pyteal/pragma", "pyteal/__init__.py", "pyteal/stack_frame.py",
             "tests/blackbox.py", "beaker/state.py", "beaker/consts.py", "pyteal", "ast", "/", "tests/", "my", "x.py",
             "pyteal/__init__xpy", "pyteal\\ast", "PYTEAL/AST", "c15_main.py", "contracts/", "é", " ", "pyteal/as",
             "tests/mock_version.py", "tests/compile_asserts_py", "beaker/decorators.py", "\n"]
    names = ["/repo/pyteal/ast/int.py", "/tmp/x/c15_main.py", "c15pyteal/ast_mod0.py", "/home/u/pyteal/astro/app.py",
             "/home/u/my-pyteal/compiler_notes/app.py", "/w/tests/blackbox.py", "", "pyteal/__init__\npy"]
    while len(names) < n:
        names.append("".join(r.choice(frags) for _ in range(r.randrange(1, 5))))
    ans = d.ask_many(["c15-internal " + tx(x) for x in names])
    for x, a in zip(names, ans):
        real = "1" if StackFrame._frame_info_is_pyteal(SimpleNamespace(filename=x)) else "0"
        stats["internal_cmp"] += 1
        stats["internal_true"] += real == "1"
        if real != a:
            rep.violation(f"_frame_info_is_pyteal({x!r}): model {a} != real {real}", {"kind": "internal", "filename": x},
                          no_input=True)


# ------------------------------------------------------------------------------------------------
# entry points

class ReplayProject:
    def __init__(self, body: dict):
        self.shape = body.get("shape", "replay")
        self.files = []
        for name, text in body["files"].items():
            f = SrcFile(name)
            f.lines = text.split("\n")[:-1] if text.endswith("\n") else text.split("\n")
            self.files.append(f)
        self.markers = {int(k): tuple(v) for k, v in body["markers"].items()}
        self.seen = set()

    def write(self, d: Path):
        Project.write(self, d)


def diff_round(rep: Report, d: Driver, plan: list, stats: dict, tmp_root: Path, timings: list):
    samples = []
    for i, (shape, size, annotate) in enumerate(plan):
        t0 = time.time()
        r = rng(f"c15-diff-{i}-{shape}")
        proj = Project(r, stats, shape, size)
        root = Path(tempfile.mkdtemp(prefix=f"c15src_{i}_", dir=str(tmp_root)))
        wd = root / "app"          # the working directory of the compiling process; `sibling` projects keep modules beside it
        wd.mkdir()
        proj.write(wd)
        body = {"kind": "diff", "shape": shape, "size": size, "plan_index": i, "annotate_options": annotate,
                "files": {f.name: f.text() for f in proj.files} if shape != "long" else {},
                "regen": {"tag": f"c15-diff-{i}-{shape}", "shape": shape, "size": size},
                "markers": {str(k): list(v) for k, v in proj.markers.items()} if shape != "long" else {}}
        pair = probe_pair(rep, wd, annotate, body)
        if pair is not None:
            analyse(rep, d, proj, wd, pair[0], pair[1], stats, body)
        stats["projects"] += 1
        stats[f"projects_{shape}"] += 1
        stats["markers_written"] += len(proj.markers)
        stats["markers_seen_in_teal"] += len(proj.seen)
        stats["source_lines_generated"] += sum(len(f.lines) for f in proj.files)
        stats["max_file_lines"] = max(stats.get("max_file_lines", 0), max(len(f.lines) for f in proj.files))
        timings.append((shape, size, round(time.time() - t0, 2)))
        if len(samples) < 4:
            samples.append({"shape": shape, "files": {f.name: len(f.lines) for f in proj.files},
                            "cfgs": proj.cfgs, "markers": len(proj.markers), "markers_in_teal": len(proj.seen)})
        shutil.rmtree(root, ignore_errors=True)
    return samples


def run(tier: str) -> int:
    import collections

    rep = CappedReport("C15", tier, level="proof")
    stats: dict = collections.Counter()
    st = check_proofs(["PyTealV.Proofs.C15"])
    rep.coverage.update(proof_coverage(st, "cd lean && lake build PyTealV.Proofs.C15", TRUSTED))
    if not st.ok:
        rep.violation("proof check failed: " + "; ".join(st.problems)[:800] + " " + st.log[-1500:],
                      {"kind": "proof", "problems": st.problems}, no_input=True)
    d = Driver()
    thorough = tier == "thorough"
    t0 = time.time()
    # (b) codecs
    check_vlq(rep, d, 6000 if thorough else 1500, 6000 if thorough else 1500, stats)
    check_r3_enc(rep, d, 6000 if thorough else 1200, stats)
    check_r3_dec(rep, d, 12000 if thorough else 2500, stats)
    check_internal(rep, d, 3000 if thorough else 600, stats)
    t_codec = time.time() - t0
    # (c) differential execution
    two = [ANNOTATE_ALL[0], ANNOTATE_ALL[4]]
    if thorough:
        plan = []
        for k in range(20):
            plan += [("single", 6 + k % 20, ANNOTATE_ALL), ("multi", 5 + k % 12, ANNOTATE_ALL),
                     ("router", 3 + k % 6, ANNOTATE_ALL)]
        plan += [("shadow", 6, ANNOTATE_ALL)] * 3 + [("sibling", 6, ANNOTATE_ALL), ("sibling", 10, two)]
        plan += [("long", 3000, ANNOTATE_ALL), ("long", 5000, ANNOTATE_ALL), ("long", 5000, two)]
    else:
        plan = [("single", 10, ANNOTATE_ALL), ("multi", 8, ANNOTATE_ALL), ("router", 4, ANNOTATE_ALL),
                ("single", 22, ANNOTATE_ALL), ("multi", 12, ANNOTATE_ALL), ("router", 6, ANNOTATE_ALL),
                ("shadow", 6, ANNOTATE_ALL), ("sibling", 6, two),
                ("long", 3000, two)]
    tmp_root = Path(tempfile.mkdtemp(prefix="c15_"))          # outside /repo and /verif
    timings: list = []
    try:
        samples = diff_round(rep, d, plan, stats, tmp_root, timings)
    finally:
        shutil.rmtree(tmp_root, ignore_errors=True)
        d.close()
    if stats["projects_shadow"] and not stats["misattributed_internal_path"]:
        rep.notes.append("the known finding c15-user-file-matches-internal-path did not reproduce in this run")
    if stats["marker_lines_checked"] == 0 or stats["annotated_lines_checked"] == 0:
        rep.violation("the differential part checked nothing (generator or probe broken)", {"kind": "self-check"},
                      no_input=True)
    evaluations = (stats["vlq_enc"] + stats["vlq_dec"] + stats["r3_enc"] + stats["r3_dec"] + stats["internal_cmp"]
                   + stats["diff_compilations_with_map"])
    rep.coverage.update({
        "evaluations": evaluations,
        "distinct_nontrivial": stats["vlq_big"] + stats["r3_roundtrips"] + stats["marker_lines_checked"],
        "rule": "(b) same input through the real codec functions and the Lean model, equality of results or of the "
                "exception class; real-code round trips on every well-formed input; (c) per generated project: TEAL "
                "byte-identical across {gate off, gate on without map, gate on with map x annotate options}, one entry "
                "per TEAL line in order, every entry inside an existing generated file, every marker constant's TEAL "
                "line attributed to the (file, line) where the generator wrote it, R3 JSON decoded by the Lean model, "
                "the real from_json and algosdk, annotated TEAL stripped / tokenised by the Lean tokeniser",
        "parts": {"a": "proofs", "b": "correspondence of the codecs (model vs real)",
                  "c": "differential execution (CPython frame capture is not modelled in Lean)"},
        "samples": samples,
        "distribution": {k: v for k, v in sorted(stats.items())},
        "timings_s": {"codecs": round(t_codec, 2), "projects": timings},
        "driver_queries": d.n,
        "violations_not_recorded_beyond_cap": rep.suppressed,
    })
    rep.assumptions += [
        "frame capture, `executing`, tabulate and the feature gate are exercised by execution only (part c); the Lean "
        "theorems cover the codecs, the map objects, the annotated-line shape and the frame *decision*",
        "generated programs put one marker constant per source line; attribution is checked for those lines only",
        "R3Map.wf / Table.wf state what a map must satisfy for the JSON round trip (non-empty index, entries exactly "
        "the index keys in order, source-less entries carry no line/column/name); every map produced by the compiler "
        "in part (c) is checked to satisfy it",
    ]
    return rep.finish()


def replay(path: str) -> int:
    import collections

    body = json.loads(Path(path).read_text())
    kind = body.get("kind")
    d = Driver()
    rep = Report("C15", "replay", level="proof")
    rep_path = None
    import pyteal.compiler.sourcemap as sm
    from pyteal.compiler.sourcemap import R3SourceMap

    print("what:", body.get("what"))
    if kind in ("vlq-enc", "vlq-roundtrip"):
        vs = [int(x) for x in body["values"]]
        real = sm._base64vlq_encode(*vs)
        print("values      :", vs)
        print("real encode :", repr(real))
        print("model encode:", repr(untx(d.ask("c15-vlq-enc " + ints_w(vs)))))
        print("real decode(real encode):", sm._base64vlq_decode(real))
        return 0 if sm._base64vlq_decode(real) == vs and untx(d.ask("c15-vlq-enc " + ints_w(vs))) == real else 1
    if kind == "vlq-dec":
        t = body["text"]
        try:
            real = "ok " + ints_w(sm._base64vlq_decode(t))
        except Exception as e:  # noqa: BLE001
            real = "err " + exc_name(e)
        model = d.ask("c15-vlq-dec " + tx(t))
        print("text:", repr(t), "\nreal :", real, "\nmodel:", model)
        return 0 if real == model else 1
    if kind in ("r3-enc", "r3-roundtrip", "r3-wf"):
        index, entries = body["index"], [tuple(e) for e in body["entries"]]
        print("index  :", index, "\nentries:", entries)
        model = d.ask(f"c15-r3-enc {index_w(index)} {entries_w(entries)}")
        print("model to_json:", model if not model.startswith("ok ") else json_of_answer(model))
        try:
            m = build_real_map(index, entries)
            j = m.to_json()
            print("real to_json :", j)
            back = R3SourceMap.from_json(j, add_right_bounds=False)
            print("real from_json(to_json): index", [list(c) for c in back.index], "entries", real_entries(back))
            ok = real_entries(back) == entries and [list(c) for c in back.index] == index
            print("round trip on the real code:", "same" if ok else "DIFFERENT")
            return 0 if ok and model.startswith("ok ") and json_of_answer(model)["mappings"] == j["mappings"] else 1
        except Exception as e:  # noqa: BLE001
            print("real:", exc_name(e), e)
            return 0 if model == "err " + exc_name(e) else 1
    if kind == "r3-dec":
        j = body["json"]
        model = d.ask(f"c15-r3-dec {strs_w(j['sources'])} {strs_w(j['names'])} {tx(j['mappings'])}")
        try:
            m = R3SourceMap.from_json(dict(j), add_right_bounds=False)
            real = f"ok {index_w([list(c) for c in m.index])} {entries_w(real_entries(m))}"
        except Exception as e:  # noqa: BLE001
            real = "err " + exc_name(e)
        print("json :", j, "\nreal :", real, "\nmodel:", model)
        return 0 if real == model else 1
    if kind == "internal":
        from types import SimpleNamespace
        from pyteal.stack_frame import StackFrame
        x = body["filename"]
        real = "1" if StackFrame._frame_info_is_pyteal(SimpleNamespace(filename=x)) else "0"
        model = d.ask("c15-internal " + tx(x))
        print("filename:", repr(x), "real:", real, "model:", model)
        return 0 if real == model else 1
    if kind == "diff":
        stats = collections.Counter()
        if body.get("files"):
            proj = ReplayProject(body)
        else:
            g = body["regen"]
            proj = Project(rng(g["tag"]), stats, g["shape"], g["size"])
        tmp_root = Path(tempfile.mkdtemp(prefix="c15_replay_"))
        wd = tmp_root / "app"
        wd.mkdir()
        proj.write(wd)
        if not (wd / "c15_probe.py").exists():
            (wd / "c15_probe.py").write_text(PROBE)
        rep2 = Report("C15", "replay", level="proof")
        rep2.known = []          # show known findings as what they are: failing inputs
        pair = probe_pair(rep2, wd, body.get("annotate_options") or ANNOTATE_ALL, {"kind": "diff-replay"})
        if pair is not None:
            analyse(rep2, d, proj, wd, pair[0], pair[1], stats, {"kind": "diff-replay"})
        print("project directory:", wd)
        print("checked:", {k: v for k, v in stats.items() if not k.startswith("shape_")})
        for v in rep2.violations:
            print("FAIL:", v["what"][:700])
            try:
                (VERIF / v["replay"]).unlink()
            except OSError:
                pass
        print("outcome on the current code:", f"{len(rep2.violations)} failing check(s)" if rep2.violations else "all checks pass")
        return 1 if rep2.violations else 0
    if kind in ("proof", "self-check"):
        st = check_proofs(["PyTealV.Proofs.C15"])
        print("proof status on the current tree:", "ok" if st.ok else st.problems)
        return 0 if st.ok else 1
    print("unknown replay kind", kind)
    return 2
