"""C12 - assembleConstants changes how constants load, not their values.

Proof level: theorems about the Lean model of `createConstantBlocks` (PyTealV.Proofs.C12) and the run-equality theorem
`assembled_run_eq` for every pair of TEAL programs accepted by the decidable check `checkAssembled` (PyTealV.Proofs.C12Run).
Correspondence: the same component lists through the real `createConstantBlocks` (direct calls and
the call made inside `compileTeal(..., assembleConstants=True)`, observed by wrapping the module
attribute at run time) and through the model: exact structural and textual equality, same exception
class.  Oracle on the real code: both real TEAL texts are decoded by the independent grammar
(`Avm.parse` through `c12-sites`), compared site by site, every block index is checked, the pair of parsed programs is
put through `checkAssembled` (`c12-tv`; the theorem then gives equal outcomes on every input), and both programs are
executed in the Lean AVM on generated contexts (`cmpt`) as a cross-check.
"""
from __future__ import annotations

import base64
import hashlib
import json
import re
import sys
import time
import warnings
from collections import Counter

import common
from common import Driver, Report, check_proofs, hexs, proof_coverage, rng

sys.path.insert(0, str(common.REPO))
warnings.simplefilter("ignore")  # `\q`-style escapes make CPython warn, not fail

import pyteal as pt  # noqa: E402
import pyteal.compiler.compiler as pt_compiler  # noqa: E402
import pyteal.compiler.constants as pt_constants  # noqa: E402
from algosdk import encoding  # noqa: E402
from pyteal.ir import Op, TealComponent, TealOp  # noqa: E402
from pyteal.ir.labelref import LabelReference  # noqa: E402

import gen  # noqa: E402
import recipes  # noqa: E402

# `C12-index-over-255` (an `intc 256` for more than 256 repeated constants) was repaired by commit 2a27358 of
# pyteal/compiler/constants.py; a block index above 255 is a plain violation now (no key)
OPS_BY_NAME = {str(o): o for o in Op}
CONST_OPS = ("int", "byte", "addr", "method")

# ----------------------------------------------------------------------------- components
# a component is ("op", name, [int|str ...]) or ("raw", text)


def enc_arg(a):
    if isinstance(a, bool):
        raise TypeError("bool argument")
    return "n%d" % a if isinstance(a, int) else "s" + hexs(a.encode("utf-8"))


def enc_comp(c):
    if c[0] == "raw":
        return "r." + hexs(c[1].encode("utf-8"))
    return ".".join(["o", hexs(c[1].encode("utf-8"))] + [enc_arg(a) for a in c[2]])


def dec_arg(w):
    if w[0] == "n":
        return int(w[1:])
    return "" if w[1:] == "-" else bytes.fromhex(w[1:]).decode("utf-8")


def dec_comp(w):
    parts = w.split(".")
    if parts[0] == "r":
        return ("raw", "" if parts[1] == "-" else bytes.fromhex(parts[1]).decode("utf-8"))
    name = "" if parts[1] == "-" else bytes.fromhex(parts[1]).decode("utf-8")
    return ("op", name, [dec_arg(a) for a in parts[2:]])


def typed(c):
    """comparison key that keeps int and str arguments apart"""
    if c[0] == "raw":
        return c
    return ("op", c[1], tuple((type(a).__name__, a) for a in c[2]))


def sha512_256(b: bytes) -> bytes:
    try:
        return hashlib.new("sha512_256", b).digest()
    except ValueError:  # OpenSSL build without it
        return encoding.checksum(b)


def sha_table(comps):
    """the SHA-512/256 values the model needs (inputs computed here, hashes by the SDK's function)"""
    t = {}
    for c in comps:
        if c[0] != "op" or len(c[2]) != 1 or not isinstance(c[2][0], str):
            continue
        s = c[2][0]
        if c[1] == "method" and len(s) >= 1:
            t[s[1:-1].encode("utf-8")] = None
        if c[1] == "addr" and len(s) == 58:
            try:
                t[base64.b32decode(s + "======")[:32]] = None
            except Exception:  # noqa: BLE001
                pass
    for k in t:
        t[k] = sha512_256(k)
    return ",".join(hexs(k) + ":" + hexs(v) for k, v in t.items()) or "-"


class RawComponent(TealComponent):
    """a non-TealOp component (label, comment ...) that assembles to a fixed text"""

    def __init__(self, text):
        super().__init__(None)
        self.text = text

    def assemble(self):
        return self.text

    def getSlots(self):
        return []

    def assignSlot(self, slot, location):
        pass

    def getSubroutines(self):
        return []

    def resolveSubroutine(self, subroutine, label):
        pass

    def __repr__(self):
        return "RawComponent({!r})".format(self.text)

    def __hash__(self):
        return hash(self.text)

    def __eq__(self, other):
        return isinstance(other, RawComponent) and other.text == self.text


def to_real(comps):
    out = []
    for c in comps:
        if c[0] == "raw":
            out.append(RawComponent(c[1]))
        else:
            out.append(TealOp(None, OPS_BY_NAME[c[1]], *c[2]))
    return out


def from_real(components):
    out = []
    for t in components:
        if isinstance(t, TealOp):
            args = []
            for a in t.args:
                if isinstance(a, LabelReference):
                    args.append(a.getLabel())
                elif isinstance(a, (int, str)) and not isinstance(a, bool):
                    args.append(a)
                else:
                    args.append(str(a))
            out.append(("op", str(t.getOp()), args))
        else:
            out.append(("raw", t.assemble()))
    return out


def exc_name(e):
    n = type(e).__name__
    return "binascii.Error" if n == "Error" and type(e).__module__ == "binascii" else n


def real_ccb(comps):
    """the real createConstantBlocks on a component list"""
    try:
        out = pt_constants.createConstantBlocks(to_real(comps))
    except RecursionError:
        raise
    except Exception as e:  # noqa: BLE001
        return ("err", exc_name(e))
    return ("ok", from_real(out), [o.assemble() for o in out])


def model_lines(comps):
    table = sha_table(comps)
    body = " ".join(enc_comp(c) for c in comps)
    return f"c12-ccb {table} {body}".rstrip(), f"c12-text {table} {body}".rstrip()


def parse_model(ans_ccb, ans_text):
    w = ans_ccb.split(" ")
    if w[0] == "err":
        return ("err", w[1])
    if w[0] != "ok":
        raise common.ToolFailure("c12-ccb: " + ans_ccb[:300])
    t = ans_text.split(" ")
    if t[0] != "ok":
        raise common.ToolFailure("c12-text: " + ans_text[:300])
    lines = ["" if x == "-" else bytes.fromhex(x).decode("utf-8") for x in t[1:]]
    return ("ok", [dec_comp(x) for x in w[1:]], lines)


def same(real, model):
    if real[0] != model[0]:
        return False
    if real[0] == "err":
        return real[1] == model[1]
    return [typed(c) for c in real[1]] == [typed(c) for c in model[1]] and real[2] == model[2]


# ----------------------------------------------------------------------------- oracle on TEAL text


def tmpl_value(name, kind):
    h = hashlib.sha256((kind + ":" + name).encode()).digest()
    if kind == "int":
        return str(2 ** 40 + int.from_bytes(h[:4], "big"))
    return "0x" + h[:12].hex()


TM = re.compile(r"^TMPL_")


def substitute_templates(text):
    """give every placeholder a concrete value (the same one in both programs), token-wise"""
    out = []
    for ln in text.split("\n"):
        w = ln.split(" ")
        op = w[0]
        if op in ("int", "pushint") and len(w) > 1 and TM.match(w[1]):
            ln = " ".join([op, tmpl_value(w[1], "int")])
        elif op in ("byte", "pushbytes") and len(w) > 1 and TM.match(w[1]):
            ln = " ".join([op, tmpl_value(w[1], "bytes")])
        elif op == "addr" and len(w) > 1 and TM.match(w[1]):
            ln = " ".join(["byte", tmpl_value(w[1], "bytes")])
        elif op == "intcblock":
            ln = " ".join([op] + [tmpl_value(x, "int") if TM.match(x) else x for x in w[1:]])
        elif op == "bytecblock":
            ln = " ".join([op] + [tmpl_value(x, "bytes") if TM.match(x) else x for x in w[1:]])
        out.append(ln)
    return "\n".join(out)


METHOD_LINE = re.compile(r'^method "(.*)"', re.M)


def selectors_of(text):
    t = {}
    for m in METHOD_LINE.finditer(text):
        sig = m.group(1).encode("utf-8")
        t[sig] = sha512_256(sig)[:4]
    return t


def sel_table(sels):
    return ",".join(hexs(k) + ":" + hexs(v) for k, v in sels.items()) or "-"


class SiteOracle:
    """site-by-site comparison of two TEAL texts through the independent grammar"""

    def __init__(self, drv):
        self.drv = drv
        self.sites = 0
        self.block_refs = 0
        self.max_index = -1
        self.tv_ok = 0

    def tv(self, text_a, text_b):
        """translation validation: `checkAssembled` on the two parsed programs (run equality then follows from
        the theorem PyTealV.Proofs.C12Run.assembled_run_eq); returns 'ok K' | 'no' | 'perr ...'"""
        a, b = substitute_templates(text_a), substitute_templates(text_b)
        sels = sel_table(selectors_of(a))
        ans = self.drv.ask(f"c12-tv {sels} {hexs(a.encode('utf-8'))} {hexs(b.encode('utf-8'))}")
        if ans.startswith("ok"):
            self.tv_ok += 1
        return ans

    def check(self, text_a, text_b):
        """returns (verdict, detail): 'ok' | 'index' (only an index >= 256) | 'bad' | 'skip'"""
        a, b = substitute_templates(text_a), substitute_templates(text_b)
        sels = sel_table(selectors_of(a))
        ra = self.drv.ask(f"c12-sites {sels} {hexs(a.encode('utf-8'))}").split(" ")
        rb = self.drv.ask(f"c12-sites {sels} {hexs(b.encode('utf-8'))}").split(" ")
        if ra[0] != "ok":
            return "skip", "source text not in the grammar: " + " ".join(ra)[:200]
        if rb[0] != "ok":
            return "bad", "assembled text rejected by the TEAL grammar: " + " ".join(rb)[:300]
        sa, sb = ra[2:], rb[2:]
        if len(sa) != len(sb):
            return "bad", f"{len(sa)} constant loads before, {len(sb)} after"
        over = None
        for i, (x, y) in enumerate(zip(sa, sb)):
            self.sites += 1
            val, _, idx = y.partition("@")
            if "@" in x:
                return "skip", "source already uses constant blocks"
            if idx:
                self.block_refs += 1
                self.max_index = max(self.max_index, int(idx))
            if val == "!oob":
                return "bad", f"site {i}: block reference {idx or '(intc_k/bytec_k form)'} points outside the declared block (the pseudo-op form loads {x})"
            if val != x:
                return "bad", f"site {i}: loads {val}, the pseudo-op form loads {x}"
            if idx and int(idx) > 255 and over is None:
                over = f"site {i}: `{'intc' if x[0] == 'i' else 'bytec'} {idx}` does not fit the one-byte immediate"
        if over:
            return "index", over
        return "ok", ""


# ----------------------------------------------------------------------------- synthetic op lists

ENUMS = {"NoOp": 0, "OptIn": 1, "CloseOut": 2, "ClearState": 3, "UpdateApplication": 4, "DeleteApplication": 5,
         "unknown": 0, "pay": 1, "keyreg": 2, "acfg": 3, "axfer": 4, "afrz": 5, "appl": 6}
INT_POOL = [0, 1, 2, 3, 4, 5, 6, 7, 100, 126, 127, 128, 129, 255, 256, 1000, 65535, 2 ** 32, 2 ** 63, 2 ** 64 - 2, 2 ** 64 - 1]
SIGS = ["add(uint64,uint64)uint64", "f()void", "transfer(address,uint64)bool", "a(byte[],(uint8,string))string", "x()uint8",
        # hand-written, not canonical ARC-4 spellings: the selector is the hash of the text AS WRITTEN
        "add(uint64, uint64)uint64", " f()void", "f() void", "f()void ", "a\tb()void", "f(uint8 ,uint8)void"]


def b32(b, pad):
    s = base64.b32encode(b).decode()
    return s if pad else s.rstrip("=")


def byte_spellings(r, b):
    """every way the same bytes can be written as a `byte` immediate (plus addr/method when they fit)"""
    from pyteal.util import escapeStr
    out = [("byte", "0x" + b.hex()), ("byte", "0x" + b.hex().upper()), ("byte", "base64(" + base64.b64encode(b).decode() + ")"),
           ("byte", "base32(" + b32(b, True) + ")"), ("byte", "base32(" + b32(b, False) + ")")]
    try:
        s = b.decode("utf-8")
        out.append(("byte", escapeStr(s)))
        if all(32 <= c < 127 and c not in (34, 92) for c in b):
            out.append(("byte", '"' + s + '"'))
    except UnicodeDecodeError:
        pass
    if len(b) == 32:
        out.append(("addr", encoding.encode_address(b)))
    return out


def gen_values(r, regime):
    """distinct constant values with their spellings: list of (kind, [(opname, arg) ...])"""
    vals = []
    n_int, n_byte = {"small": (r.randrange(0, 6), r.randrange(0, 6)), "ties": (r.randrange(3, 9), r.randrange(3, 9)),
                     "medium": (r.randrange(5, 40), r.randrange(5, 40)),
                     "bigint": (r.randrange(257, 330), r.randrange(0, 4)), "bigbyte": (r.randrange(0, 4), r.randrange(257, 330)),
                     "bigboth": (r.randrange(257, 300), r.randrange(257, 300))}[regime]
    seen = set()
    while len([v for v in vals if v[0] == "int"]) < n_int:
        c = r.random()
        if c < 0.1:
            name = "TMPL_" + r.choice(["A", "B", "FEE", "X1"])
            if ("t", name) in seen:
                continue
            seen.add(("t", name))
            vals.append(("int", [("int", name)]))
            continue
        n = r.choice(INT_POOL) if c < 0.6 else (r.randrange(0, 300) if c < 0.85 else r.randrange(0, 2 ** 64))
        if regime.startswith("big") and c >= 0.3:
            n = r.randrange(0, 5000)
        if n in seen:
            continue
        seen.add(n)
        sp = [("int", n)] + [("int", k) for k, v in ENUMS.items() if v == n]
        vals.append(("int", sp))
    seenb = set()
    while len([v for v in vals if v[0] == "byte"]) < n_byte:
        c = r.random()
        if c < 0.08:
            name = "TMPL_" + r.choice(["A", "KEY", "Y", "ADDR"])
            if name in seenb:
                continue
            seenb.add(name)
            vals.append(("byte", [("byte", name), ("addr", name)]))
            continue
        if c < 0.16:
            sig = r.choice(SIGS)
            sel = sha512_256(sig.encode())[:4]
            if sel in seenb:
                continue
            seenb.add(sel)
            vals.append(("byte", [("method", '"' + sig + '"'), ("byte", "0x" + sel.hex())]))
            if sig.encode() not in seenb and r.random() < 0.7:
                # the same literal text under another opcode denotes other bytes (`byte "f()void"` is the text itself)
                seenb.add(sig.encode())
                vals.append(("byte", [("byte", '"' + sig + '"'), ("byte", "0x" + sig.encode().hex())]))
            continue
        if c < 0.26:
            b = bytes(r.randrange(256) for _ in range(32))
        elif c < 0.6:
            b = "".join(r.choice("ab c\"\\/;\n\té☃xyzKEY01") for _ in range(r.choice([0, 1, 1, 2, 3, 8]))).encode("utf-8")
        else:
            b = bytes(r.randrange(256) for _ in range(r.choice([0, 1, 2, 3, 4, 8, 16])))
        if regime.startswith("big") and c >= 0.3:
            b = r.randrange(0, 2 ** 20).to_bytes(3, "big")
        if b in seenb:
            continue
        seenb.add(b)
        vals.append(("byte", byte_spellings(r, b)))
    return vals


OTHERS = [("op", "pop", []), ("op", "log", []), ("op", "+", []), ("op", "dup", []), ("raw", "l0:"), ("raw", "main_l3:"),
          ("op", "txn", ["Sender"]), ("op", "load", [3]), ("op", "global", ["ZeroAddress"])]
WEIRD = [("op", "intc_0", []), ("op", "intc", [7]), ("op", "bytec", [300]), ("op", "intcblock", [1, 2]), ("op", "pushint", [5]),
         ("op", "bytecblock", ["0x00"]), ("op", "b", ["l0"])]


def gen_oplist(r, regime):
    vals = gen_values(r, regime)
    sites = []
    for kind, sp in vals:
        if regime == "ties":
            k = r.choice([1, 2, 2, 2, 3, 3])
        elif regime.startswith("big"):
            k = r.choice([2, 2, 2, 3]) if r.random() < 0.95 else r.choice([1, 1, 5, 8])
        else:
            k = r.choice([1, 1, 2, 2, 3, 5, 9])
        for _ in range(k):
            name, arg = r.choice(sp)
            sites.append(("op", name, [arg]))
    r.shuffle(sites)
    weird = regime in ("small", "medium") and r.random() < 0.15
    out = []
    for s in sites:
        out.append(s)
        c = r.random()
        if c < 0.3:
            out.append(r.choice(OTHERS))
        elif weird and c < 0.4:
            out.append(r.choice(WEIRD))
    return out, weird


MALFORMED = [
    ("op", "int", []), ("op", "int", [1, 2]), ("op", "int", ["payy"]), ("op", "int", ["tmpl_x"]), ("op", "byte", []),
    ("op", "byte", [5]), ("op", "byte", ["abc"]), ("op", "byte", ['"']), ("op", "byte", ['"\\xff"']), ("op", "byte", ['"é"']),
    ("op", "byte", ['"\\q\\101\\u0041\\x41\\\n"']), ("op", "byte", ["0xabc"]), ("op", "byte", ["0x a b"]), ("op", "byte", ["0x ab\tcd "]),
    ("op", "byte", ["base32(A)"]), ("op", "byte", ["base32(ME=junk)"]), ("op", "byte", ["base32(me)"]), ("op", "byte", ["base64(YQ)"]),
    ("op", "byte", ["base64(Y!Q==zz)"]), ("op", "byte", ["base64(YQ=a=)"]), ("op", "byte", ["base64("]), ("op", "byte", ["base32()"]),
    ("op", "addr", [""]), ("op", "addr", ["A" * 58]), ("op", "addr", ["A" * 57]), ("op", "addr", ["a" * 58]), ("op", "addr", ["A" * 57 + "="]),
    ("op", "addr", [5]), ("op", "method", ['"']), ("op", "method", ["f()void"]), ("op", "method", ['"f()void']), ("op", "method", [""]),
    ("op", "method", ['"a\\x41()void"']), ("op", "byte", ['"a\\"b"']), ("op", "byte", ['"\\\\"x"']), ("op", "int", [-5]), ("op", "int", [2 ** 70]),
]


# ----------------------------------------------------------------------------- whole programs


class Capture:
    """observes the call `compileTeal` makes to createConstantBlocks (module attribute wrapped at run time)"""

    def __init__(self):
        self.calls = []
        self.orig = pt_compiler.createConstantBlocks

    def __enter__(self):
        def wrapper(ops):
            res = self.orig(ops)
            self.calls.append((from_real(ops), from_real(res)))
            return res
        pt_compiler.createConstantBlocks = wrapper
        return self

    def __exit__(self, *a):
        pt_compiler.createConstantBlocks = self.orig


def const_pool(r, version, mode, big):
    """PyTeal constructors for constants, several spellings of the same value on purpose"""
    ints, byts = [], []
    for n in r.sample(INT_POOL, r.randrange(2, 8)):
        ints.append(lambda n=n: pt.Int(n))
    ints += [lambda: pt.OnComplete.OptIn, lambda: pt.TxnType.Payment, lambda: pt.Int(1), lambda: pt.OnComplete.NoOp, lambda: pt.TxnType.ApplicationCall,
             lambda: pt.Int(6)]
    if r.random() < 0.4:
        ints.append(lambda: pt.Tmpl.Int("TMPL_FEE"))
    if big:
        base = r.randrange(0, 3000)
        for i in range(r.randrange(258, 300)):
            ints.append(lambda i=i: pt.Int(base + i))
    a = bytes(r.randrange(256) for _ in range(r.choice([1, 2, 8])))
    byts += [lambda: pt.Bytes("a"), lambda: pt.Bytes("base16", "61"), lambda: pt.Bytes("base16", "0x61"), lambda: pt.Bytes("base64", "YQ=="),
             lambda: pt.Bytes("base32", "ME======"), lambda: pt.Bytes("base32", "ME"), lambda: pt.Bytes(b"a"), lambda: pt.Bytes(a),
             lambda: pt.Bytes("base16", a.hex()), lambda: pt.Bytes("é☃\"\\\n"), lambda: pt.Bytes("é☃\"\\\n".encode()), lambda: pt.Bytes(""),
             lambda: pt.Bytes("k0"), lambda: pt.Bytes("k1")]
    pk = bytes(r.randrange(256) for _ in range(32))
    byts += [lambda: pt.Addr(encoding.encode_address(pk)), lambda: pt.Bytes(pk), lambda: pt.Global.zero_address() if False else pt.Bytes(pk)]
    # an address whose TEXT begins with the letters of a template placeholder (`TMPL...`, no underscore: it is an ordinary address)
    pk2 = bytes([0x9B, 0x1E, 0xB0 | r.randrange(16)]) + bytes(r.randrange(256) for _ in range(29))
    assert encoding.encode_address(pk2).startswith("TMPL")
    byts += [lambda: pt.Addr(encoding.encode_address(pk2)), lambda: pt.Bytes(pk2)]
    if version >= 4 and mode == "app":
        sig = r.choice(SIGS)
        sel = sha512_256(sig.encode())[:4]
        byts += [lambda: pt.MethodSignature(sig), lambda: pt.Bytes(sel), lambda: pt.Bytes(sig)]
    if r.random() < 0.4:
        byts += [lambda: pt.Tmpl.Bytes("TMPL_KEY"), lambda: pt.Tmpl.Addr("TMPL_KEY")]
    if big and r.random() < 0.5:
        for i in range(r.randrange(258, 290)):
            byts.append(lambda i=i: pt.Bytes(i.to_bytes(2, "big")))
    return ints, byts


def build_pool_program(r, version, mode, big):
    ints, byts = const_pool(r, version, mode, big)
    stmts = []
    nsites = 0
    target = (2 * (len(ints) + len(byts)) + 10) if big else r.randrange(4, 40)
    order_i = [f for f in ints for _ in range(2)] if big else []
    order_b = [f for f in byts for _ in range(2)] if big else []
    r.shuffle(order_i)
    r.shuffle(order_b)

    def nxt_i():
        return order_i.pop()() if order_i else r.choice(ints)()

    def nxt_b():
        return order_b.pop()() if order_b else r.choice(byts)()

    while nsites < target or order_i or order_b:
        c = r.random()
        if big:
            c = c * 0.9
        if c < 0.45:
            k = r.choice([7, 8, 9]) if big else r.choice([1, 2, 3])
            e = pt.BitwiseOr(nxt_i(), nxt_i())
            for _ in range(k - 1):
                e = pt.BitwiseOr(e, nxt_i())
            nsites += k + 1
            if mode == "app":
                stmts.append(pt.App.globalPut(pt.Bytes(r.choice(["k0", "k1", "k2"])), e))
                nsites += 1
            else:
                stmts.append(pt.Pop(e))
        elif c < 0.9:
            k = r.choice([7, 8, 9]) if big else r.choice([1, 2, 3])
            e = pt.Concat(*[nxt_b() for _ in range(k + 1)])
            nsites += k + 1
            if mode == "app" and version >= 5 and r.random() < 0.6:
                stmts.append(pt.Log(e))
            elif mode == "app":
                stmts.append(pt.App.globalPut(pt.Bytes(r.choice(["k0", "k1", "k2"])), e))
                nsites += 1
            else:
                stmts.append(pt.Pop(e))
        else:
            stmts.append(pt.If(nxt_i() == nxt_i()).Then(pt.Pop(nxt_b())))
            nsites += 3
    stmts.append(pt.Return(pt.Int(1)))
    return pt.Seq(*stmts)


def compile_pair(ast_builder, mode, version):
    """compile the same program twice (fresh objects each time); returns dict or None when the plain compile fails"""
    own = (pt.TealInputError, pt.TealCompileError, pt.TealTypeError, pt.TealInternalError)
    try:
        plain = pt.compileTeal(ast_builder(), recipes.PT_MODE[mode], version=version, assembleConstants=False)
    except own as e:
        return {"skip": "plain compile: " + type(e).__name__}
    except RecursionError:  # deep block chains overflow the compiler's recursive passes (not this property)
        return {"skip": "plain compile: RecursionError"}
    with Capture() as cap:
        try:
            asm = pt.compileTeal(ast_builder(), recipes.PT_MODE[mode], version=version, assembleConstants=True)
        except own as e:
            return {"plain": plain, "asm_err": type(e).__name__ + ": " + str(e)[:200], "calls": cap.calls}
        except Exception as e:  # noqa: BLE001 - the pass itself crashed (a refusal of its own, never a tool failure of this harness)
            return {"plain": plain, "asm_err": "crash " + type(e).__name__ + ": " + str(e)[:200], "calls": cap.calls}
    return {"plain": plain, "asm": asm, "calls": cap.calls}


# ----------------------------------------------------------------------------- the check


class Run:
    def __init__(self, tier):
        self.tier = tier
        self.rep = Report("C12", tier, level="proof")
        self.drv = Driver()
        self.oracle = SiteOracle(self.drv)
        self.evals = 0
        self.nontrivial = set()
        self.dist = Counter()
        self.samples = []
        self.mismatches = 0
        self.index_over = 0
        self.exec_stats = Counter()

    # -- one component list: real vs model, then the oracle on the real output
    def check_oplist(self, comps, tag, oracle=True):
        self.evals += 1
        real = real_ccb(comps)
        a, b = [self.drv.ask(l) for l in model_lines(comps)]
        model = parse_model(a, b)
        self.dist[tag] += 1
        if model == ("err", "UNMODELLED"):
            self.dist["unmodelled"] += 1
            return
        nconst = sum(1 for c in comps if c[0] == "op" and c[1] in CONST_OPS)
        if real[0] == "ok":
            key = hashlib.sha256("\n".join(real[2]).encode()).hexdigest()[:16]
            if nconst >= 2:
                self.nontrivial.add(key)
            first = real[2][0] if real[2] else ""
            self.dist["with-intcblock" if first.startswith("intcblock") else "no-intcblock"] += 1
            if any(l.startswith("bytecblock") for l in real[2][:2]):
                self.dist["with-bytecblock"] += 1
            if len(self.samples) < 6 and nconst >= 3 and len(comps) < 12:
                self.samples.append({"in": [render(c) for c in comps], "out": real[2]})
        else:
            self.dist["raises:" + real[1]] += 1
        verdict, detail = "ok", ""
        if real[0] == "ok" and oracle:
            text_a = "\n".join(render(c) for c in comps)
            text_b = "\n".join(real[2])
            verdict, detail = self.oracle.check(text_a, text_b)
            self.dist["oracle:" + verdict] += 1
            if verdict in ("ok", "index"):
                tvr = self.oracle.tv(text_a, text_b)
                self.dist["tv:" + tvr.split(" ")[0]] += 1
                if tvr == "no":
                    verdict, detail = "bad", "the output is not the input with constants moved into blocks (checkAssembled rejects the pair)"
        replay = {"kind": "oplist", "tag": tag, "comps": [list(c) for c in comps]}
        if verdict == "bad":
            self.rep.violation(f"createConstantBlocks changes a constant: {detail}", replay)
        elif verdict == "index":
            self.index_over += 1
            self.rep.violation(f"createConstantBlocks emits a block index > 255: {detail}", replay)
        if not same(real, model):
            self.mismatches += 1
            what = f"real createConstantBlocks and the Lean model disagree ({tag}): " + describe_diff(real, model)
            if real[0] == "err" and model[0] == "ok":
                # a concrete failing input: the option makes the compilation of these ops die (the model, proven to keep every
                # constant, assembles them), so the constants are not loaded at all
                self.rep.violation(f"createConstantBlocks raises {real[1]} on an op list whose constants can be assembled ({tag}): " + what, replay)
            elif verdict not in ("bad",):
                # no failing input of the property itself was found for this case
                self.rep.violation(what, replay, no_input=True)

    # -- whole program: both compiles, the captured call vs the model, oracle incl. execution
    def check_program(self, builder, mode, version, tag, rctx, nctx=2):
        self.evals += 1
        self.dist[tag] += 1
        self.dist[f"v{version}"] += 1
        res = compile_pair(builder, mode, version)
        if "skip" in res:
            self.dist["program-skip"] += 1
            self.dist["skip:" + res["skip"]] += 1
            return None
        replay_base = {"kind": "program", "tag": tag, "mode": mode, "version": version}
        if "asm_err" in res:
            self.dist["assemble-raises"] += 1
            self.rep.violation("compileTeal(assembleConstants=True) fails where the plain compile succeeds: " + res["asm_err"],
                               dict(replay_base, plain=res["plain"]), no_input=False)
            return res
        if len(res["calls"]) != 1:
            self.rep.violation(f"createConstantBlocks called {len(res['calls'])} times by compileTeal", dict(replay_base, plain=res["plain"]),
                               no_input=True)
            return res
        comps, real_out = res["calls"][0]
        a, b = [self.drv.ask(l) for l in model_lines(comps)]
        model = parse_model(a, b)
        lines = res["asm"].split("\n")
        npragma = 0
        while npragma < len(lines) and lines[npragma].startswith("#pragma"):
            npragma += 1
        body_text = "\n".join(lines[npragma:])
        body = [x[1] if x[0] == "raw" else render(x) for x in real_out]
        verdict, detail = self.oracle.check(res["plain"], res["asm"])
        self.dist["oracle:" + verdict] += 1
        if verdict in ("ok", "index"):
            tvr = self.oracle.tv(res["plain"], res["asm"])
            self.dist["tv:" + tvr.split(" ")[0]] += 1
            if tvr == "no":
                verdict, detail = "bad", "the assembled program is not the plain one with constants moved into blocks (checkAssembled rejects the pair)"
        replay = dict(replay_base, plain=res["plain"], asm=res["asm"], comps=[list(c) for c in comps])
        nconst = sum(1 for c in comps if c[0] == "op" and c[1] in CONST_OPS)
        if nconst >= 2:
            self.nontrivial.add(hashlib.sha256(res["asm"].encode()).hexdigest()[:16])
        if verdict == "bad":
            self.rep.violation(f"assembleConstants=True changes a constant (v{version}): {detail}", replay)
        elif verdict == "index":
            self.index_over += 1
            self.rep.violation(f"assembleConstants=True emits a block index > 255 (v{version}): {detail}", replay)
        ok_model = model[0] == "ok" and [typed(c) for c in model[1]] == [typed(c) for c in real_out] and model[2] == body and "\n".join(model[2]) == body_text and npragma >= 1
        if not ok_model:
            self.mismatches += 1
            if verdict != "bad":
                self.rep.violation(f"compileTeal(assembleConstants=True) and the Lean model disagree ({tag}, v{version}): "
                                   + describe_diff(("ok", real_out, body), model), replay, no_input=True)
        # differential execution of the two real programs
        if verdict in ("ok", "index"):
            self.execute(res["plain"], res["asm"], mode, version, rctx, nctx, replay)
        return res

    def execute(self, plain, asm, mode, version, rctx, nctx, replay):
        a, b = substitute_templates(plain), substitute_templates(asm)
        for sig, sel in selectors_of(a).items():
            self.drv.ask(f"sel {hexs(sig)} {hexs(sel)}")
        ra = self.drv.ask("teal A " + hexs(a.encode("utf-8")))
        rb = self.drv.ask("teal B " + hexs(b.encode("utf-8")))
        if not ra.startswith("ok") or not rb.startswith("ok"):
            self.exec_stats["unparsed"] += 1
            return
        for _ in range(nctx):
            ctx = recipes.gen_ctx(rctx, mode, version)
            rc = self.drv.ask("ctx C " + recipes.render_ctx(ctx))
            if rc != "ok":
                raise common.ToolFailure("ctx: " + rc)
            ans = self.drv.ask("cmpt A B C 200000")
            self.exec_stats[ans.split(" ")[0] + ":" + (ans.split(" ")[1] if " " in ans else "")] += 1
            if ans.startswith("differ"):
                self.rep.violation(f"the two programs behave differently (v{version}): {ans[:300]}", dict(replay, ctx=recipes.render_ctx(ctx)))
                return


def render(c):
    if c[0] == "raw":
        return c[1]
    return " ".join([c[1]] + [str(a) for a in c[2]])


def describe_diff(real, model):
    if real[0] != model[0] or real[0] == "err":
        return f"real {real[0]} {real[1] if real[0] == 'err' else ''} / model {model[0]} {model[1] if model[0] == 'err' else ''}"
    for i, (x, y) in enumerate(zip(real[2], model[2])):
        if x != y:
            k = next((j for j, (p, q) in enumerate(zip(x, y)) if p != q), min(len(x), len(y)))
            lo = max(0, k - 30)
            return f"line {i} col {k}: real `{x[lo:k + 40]}` model `{y[lo:k + 40]}`"
    if len(real[2]) != len(model[2]):
        return f"{len(real[2])} lines vs {len(model[2])}"
    for i, (x, y) in enumerate(zip(real[1], model[1])):
        if typed(x) != typed(y):
            return f"component {i}: real {x} model {y}"
    return "?"


# regression input of the retired finding C12-index-over-255 (= PyTealV.Proofs.C12.cexOps): 257 distinct integers,
# each loaded twice; before commit 2a27358 line 257 of the output was `intc 256 // 1256`
CEX = [("op", "int", [1000 + i]) for i in range(257)] * 2
# the same for the byte block, with unequal frequencies (the three-fold ones sort first): 300 distinct values
CEX_BYTES = [("op", "byte", ["0x%04x" % i]) for i in range(300)] * 2 + [("op", "byte", ["0x%04x" % i]) for i in range(280, 300)]


def block_lines_ok(lines):
    """at most 256 entries in each declared block, no `intc`/`bytec` immediate above 255 (text level, independent of the oracle)"""
    for ln in lines:
        w = ln.split(" ")
        if w[0] in ("intcblock", "bytecblock") and len(w) - 1 > 256:
            return f"`{w[0]}` with {len(w) - 1} entries"
        if w[0] in ("intc", "bytec") and len(w) > 1 and w[1].isdigit() and int(w[1]) > 255:
            return f"`{w[0]} {w[1]}`"
    return None


def literal_fuzz(run, r, n):
    alpha = ['a', 'b', '\\', '"', 'x', '4', '1', '0', '7', 'n', 't', 'u', 'U', 'N', '{', '}', 'é', '\n', '=', ' ', 'A', 'Q', 'Y', 'M', 'E', '/', '+',
             '-', '_', '8', '9', '\\x', '\\"', '\\\\', 'ÿ', '\x80', '☃', '(', ')', '\\xc3\\xa9', '\t']
    for _ in range(n):
        body = ''.join(r.choice(alpha) for _ in range(r.randrange(0, 9)))
        form = r.choice(['q', 'q', 'q', 'hex', 'b32', 'b64', 'raw', 'b32', 'b64'])
        if form == 'q':
            s = '"' + body + '"'
        elif form == 'hex':
            s = '0x' + ''.join(r.choice('0123456789abcdefABCDEF  g\t') for _ in range(r.randrange(0, 7)))
        elif form == 'b32':
            s = 'base32(' + ''.join(r.choice('ABCDMEZ234567=a1 ') for _ in range(r.randrange(0, 10))) + r.choice([')', ')', ')', ''])
        elif form == 'b64':
            s = 'base64(' + ''.join(r.choice('ABCDYQabz019+/=-_ !') for _ in range(r.randrange(0, 10))) + r.choice([')', ')', ')', ''])
        else:
            s = body
        k = r.choice([1, 2, 2])
        run.check_oplist([("op", "byte", [s])] * k + ([("op", "byte", ['"zz"'])] if r.random() < 0.3 else []), "literal-fuzz", oracle=False)


def run(tier: str) -> int:
    R = Run(tier)
    rep = R.rep
    t_sec = [time.time()]
    # the helper lemmas (C12Lemmas) are imported by C12: they are built with it, grepped for escape hatches here,
    # and their axioms are part of the `#print axioms` closure of every theorem that uses them
    st = check_proofs(["PyTealV.Proofs.C12", "PyTealV.Proofs.C12Run"], extra_files=[common.LEAN / "PyTealV" / "Proofs" / "C12Lemmas.lean", common.LEAN / "PyTealV" / "Models" / "Constants.lean",
                                  common.LEAN / "PyTealV" / "Models" / "ConstantsTV.lean"])
    rep.coverage.update(proof_coverage(st, "cd lean && lake build PyTealV.Proofs.C12 PyTealV.Proofs.C12Run", [
        "Lean 4 kernel; axioms propext, Classical.choice, Quot.sound",
        "the model PyTealV.Models.Constants is a hand transcription of pyteal/compiler/constants.py + util.unescapeStr/correctBase32Padding "
        "(tied to the code by this check's correspondence runs, not by proof)",
        "CPython codecs (unicode-escape, utf-8, bytes.fromhex, base64.b32decode/b64decode) and algosdk.decode_address as transcribed in the model",
        "SHA-512/256 is an uninterpreted parameter of the model",
        "TEAL literal grammar / AVM semantics of lean/PyTealV/Avm (oracle side)",
    ]))
    if not st.ok:
        rep.violation("C12 proofs do not build / are not axiom-clean: " + "; ".join(st.problems)[:400],
                      {"kind": "proof", "problems": st.problems, "log": st.log[-2000:]}, no_input=True)
    quick = tier == "quick"

    def lap(name):
        now = time.time()
        rep.notes.append(f"section {name}: {now - t_sec[0]:.1f}s")
        t_sec[0] = now
    lap("proofs")
    # programs with several hundred constant loads in one routine overflow the compiler's recursive block
    # passes at the default limit (a separate, known defect); the limit is raised for this process only
    sys.setrecursionlimit(max(sys.getrecursionlimit(), 20000))

    # 1. regression: the input of the retired finding (theorem index_fits_regression) replayed on the real code.
    #    An index above 255 or a block of more than 256 entries coming back is a violation (no key).
    for name, cex in (("int", CEX), ("byte", CEX_BYTES)):
        real = real_ccb(cex)
        bad = block_lines_ok(real[2]) if real[0] == "ok" else "raises " + real[1]
        if bad:
            rep.violation(f"regression of 2a27358 (more than 256 repeated {name} constants): createConstantBlocks emits {bad}",
                          {"kind": "oplist", "tag": "regression-" + name, "comps": [list(c) for c in cex]})
        R.check_oplist(cex, "regression-over-256-" + name)
    real = real_ccb(CEX)
    if real[0] == "ok" and len(real[2]) > 257:
        rep.notes.append(f"regression input (257 distinct ints twice): block of {len(real[2][0].split(' ')) - 1} entries, line 256 is "
                         f"`{real[2][256]}`, line 257 is `{real[2][257]}` (theorem index_fits_regression: `intc 255 // 1255`, `pushint 1256 // 1256`)")
        if real[2][256] != "intc 255 // 1255" or real[2][257] != "pushint 1256 // 1256":
            rep.violation("regression input of 2a27358: lines 256/257 are not `intc 255 // 1255` / `pushint 1256 // 1256` "
                          "(theorem index_fits_regression)", {"kind": "oplist", "tag": "regression-int", "comps": [list(c) for c in CEX]},
                          no_input=True)

    # 2. fixed corner cases
    r = rng("C12-fixed")
    for m in MALFORMED:
        R.check_oplist([m], "malformed", oracle=False)
        R.check_oplist([("op", "int", [7]), m, ("op", "byte", ['"a"']), m], "malformed", oracle=False)
    for sp in [byte_spellings(r, b"a"), byte_spellings(r, bytes(range(32))), byte_spellings(r, b""), byte_spellings(r, "é\"\\".encode())]:
        R.check_oplist([("op", n, [a]) for n, a in sp] + [("op", "pop", [])], "spellings")
    R.check_oplist([("op", "int", [k]) for k in ENUMS] + [("op", "int", [v]) for v in range(7)], "enums")
    R.check_oplist([("op", "int", [n]) for n in [127, 128, 127, 128, 1, 2, 3, 4, 1, 2, 3, 4, 2 ** 64 - 1, 2 ** 64 - 1, 5, 5, 6, 6]], "top4")

    lap("fixed")
    # 3. literal decoding (extractBytesValue incl. every failure class)
    literal_fuzz(R, rng("C12-lit"), 1500 if quick else 40000)

    lap("literals")
    # 4. synthetic component lists
    r = rng("C12-oplists")
    plan = [("small", 250), ("ties", 250), ("medium", 120), ("bigint", 6), ("bigbyte", 5), ("bigboth", 3)] if quick else \
           [("small", 6000), ("ties", 6000), ("medium", 2500), ("bigint", 120), ("bigbyte", 100), ("bigboth", 60)]
    for regime, n in plan:
        for _ in range(n):
            comps, weird = gen_oplist(r, regime)
            R.check_oplist(comps, "oplist-" + regime, oracle=not weird)

    lap("oplists")
    # 5. whole programs through compileTeal, versions 3..10
    r = rng("C12-programs")
    rctx = rng("C12-ctx")
    nprog = 9 if quick else 150
    for version in range(3, 11):
        for j in range(nprog):
            mode = "app" if r.random() < 0.8 else "sig"
            big = (j == 0 and (not quick or version in (3, 10))) or (not quick and j % 20 == 0)
            state = r.getstate()

            def builder(state=state, version=version, mode=mode, big=big):
                rr = rng("x")
                rr.setstate(state)
                return build_pool_program(rr, version, mode, big)
            build_pool_program(r, version, mode, big)  # advance the stream exactly as one build does
            R.check_program(builder, mode, version, "pool-big" if big else "pool", rctx)
    lap("pool programs")
    # generated programs (harness/gen.py)
    ngen = 6 if quick else 120
    rg = rng("C12-gen")
    for version in range(3, 11):
        for j in range(ngen):
            mode = "app" if rg.random() < 0.7 else "sig"
            cfg = gen.Cfg(mode=mode, version=version, max_depth=3, max_stmts=5, subs=0)
            prog = gen.G(rg, cfg).program()
            if gen.required_version(prog.main) > version or any(gen.required_version(s.body) > version for s in prog.subs):
                R.dist["gen-needs-newer-version"] += 1
                continue

            def builder(prog=prog):
                return recipes.Builder(prog).main()
            try:
                R.check_program(builder, mode, version, "gen", rctx)
            except RecursionError:
                R.dist["gen-recursion"] += 1
    lap("generated programs")
    # 300 distinct integers, each used twice, through compileTeal (the retired finding at program level, kept as a regression case);
    # spread over six subroutines so that no routine is deep enough to hit the compiler's recursion limit
    def big300():
        subs = []
        for k in range(6):
            def mk(k):
                def body():
                    return pt.Seq(*[pt.Pop(pt.Int(1000 + 50 * k + i)) for i in range(50)] * 2)
                body.__name__ = f"part{k}"
                return body
            subs.append(pt.Subroutine(pt.TealType.none)(mk(k)))
        return pt.Seq(*[f() for f in subs], pt.Return(pt.Int(1)))
    res = R.check_program(big300, "app", 8, "300x2", rctx, nctx=1)
    if res and "asm" in res:
        bad = block_lines_ok(res["asm"].split("\n"))
        npush = sum(1 for l in res["asm"].split("\n") if l.startswith("pushint "))
        rep.notes.append("300 distinct ints used twice through compileTeal(v8): " + (f"{bad} emitted" if bad else f"no index above 255, {npush} `pushint` lines"))
        if bad:
            rep.violation(f"regression of 2a27358: compileTeal(assembleConstants=True) emits {bad}", {"kind": "program", "tag": "300x2", "mode": "app",
                          "version": 8, "plain": res["plain"], "asm": res["asm"]})

    lap("300x2")
    # 6. option plumbing: version 2 must refuse (pushint/pushbytes are version-3 opcodes)
    try:
        t2 = pt.compileTeal(pt.Seq(pt.Pop(pt.Int(300)), pt.Return(pt.Int(1))), pt.Mode.Application, version=2, assembleConstants=True)
        if re.search(r"^(pushint|pushbytes)\b", t2, re.M):
            rep.violation("assembleConstants=True at version 2 emits version-3 opcodes", {"kind": "v2", "teal": t2})
        R.dist["v2-accepted"] += 1
    except pt.TealInternalError:
        R.dist["v2-refused"] += 1
    R.evals += 1

    R.drv.close()
    rep.coverage.update({
        "evaluations": R.evals,
        "distinct_nontrivial": len(R.nontrivial),
        "rule": "non-trivial = the real code returned a component list with at least two constant-load sites; counted by distinct output text",
        "samples": R.samples,
        "distribution": dict(sorted(R.dist.items())),
        "oracle_sites_compared": R.oracle.sites,
        "oracle_block_references_checked": R.oracle.block_refs,
        "oracle_max_block_index_seen": R.oracle.max_index,
        "pairs_validated_by_checkAssembled": R.oracle.tv_ok,
        "execution": dict(R.exec_stats),
        "model_mismatches": R.mismatches,
        "index_over_255_instances": R.index_over,
    })
    rep.assumptions += [
        "quoted literals containing \\N{...} are outside the model (reported as UNMODELLED, never produced by PyTeal)",
        "run-time equality: theorem assembled_run_eq (Lean AVM spec, all contexts/fuel) applied to each explored pair of real TEAL texts "
        "through the decidable check `checkAssembled` on their parses; differential execution on generated contexts is an extra cross-check",
    ]
    return rep.finish()


def replay(path: str) -> int:
    body = json.loads(open(path).read())
    drv = Driver()
    if body.get("kind") == "oplist":
        comps = [tuple(c) if c[0] == "raw" else ("op", c[1], c[2]) for c in body["comps"]]
        real = real_ccb(comps)
        a, b = [drv.ask(l) for l in model_lines(comps)]
        model = parse_model(a, b)
        print("input :", [render(c) for c in comps][:40])
        print("real  :", real[1] if real[0] == "err" else real[2][:40])
        print("model :", model[1] if model[0] == "err" else model[2][:40])
        verdict = "ok"
        if real[0] == "ok":
            verdict, detail = SiteOracle(drv).check("\n".join(render(c) for c in comps), "\n".join(real[2]))
            print("oracle:", verdict, detail)
        print("agree :", same(real, model))
        return 0 if same(real, model) and verdict in ("ok", "skip") else 1
    if body.get("kind") == "program":
        print("plain TEAL:\n" + body.get("plain", "")[:3000])
        print("assembled TEAL:\n" + body.get("asm", "")[:3000])
        bad = False
        if "asm" in body:
            verdict, detail = SiteOracle(drv).check(body["plain"], body["asm"])
            print("oracle:", verdict, detail)
            bad = verdict in ("bad", "index")
        if "comps" in body:
            comps = [tuple(c) if c[0] == "raw" else ("op", c[1], c[2]) for c in body["comps"]]
            real = real_ccb(comps)
            a, b = [drv.ask(l) for l in model_lines(comps)]
            model = parse_model(a, b)
            print("real createConstantBlocks on the recorded components agrees with the model:", same(real, model))
            if not same(real, model):
                print(describe_diff(real, model))
                return 1
        return 1 if bad else 0
    print(json.dumps(body, indent=1)[:4000])
    return 0
