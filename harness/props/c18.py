"""C18 — comments, assert comments, pragmas, nonces and subroutine names are annotations.

Deciding method.
(1) Kernel-checked theorems (lean/PyTealV/Proofs/C18.lean) about the model of the emitted TEXT
    (lean/PyTealV/Models/Annot.lean) against the independent TEAL grammar: a comment op has no
    tokens whatever its text; `Comment(text)` is total and each of its lines is one physical line
    without tokens; the subroutine label is legal, parses as that label and determines the index;
    the header is exactly one statement, the label, for EVERY name (the name is cut with
    `str.splitlines()`, one `// piece` line per piece; `name_comment_regression` keeps the text
    before the repair 90c7383, which injected statements for names with a line feed);
    in the code-generation model a Comment/Pragma wrapper is transparent and a Nonce is the
    push-and-pop block followed by the child's code.
(2) Tie model = code: `str.splitlines`, `TealOp(Op.comment)`, `CommentExpr`, `Comment`,
    `Assert(comment=)`, `resolveSubroutines` + `TealLabel.assemble` against the driver's c18-*
    commands on random code-point strings.
(3) Search on the REAL compiler: every generated program is compiled together with annotated
    VARIANTS; both TEAL texts go through the independent tokeniser (`c18-strip`), labels are
    alpha-renamed, and the statement streams must be identical (Nonce: after deleting the
    `byte <nonce>; pop` pair). Base and variant must have the same compile outcome class, and
    are executed side by side in the Lean AVM (`cmpx`).
"""
from __future__ import annotations

import base64
import json
import sys
from collections import Counter

import common
from common import Driver, Report, check_proofs, proof_coverage, rng, hexs
from families import quiet_traces
from gen import Cfg, G
from recipes import B, N, U, Program, Sub, Var, compile_real, gen_ctx, render_ctx, pack, unpack
from shrink import children_paths, clone, get_at, set_at, type_of
N_TYPE = "none"

# AnnotLemmas: the splitlines / comment-line lemmas shared with C04 §5 (label lines)
PROOF_MODULES = ["PyTealV.Proofs.C18", "PyTealV.Proofs.AnnotLemmas"]
TRUSTED = [
    "Lean 4 kernel; axioms propext, Classical.choice, Quot.sound only",
    "TEAL grammar lean/PyTealV/Avm/Syntax.lean (tokenise, splitStatements, parseInstr) as the spec of the assembler; "
    "ASSUMPTION: physical lines end at \\n only (\\r, VT, FF, FS, GS, RS, NEL, U+2028, U+2029 do not end a line) and `//` outside a "
    "string literal / base64(...) discards the rest of the line",
    "model = code: Models/Annot.lean mirrors str.splitlines, TealOp.assemble for Op.comment, CommentExpr, Comment, Assert(comment=), "
    "resolveSubroutines' label and TealLabel.assemble (validated by this correspondence run)",
    "Models.Annot.lines (split at \\n) = String.splitOn \"\\n\" used by Avm.parse (checked on every text of this run, flag SAME of c18-strip)",
    "code-generation model lean/PyTealV/Comp/Gen.lean for the wrapper lemmas (tied to the real compiler by C01's translation validation)",
    "harness: recipe -> real PyTeal API calls (harness/recipes.py Builder); label alpha-renaming and the Nonce pair deletion are done in Python "
    "on the token lists returned by the Lean tokeniser",
    "Python strings with lone surrogates are outside the model (cannot cross the UTF-8 line protocol)",
]

BREAKS = "\n\r\x0b\x0c\x1c\x1d\x1e\x85\u2028\u2029"
FIXED_TEXTS = [
    "", "x", "hello world", "a\nb", "int 0\nreturn", "#pragma version 1", "//", "// //", "; err ;", "\"", "\\", "\\\"", "a\rb", "a\r\nb",
    "a\x0bb", "a\x0cb", "\x1c\x1d\x1e", "a\x85b", "a\u2028b\u2029c", "q\"uote // x ; y", "base64(//)", "\u00e9\u2603\U0001F600", "x" * 5000,
    "\n", "\n\n", "\r\n\r\n", " ", "\t", "b main_l0", "main_l0:", "err", "\nerr", "err\n", "*/ err /*", "\x00", "\x7f", "a\\nb",
    "\"\nerr\n\"", "byte \"\nerr", "\r\nint 0\r\nreturn\r\n",
]
FRAGMENTS = ["//", "#pragma version 1", "int 0\nreturn", "\r\n", "base64(", "\"", "\\", ";", " ; ", "err", "\n", "b main_l0", "main_l0:", "/*", "*/"]
ALPHABET = list(BREAKS) + list("\"\\/;#: \t()abcXYZ019_-") + ["\u00e9", "\u2603", "\U0001F600", "\x00", "\x01", "\x7f", "\u0084", "\u0086", "\u2027", "\u202a"]

NAMES_PLAIN = ["a b", "\u00e9\u2603", "q\"x", "a//b", "a;b", "x" * 3000, "", "123", "_", "main", "main_l0", "f_0", "#pragma version 1",
               "a\rb", "a\x0bb", "a\u2028b", "a\x85b", "\t", "a\\b", "err", "b main_l0", "  ", "A-Z", "\U0001F600", "\x00"]
# names with a line feed (alone and mixed with the other boundaries of str.splitlines())
NAMES_NL = ["f\nerr", "f\nint 0\nreturn", "f\n", "\n", "a\r\nb", "x\nmain_l0:", "\nerr\n", "f\rerr\nerr", "f\u2028err\nint 0\x85return",
            "\n\r\n\x0b\x0c\x1c\x1d\x1e\x85\u2028\u2029", "f\r\nerr\n\rerr", "f\x0berr\x0cerr\nerr"]
# names with a boundary of str.splitlines() other than the line feed
NAMES_BREAK = ["f\rerr", "f\x0berr", "f\x0cerr", "f\x1cerr", "f\x1derr", "f\x1eerr", "f\x85err", "f\u2028err", "f\u2029err", "\r", "\u2028", "f\r\rerr"]
MAXREC = 3


def th(s: str) -> str:
    return hexs(s.encode("utf-8"))


def gen_text(r) -> str:
    c = r.random()
    if c < 0.25:
        return r.choice(FIXED_TEXTS)
    n = r.choice([0, 1, 2, 3, 5, 8, 13, 40])
    if c > 0.985:
        n = 5000
    out = []
    for _ in range(n):
        x = r.random()
        if x < 0.12:
            out.append(r.choice(FRAGMENTS))
        elif x < 0.75:
            out.append(r.choice(ALPHABET))
        else:
            cp = r.choice([r.randrange(0, 0x80), r.randrange(0x80, 0x800), r.randrange(0x800, 0xD800), r.randrange(0xE000, 0x10000),
                           r.randrange(0x10000, 0x110000)])
            out.append(chr(cp))
    return "".join(out)


def _pt():
    sys.path.insert(0, str(common.REPO))
    import pyteal  # noqa: E402
    return pyteal


# ----------------------------------------------------------------------------- streams


class Streams:
    """TEAL text -> statement stream through the Lean tokeniser (cached)."""

    def __init__(self, d: Driver, stats: Counter):
        self.d, self.stats, self.cache = d, stats, {}

    def of(self, teal: str):
        if teal in self.cache:
            return self.cache[teal]
        a = self.d.ask("c18-strip " + th(teal))
        w = a.split(" ")
        if w[0] != "ok":
            raise common.ToolFailure("c18-strip: " + a[:200])
        self.stats["strip"] += 1
        if w[2] != "1":
            self.stats["strip:line-split-differs-from-String.splitOn"] += 1
        ss = []
        if w[3] != "-":
            for s in w[3].split("|"):
                ss.append(tuple("" if t == "-" else bytes.fromhex(t).decode("utf-8") for t in s.split(",")))
        if len(self.cache) > 4000:
            self.cache.clear()
        self.cache[teal] = ss
        return ss


BRANCH = {"b", "bz", "bnz", "callsub"}
MULTI = {"switch", "match"}


def alpha(stream):
    """rename labels by first occurrence (definition or reference)"""
    names = {}

    def nm(l):
        if l not in names:
            names[l] = f"L{len(names)}"
        return names[l]

    out = []
    for st in stream:
        if len(st) == 1 and st[0].endswith(":"):
            out.append((nm(st[0][:-1]) + ":",))
        elif st[0] in BRANCH and len(st) == 2:
            out.append((st[0], nm(st[1])))
        elif st[0] in MULTI:
            out.append((st[0],) + tuple(nm(x) for x in st[1:]))
        else:
            out.append(st)
    return out


TERMINAL = {"return", "err", "retsub"}


def is_label(st):
    return len(st) == 1 and st[0].endswith(":")


class Flow:
    """control-flow view of a statement stream: labels and unconditional `b` are layout, everything
    else is an instruction with its resolved successors"""

    def __init__(self, stream):
        self.st = stream
        self.ok = True
        self.label_at = {}
        for i, s in enumerate(stream):
            if is_label(s):
                if s[0][:-1] in self.label_at:
                    self.ok = False  # duplicate label
                self.label_at[s[0][:-1]] = i
            elif s[0] in MULTI:
                self.ok = False

    def resolve(self, i):
        seen = set()
        while True:
            if i is None:
                return "badlabel"
            if i >= len(self.st):
                return "end"
            if i in seen:
                return "emptyloop"
            seen.add(i)
            s = self.st[i]
            if is_label(s):
                i += 1
            elif s[0] == "b" and len(s) == 2:
                i = self.label_at.get(s[1])
            else:
                return i

    def node(self, i):
        """(what the instruction is, successors)"""
        s = self.st[i]
        if s[0] in ("bz", "bnz") and len(s) == 2:
            t, n = self.resolve(self.label_at.get(s[1])), self.resolve(i + 1)
            return ("cond",), ((t, n) if s[0] == "bnz" else (n, t))  # (target if non-zero, target if zero)
        if s[0] in TERMINAL:
            return s, ()
        if s[0] == "callsub" and len(s) == 2:
            return ("callsub",), (self.resolve(self.label_at.get(s[1])), self.resolve(i + 1))
        return s, (self.resolve(i + 1),)

    def instructions(self):
        """multiset of everything that is not layout"""
        c = Counter()
        for s in self.st:
            if is_label(s) or (s[0] == "b" and len(s) == 2):
                continue
            c[("cond",) if s[0] in ("bz", "bnz") else (("callsub",) if s[0] == "callsub" else s)] += 1
        return c


def same_flow(sa, sb) -> bool:
    """the two streams have isomorphic control-flow graphs over identical instructions (reachable part)
    and the same multiset of instructions overall (so nothing was added as dead code either)"""
    A, B = Flow(sa), Flow(sb)
    if not (A.ok and B.ok) or A.instructions() != B.instructions():
        return False
    ab, ba = {}, {}
    todo = [(A.resolve(0), B.resolve(0))]
    while todo:
        a, b = todo.pop()
        if isinstance(a, str) or isinstance(b, str):
            if a != b:
                return False
            continue
        if a in ab or b in ba:
            if ab.get(a) != b or ba.get(b) != a:
                return False
            continue
        ab[a], ba[b] = b, a
        (ia, sa_), (ib, sb_) = A.node(a), B.node(b)
        if ia != ib or len(sa_) != len(sb_):
            return False
        todo += list(zip(sa_, sb_))
    return True


SELECTION_OPS = {"extract", "extract3", "substring", "substring3", "int", "dig", "len"}


def literal_selection_only(sb, sv, nonce) -> bool:
    """the instruction multisets differ only in the opcodes among which Substring/Extract/Suffix choose
    (and the nonce pair)"""
    a, b = Flow(sb).instructions(), Flow(sv).instructions()
    for k in set(a) | set(b):
        if a[k] != b[k] and k[0] not in SELECTION_OPS:
            if nonce is not None and (k == ("pop",) or k[0] in ("byte", "pushbytes")) and b[k] - a[k] == 1:
                continue
            return False
    return True


def first_diff(a, b):
    for i, (x, y) in enumerate(zip(a, b)):
        if x != y:
            return i, x, y
    if len(a) != len(b):
        i = min(len(a), len(b))
        return i, (a[i] if i < len(a) else None), (b[i] if i < len(b) else None)
    return None


def delete_nonce(d: Driver, variant, base, nonce: bytes):
    """all ways of deleting one `byte <nonce>; pop` pair from the variant stream; returns the
    position whose deletion yields the base stream, or None"""
    cands = []
    for i in range(len(variant) - 1):
        st = variant[i]
        if st[0] in ("byte", "pushbytes") and variant[i + 1] == ("pop",):
            ans = d.ask("c18-instr " + ",".join(th(t) for t in st))
            if ans == "bytes " + hexs(nonce):
                cands.append(i)
    for i in cands:
        if alpha(variant[:i] + variant[i + 2:]) == alpha(base):
            return i, len(cands)
    return None, len(cands)


# ----------------------------------------------------------------------------- variants

NOWRAP = {"ref"}


def roots(prog: Program):
    return [(None, prog.main)] + [(s.sid, s.body) for s in prog.subs]


def reachable_roots(prog: Program):
    """main and the subroutines reachable from it (an unreachable subroutine is not compiled at all)"""
    bodies = {s.sid: s.body for s in prog.subs}
    seen, todo = set(), [prog.main]
    while todo:
        for _, n in children_paths(todo.pop()):
            if n[0] == "call" and n[1].sid not in seen:
                seen.add(n[1].sid)
                todo.append(bodies[n[1].sid])
    return [(None, prog.main)] + [(s.sid, s.body) for s in prog.subs if s.sid in seen]


def with_root(prog: Program, owner, new_root) -> Program:
    return clone(prog, main=new_root) if owner is None else clone(prog, bodies={owner: new_root})


def wrap_points(prog: Program):
    """(owner, path, node) of every expression node that can be wrapped"""
    pts = []
    for owner, root in reachable_roots(prog):
        for path, n in children_paths(root):
            if n[0] in NOWRAP:
                continue
            pts.append((owner, path, n))
    return pts


def has_return(n) -> bool:
    """PyTeal's Expr.has_return(): does every path through `n` leave the routine?  (A comment appended after such a
    statement changes how the enclosing Seq / If is TYPED - `Seq.has_return` looks at its last element only - which is
    a typing rule of the language, not an effect of the annotation on the code.)"""
    if not (isinstance(n, tuple) and n and isinstance(n[0], str)):
        return False
    t = n[0]
    if t in ("ret", "approve", "reject", "exit", "err"):
        return True
    if t == "seq":
        return bool(n[1]) and has_return(n[1][-1])
    if t == "if":
        return n[3] is not None and has_return(n[2]) and has_return(n[3])
    if t == "cond":
        return all(has_return(b) for _c, b in n[1])
    if t in ("comment", "pragma"):
        return n[2] is not None and has_return(n[2])
    if t == "nonce":
        return has_return(n[4])
    return False


def stmt_points(prog: Program):
    """(owner, path of a seq node, index): a comment statement can be inserted in front of element index"""
    pts = []
    for owner, root in reachable_roots(prog):
        for path, n in children_paths(root):
            if n[0] == "seq":
                for i in range(len(n[1])):
                    pts.append((owner, path, i))
                if n[1] and type_of(n) == N_TYPE and n[1][-1][0] not in ("break", "continue") and not has_return(n[1][-1]):
                    # AFTER the last statement of a statement sequence (a branch arm or loop body ending in a comment)
                    pts.append((owner, path, len(n[1])))
    return pts


def arm_points(prog: Program):
    """(owner, path of a branch arm / loop body that is a single statement, not a Seq): the arm can become Seq(arm, Comment)"""
    pts = []
    for owner, root in reachable_roots(prog):
        for path, n in children_paths(root):
            if n[0] == "if" and type_of(n) == N_TYPE:
                for k in (2, 3):
                    a = n[k]
                    if a is not None and a[0] != "seq" and type_of(a) == N_TYPE and a[0] not in ("break", "continue") and not has_return(a):
                        pts.append((owner, path + (k,)))
            if n[0] == "while" and n[2][0] != "seq" and n[2][0] not in ("break", "continue") and not has_return(n[2]):
                pts.append((owner, path + (2,)))
    return pts


def hidden_literal(prog: Program, owner, path) -> bool:
    """wrapping this node hides an Int literal from the opcode selection of Substring/Extract/Suffix
    (they inspect `isinstance(arg, Int)`): known finding C18-wrapped-literal-opcode"""
    root = dict(roots(prog))[owner]
    node = get_at(root, path)
    if node[0] != "int" or len(path) < 2:
        return False
    parent = get_at(root, path[:-2])
    return isinstance(parent, tuple) and parent and parent[0] == "op" and parent[1] in ("Substring", "Extract", "Suffix") and path[-2] == 2 and path[-1] >= 1


def satisfied_ranges():
    """version constraints satisfied by the installed PyTeal version, decided with semantic_version
    (not with pyteal.pragma)"""
    from importlib import metadata
    from semantic_version import NpmSpec, Version
    v = metadata.version("pyteal")
    ver = Version(v)
    cands = [">=0.1.0", "*", f"={v}", v, f"^{v}", f"~{v}", f"<={v}", f">={v}", f"{ver.major}.{ver.minor}.x", f">=0.20.0 <{ver.major + 1}.0.0",
             f"<0.1.0 || >={v}", f"{ver.major}.x", f">{ver.major}.{max(ver.minor - 1, 0)}.999"]
    return [c for c in cands if ver in NpmSpec(c)], v


def nonce_args(r):
    base = r.choice(["utf8", "base16", "base32", "base64"])
    if base == "utf8":
        s = "n" + "".join(r.choice("abc \"\\/;\n\u00e9") for _ in range(r.choice([0, 3, 6]))) + "%08x" % r.randrange(2 ** 32)
        return base, s, s.encode("utf-8")
    raw = bytes(r.randrange(256) for _ in range(r.choice([5, 8, 10, 15])))
    if base == "base16":
        return base, (r.choice(["", "0x"]) + raw.hex()), raw
    if base == "base32":
        s = base64.b32encode(raw).decode()
        return base, (s if r.random() < 0.5 else s.rstrip("=")), raw
    return base, base64.b64encode(raw).decode(), raw


class Variant:
    def __init__(self, kind, prog, detail, nonce=None, hidden=False, has_nl_name=False):
        self.kind, self.prog, self.detail, self.nonce, self.hidden, self.has_nl_name = kind, prog, detail, nonce, hidden, has_nl_name


def variants(prog: Program, r, tier, ranges, stats):
    quick = tier == "quick"
    out = []
    wps = wrap_points(prog)
    sps = stmt_points(prog)

    def pick(pts, k):
        if not quick or len(pts) <= k:
            return list(pts)
        return r.sample(pts, k)

    # (i) comments: statements and wrappers
    for owner, path, i in pick(sps, 3):
        root = dict(roots(prog))[owner]
        n = get_at(root, path)
        t = gen_text(r)
        new = set_at(root, path, ("seq", n[1][:i] + [("comment", t, None)] + n[1][i:]))
        out.append(Variant("comment-stmt", with_root(prog, owner, new), {"text": t, "owner": owner, "path": list(path), "index": i}))
    tails = [pt_ for pt_ in sps if pt_[2] == len(get_at(dict(roots(prog))[pt_[0]], pt_[1])[1])]
    for owner, path, i in pick(tails, 2):
        root = dict(roots(prog))[owner]
        n = get_at(root, path)
        t = gen_text(r)
        new = set_at(root, path, ("seq", n[1] + [("comment", t, None)]))
        out.append(Variant("comment-stmt", with_root(prog, owner, new), {"text": t, "owner": owner, "path": list(path), "index": i, "trailing": True}))
    for owner, path in pick(arm_points(prog), 2):
        root = dict(roots(prog))[owner]
        a = get_at(root, path)
        t = gen_text(r)
        new = set_at(root, path, ("seq", [a, ("comment", t, None)]))
        out.append(Variant("comment-stmt", with_root(prog, owner, new), {"text": t, "owner": owner, "path": list(path), "index": 1, "trailing": True}))
    for owner, path, n in pick(wps, 3):
        root = dict(roots(prog))[owner]
        t = gen_text(r)
        new = set_at(root, path, ("comment", t, n))
        out.append(Variant("comment-wrap", with_root(prog, owner, new), {"text": t, "owner": owner, "path": list(path), "node": n[0]},
                           hidden=hidden_literal(prog, owner, path)))
    # (ii) assert comments
    asserts = [(o, p, n) for o, p, n in wps if n[0] == "assert"]
    for owner, path, n in pick(asserts, 2):
        root = dict(roots(prog))[owner]
        texts = [r.choice([None, gen_text(r)])] if quick else [None, "", gen_text(r), gen_text(r)]
        if len(n[1]) >= 2:
            # comments with fewer / as many / more lines than the Assert has conditions
            k = len(n[1])
            texts += ["\n".join(f"line {j}" for j in range(m)) for m in sorted({2, k - 1, k, k + 1}) if m >= 2]
        for t in texts:
            if t == n[2]:
                continue
            new = set_at(root, path, ("assert", n[1], t))
            out.append(Variant("assert-comment", with_root(prog, owner, new), {"text": t, "was": n[2], "owner": owner, "path": list(path)}))
    # (iii) pragma, (iv) nonce
    for owner, path, n in pick(wps, 1) if quick else r.sample(wps, max(1, len(wps) // 3)):
        root = dict(roots(prog))[owner]
        rg = r.choice(ranges)
        new = set_at(root, path, ("pragma", rg, n))
        out.append(Variant("pragma-wrap", with_root(prog, owner, new), {"range": rg, "owner": owner, "path": list(path), "node": n[0]},
                           hidden=hidden_literal(prog, owner, path)))
    for owner, path, n in pick(wps, 2) if quick else r.sample(wps, max(1, len(wps) // 2)):
        root = dict(roots(prog))[owner]
        base, data, raw = nonce_args(r)
        new = set_at(root, path, ("nonce", base, data, raw, n))
        out.append(Variant("nonce-wrap", with_root(prog, owner, new), {"base": base, "data": data, "owner": owner, "path": list(path), "node": n[0]},
                           nonce=raw, hidden=hidden_literal(prog, owner, path)))
    # (v) subroutine names
    if prog.subs:
        for k in range(2 if quick else 8):
            exotic = k % 2 == 1
            p2 = clone(prog)
            names = []
            for s in p2.subs:
                s.name = r.choice(NAMES_NL if (exotic and r.random() < 0.7) else NAMES_PLAIN + NAMES_BREAK + [gen_text(r)])
                names.append(s.name)
            if exotic and not any("\n" in x for x in names):
                p2.subs[0].name = r.choice(NAMES_NL)
                names[0] = p2.subs[0].name
            out.append(Variant("rename", p2, {"names": names}, has_nl_name=any("\n" in x for x in names)))
        if len(prog.subs) >= 2:
            # several routines sharing ONE name (two lambdas, closures of one factory, equal name= overrides): a name is an
            # annotation, it must not decide which routine a call reaches
            p2 = clone(prog)
            nm = r.choice(NAMES_PLAIN + [p2.subs[0].name])
            for s in p2.subs:
                s.name = nm
            out.append(Variant("rename", p2, {"names": [nm] * len(p2.subs), "duplicate": True}, has_nl_name="\n" in nm))
    for v in out:
        stats["variant:" + v.kind] += 1
    return out


# ----------------------------------------------------------------------------- correspondence of the text model


def unlist(ans: str):
    w = ans.split(" ")
    if w[0] != "ok":
        return ("err", ans)
    if w[1] == "0":
        return []
    return ["" if x == "-" else bytes.fromhex(x).decode("utf-8") for x in w[2].split("|")]


def correspondence(rep, d, streams, r, tier, stats, samples):
    pt = _pt()
    from pyteal.ast.comment import CommentExpr
    import pyteal.errors as pe
    n = 700 if tier == "quick" else 12000
    texts = list(FIXED_TEXTS) + [gen_text(r) for _ in range(n)]
    # exhaustive: every single code point class boundary for splitlines (all of BMP below 0x3000 + the separators' neighbours)
    singles = [chr(c) for c in list(range(0, 0x3000)) if not (0xD800 <= c < 0xE000)]
    texts += ["a" + c + "b" for c in singles] if tier == "thorough" else ["a" + c + "b" for c in singles[:0x100] + singles[0x2020:0x2030]]
    bad = Counter()

    def mismatch(kind, text, real, model):
        bad[kind] += 1
        if bad[kind] <= MAXREC:
            rep.violation(f"model and code disagree ({kind}) on text {text[:60]!r}: real={str(real)[:200]!r} model={str(model)[:200]!r}",
                          {"kind": "correspondence", "what_kind": kind, "text": text, "real": real, "model": model}, no_input=True)

    plain = None

    def inject_search(kind, text, ast, ver=6):
        nonlocal plain
        if plain is None:
            plain = streams.of(pt.compileTeal(pt.Seq(pt.Approve()), pt.Mode.Application, version=ver))
        try:
            teal = pt.compileTeal(ast, pt.Mode.Application, version=ver)
        except Exception:  # noqa: BLE001
            return
        got = streams.of(teal)
        stats["corr:inject-search"] += 1
        if got != plain:
            bad["inject:" + kind] += 1
            if bad["inject:" + kind] <= MAXREC:
                rep.violation(f"{kind}({text[:60]!r}) puts statements into the program: {got[:6]} instead of {plain}",
                              {"kind": "inject", "constructor": kind, "text": text, "version": ver, "teal": teal, "stream": got, "expected": plain})

    for t in texts:
        stats["corr:text"] += 1
        # str.splitlines
        real = t.splitlines()
        model = unlist(d.ask("c18-splitlines " + th(t)))
        if real != model:
            mismatch("splitlines", t, real, model)
        if len(real) > 1:
            stats["corr:multi-piece"] += 1
        # comment op
        real = pt.TealOp(None, pt.Op.comment, t).assemble()
        model = d.ask("c18-commentop " + th(t))
        if th(real) != model:
            mismatch("commentop", t, real, model)
        # CommentExpr guard
        try:
            e = CommentExpr(t)
            real = ("ok", pt.TealOp(None, pt.Op.comment, e.comment).assemble())
        except pe.TealInputError:
            real = ("err",)
        a = d.ask("c18-commentexpr " + th(t))
        model = ("ok", bytes.fromhex(a[3:]).decode("utf-8") if a[3:] != "-" else "") if a.startswith("ok ") else ("err",)
        if real != model:
            mismatch("commentexpr", t, real, model)
        stats["corr:commentexpr:" + real[0]] += 1
        if real[0] == "ok" and (real != model or any(c in t for c in "\n\r")):
            # failing-input search: an accepted single-line comment must leave the statement stream alone
            inject_search("CommentExpr", t, pt.Seq(CommentExpr(t), pt.Approve()))
    # Comment / Assert compiled by the real compiler
    m = 250 if tier == "quick" else 3000
    for i in range(m):
        t = texts[i] if i < len(FIXED_TEXTS) else gen_text(r)
        ver = r.choice(range(2, 11))
        stats["corr:compiled"] += 1
        try:
            teal = pt.compileTeal(pt.Seq(pt.Comment(t), pt.Approve()), pt.Mode.Application, version=ver)
            ls = teal.split("\n")
            real = ls[1:-2] if ls[0] == f"#pragma version {ver}" and ls[-2:] == ["int 1", "return"] else ("shape", teal)
        except Exception as e:  # noqa: BLE001
            real = ("exc", type(e).__name__)
        model = unlist(d.ask("c18-comment " + th(t)))
        if real != model:
            mismatch("Comment", t, real, model)
            if isinstance(real, list):
                inject_search("Comment", t, pt.Seq(pt.Comment(t), pt.Approve()))
        elif len(samples) < 2 and len(model) > 1:
            samples.append({"Comment": t[:80], "lines": model[:6]})
        for c in (t, None):
            try:
                teal = pt.compileTeal(pt.Seq(pt.Assert(pt.Int(7), comment=c), pt.Approve()), pt.Mode.Application, version=ver)
                ls = teal.split("\n")
                real = ls[2:-2] if ls[:2] == [f"#pragma version {ver}", "int 7"] and ls[-2:] == ["int 1", "return"] else ("shape", teal)
                if ver < 3 and isinstance(real, list):
                    real = [x.replace("main_l2", "L") for x in real]
            except Exception as e:  # noqa: BLE001
                real = ("exc", type(e).__name__)
            model = unlist(d.ask(f"c18-assert {ver} " + ("none" if c is None else th(c))))
            if real != model:
                mismatch("Assert", repr(c), real, model)
    # labels and headers
    from pyteal.compiler.subroutines import resolveSubroutines
    k = 300 if tier == "quick" else 5000
    for i in range(k):
        names = [r.choice(NAMES_PLAIN + NAMES_NL + NAMES_BREAK) if r.random() < 0.4 else gen_text(r) for _ in range(r.choice([1, 2, 3, 12]))]
        stats["corr:header-programs"] += 1
        subs = []
        for nm in names:
            def f():
                return pt.Pop(pt.Int(1))
            f.__name__ = nm
            subs.append(pt.Subroutine(pt.TealType.none, name=nm)(f))
        try:
            teal = pt.compileTeal(pt.Seq(*[s() for s in subs], pt.Approve()), pt.Mode.Application, version=r.choice(range(4, 8)))
        except Exception as e:  # noqa: BLE001
            mismatch("header-compile", repr(names), ("exc", type(e).__name__, str(e)[:100]), "ok")
            continue
        expected = []
        for idx, nm in enumerate(names):
            a = d.ask(f"c18-header {th(nm)} {idx}").split(" ")
            label = "" if a[1] == "-" else bytes.fromhex(a[1]).decode()
            header = bytes.fromhex(a[2]).decode()
            real_l = pt.TealLabel(None, pt.LabelReference(label), nm).assemble()
            if real_l != header:
                mismatch("TealLabel.assemble", nm, real_l, header)
            expected.append(header + "\nint 1\npop\nretsub")
            stats["corr:header"] += 1
        calls = "".join(f"callsub {bytes.fromhex(d.ask(f'c18-header {th(nm)} {idx}').split(' ')[1]).decode()}\n" for idx, nm in enumerate(names))
        want = teal.split("\n", 1)[0] + "\n" + calls + "int 1\nreturn\n" + "\n".join(expected)
        if teal != want:
            mismatch("program-with-headers", repr(names), teal, want)
    return sum(bad.values())


# ----------------------------------------------------------------------------- seeded programs


def seeded_programs():
    """small hand-written recipes that put annotations at delicate places"""
    out = []
    i = Var(U)
    s = ("str", "hello world")
    loop = ("for", ("store", i, ("int", 0)), ("op", "Lt", [("load", i), ("int", 3)]), ("store", i, ("op", "Add2", [("load", i), ("int", 1)])),
            ("seq", [("if", ("op", "EqU", [("load", i), ("int", 1)]), ("continue",), None), ("op", "PopU", [("load", i)])]))
    out.append(("literal-operands", Program("app", ("seq", [
        ("op", "PopB", [("op", "Substring", [s, ("int", 1), ("int", 3)])]),
        ("op", "PopB", [("op", "Extract", [s, ("int", 2), ("int", 4)])]),
        ("op", "PopB", [("op", "Suffix", [s, ("int", 2)])]),
        ("assert", [("op", "Lt", [("int", 1), ("int", 2)])], "chk"),
        ("approve",)]), [], []), 6))
    out.append(("assert-many", Program("app", ("seq", [
        ("assert", [("op", "Lt", [("int", 1), ("int", 2)]), ("global", "GroupSize"), ("op", "EqU", [("txn", "OnCompletion"), ("int", 0)])], None),
        ("assert", [("int", 1), ("op", "Ge", [("txn", "Fee"), ("int", 0)]), ("int", 3), ("int", 4)], "one line"),
        ("approve",)]), [], []), 6))
    out.append(("loop-first", Program("app", ("seq", [loop, ("assert", [("int", 1), ("global", "GroupSize")], None), ("ret", ("int", 1))]), [i], []), 4))
    j = Var(U)
    wl = ("seq", [("store", j, ("int", 0)),
                  ("while", ("op", "Lt", [("load", j), ("int", 2)]),
                   ("seq", [("store", j, ("op", "Add2", [("load", j), ("int", 1)])), ("if", ("load", j), ("break",), None)])),
                  ("cond", [(("load", j), ("approve",)), (("int", 1), ("reject",))])])
    out.append(("while-cond", Program("sig", wl, [j], []), 3))
    pv = Var(U)
    f = Sub(0, "helper", [("val", pv)], U, None)
    f.body = ("seq", [("assert", [("param", 0)], "positive"), ("op", "Add2", [("param", 0), ("int", 1)])])
    g = Sub(1, "sink", [], N, None)
    g.body = ("seq", [("op", "PopU", [("call", f, [("int", 3)])]), ("if", ("int", 1), ("ret", None), None), ("op", "PopU", [("int", 9)])])
    out.append(("subs", Program("app", ("seq", [("call", g, []), ("ret", ("call", f, [("int", 1)]))]), [], [f, g]), 6))
    # a loop whose If continues on one side and breaks on the other, the loop exit running straight into the routine's end
    for nm, els in (("loop-continue-else-break", ("seq", [("op", "PopU", [("load", j)]), ("break",)])),
                    ("loop-continue-else-maybe-break", ("seq", [("op", "PopU", [("load", j)]), ("if", ("op", "Gt", [("load", j), ("int", 2)]), ("break",), None)]))):
        body = ("seq", [("store", j, ("op", "Add2", [("load", j), ("int", 1)])), ("if", ("op", "EqU", [("load", j), ("int", 2)]), ("continue",), els)])
        out.append((nm, Program("app", ("seq", [("store", j, ("int", 0)), ("while", ("op", "Lt", [("load", j), ("int", 5)]), body),
                                                ("ret", ("load", j))]), [j], []), 6))
        out.append((nm + "-for", Program("app", ("seq", [("for", ("store", j, ("int", 0)), ("op", "Lt", [("load", j), ("int", 5)]),
                                                          ("store", j, ("op", "Add2", [("load", j), ("int", 1)])),
                                                          ("if", ("op", "EqU", [("load", j), ("int", 2)]), ("continue",), els)),
                                                         ("ret", ("load", j))]), [j], []), 6))
    # an early exit in a branch, a variable stored only on the other path and read after the join (the directed variants put a comment
    # right behind the exit statement: see `exit_comment_variants`)
    for ei, ex in enumerate([("reject",), ("ret", ("int", 0)), ("err",)]):
        kv = Var(U)
        out.append((f"early-exit-{ei}", Program("app", ("seq", [("if", ("op", "Gt", [("txn", "Fee"), ("int", 5000)]), ex, ("store", kv, ("txn", "Fee"))),
                                                              ("op", "PopU", [("load", kv)]),
                                                              ("ret", ("op", "Ge", [("load", kv), ("int", 0)]))]), [kv], []), 6))
        kv2 = Var(U)
        out.append((f"early-exit-else-{ei}", Program("app", ("seq", [("if", ("op", "Le", [("txn", "Fee"), ("int", 5000)]),
                                                                    ("store", kv2, ("txn", "Fee")), ex),
                                                                   ("op", "PopU", [("load", kv2)]),
                                                                   ("ret", ("op", "Ge", [("load", kv2), ("int", 0)]))]), [kv2], []), 6))
    k = Var(U)
    out.append(("store-load", Program("app", ("seq", [("store", k, ("txn", "Fee")), ("if", ("load", k), ("approve",), None), ("reject",)]), [k], []), 8))
    return out


def exit_comment_variants(p: Program):
    """for the `early-exit` programs: the exit statement of the If arm becomes Seq(exit, Comment) -- a comment BEHIND a statement that never
    completes, in a position whose typing the comment does not change (the If is not the last statement of its sequence)"""
    out = []
    iff = p.main[1][0]
    for text in ("x", "after the exit\nsecond line"):
        arm = 2 if iff[2][0] in ("reject", "ret", "err") else 3
        new_if = tuple(("seq", [iff[arm], ("comment", text, None)]) if j == arm else x for j, x in enumerate(iff))
        out.append(Variant("comment-stmt", clone(p, main=("seq", [new_if] + p.main[1][1:])), {"text": text, "after_exit": True, "arm": arm}))
    return out


def recorded_pairs():
    """the programs whose real outputs are recorded in Models/Annot.lean (layout_counterexample, optimiser_counterexample)"""
    i = Var(U, 0)

    def loop(inner):
        return Program("app", ("seq", [("store", i, ("int", 0)),
                                       ("for", ("store", i, ("int", 0)), ("op", "Lt", [("load", i), ("int", 2)]),
                                        ("store", i, ("op", "Add2", [("load", i), ("int", 1)])), ("if", ("load", i), inner, None)),
                                       ("approve",)]), [i], [])
    k = Var(U)

    def sl(mid):
        return Program("app", ("seq", [("store", k, ("txn", "Fee"))] + mid + [("if", ("load", k), ("approve",), None), ("reject",)]), [k], [])
    return [("layout", 6, loop(("continue",)), loop(("comment", "x", ("continue",)))),
            ("optimiser", 10, sl([]), sl([("comment", "x", None)]))]


def recorded_check(rep, d, stats):
    for name, ver, base, var in recorded_pairs():
        for which, p in (("base", base), ("variant", var)):
            a = d.ask(f"c18-recorded {name}-{which}")
            want = bytes.fromhex(a).decode("utf-8")
            res = compile_real(p, ver)
            if res[0] == "ok" and res[1] == want:
                stats["recorded:reproduced"] += 1
            else:
                stats["recorded:changed"] += 1
                rep.notes.append(f"recorded output {name}-{which} (Lean theorem {name}_counterexample) is no longer what the compiler emits: {res[:2]!r}")


# ----------------------------------------------------------------------------- the run


def configs(tier):
    return dict(nprog=40 if tier == "quick" else 100, nsampled=0 if tier == "quick" else 200, exec_every=4 if tier == "quick" else 2, nctx=2 if tier == "quick" else 4,
                search_ctx=40 if tier == "quick" else 400)


class Pair:
    """base and variant inside the driver for execution"""

    def __init__(self, d, base_teal, var_teal):
        self.d = d
        self.a = d.ask("teal c18a " + base_teal.encode("utf-8").hex())
        self.b = d.ask("teal c18b " + var_teal.encode("utf-8").hex())

    @property
    def loaded(self):
        return self.a.startswith("ok") and self.b.startswith("ok")

    def run(self, ctx, fuel=40000):
        c = self.d.ask("ctx c18c " + render_ctx(ctx))
        if c != "ok":
            return "perr ctx " + c
        return self.d.ask(f"cmpx c18a c18b c18c {fuel} - 0")


def compare(rep, d, streams, r, cfg, stats, base_prog, base_res, version, v: Variant, recorded: Counter, samples):
    """one base/variant pair; returns number of executions"""
    res = compile_real(v.prog, version)
    execs = 0
    if base_res[0] == "timeout" or res[0] == "timeout":
        stats["pair:timeout"] += 1
        return 0
    stats[f"pair:{v.kind}:{base_res[0]}/{res[0]}"] += 1

    def replay_dict(extra=None):
        body = {"kind": "pair", "variant_kind": v.kind, "detail": v.detail, "version": version, "mode": base_prog.mode,
                "base_pickle": pack(base_prog), "variant_pickle": pack(v.prog), "nonce": v.nonce.hex() if v.nonce is not None else None,
                "base_result": list(base_res[:3]), "variant_result": list(res[:3])}
        body.update(extra or {})
        return body

    def report(what, extra=None, key=None, no_input=False):
        cls = key or what.split(":")[0]
        recorded[cls] += 1
        if recorded[cls] <= MAXREC or key:
            rep.violation(what, replay_dict(extra), key=key, no_input=no_input)

    # same compile outcome class
    if (base_res[0], base_res[1] if base_res[0] != "ok" else "") != (res[0], res[1] if res[0] != "ok" else ""):
        text = v.detail.get("text") if isinstance(v.detail, dict) else None
        if base_res[0] == "ok" and res[:2] == ("crash", "RecursionError") and isinstance(text, str) and len(text.splitlines()) >= 100:
            report(f"a comment of {len(text.splitlines())} lines makes compilation die with RecursionError ({v.kind})", key="C18-long-comment-recursion")
            return 0
        if v.hidden and base_res[:2] == ("err", "TealCompileError") and res[0] == "ok" and "end index must be greater" in str(base_res[2:]):
            # Substring.__get_op (the opcode selection) is also where `end >= start` is checked, for literal Ints only
            report(f"wrapping an Int literal operand of Substring hides it from the opcode selection and from its literal-only check "
                   f"`end >= start` ({v.kind}): the base is refused at compile time, the variant compiles to substring3", key="C18-wrapped-literal-opcode")
            return 0
        report(f"compile outcome changed by an annotation ({v.kind} {str(v.detail)[:120]}): base {base_res[:2] if base_res[0] != 'ok' else 'ok'} "
               f"variant {res[:3] if res[0] != 'ok' else 'ok'}")
        return 0
    if base_res[0] != "ok":
        stats["pair:both-rejected"] += 1
        return 0
    base_teal, var_teal = base_res[1], res[1]
    sb, sv = streams.of(base_teal), streams.of(var_teal)
    nonce_pos = None
    if v.nonce is not None and var_teal == base_teal:
        # the wrapped node is in code the compiler does not emit (e.g. behind a Return): nothing to delete, nothing changed
        same = True
        stats["nonce:not-emitted(identical text)"] += 1
    elif v.nonce is not None:
        pos, ncand = delete_nonce(d, sv, sb, v.nonce)
        same = pos is not None
        nonce_pos = pos
        stats[f"nonce:candidates={min(ncand, 3)}"] += 1
    else:
        same = alpha(sb) == alpha(sv)
    stats["streams:identical" if same else "streams:differ"] += 1
    if same and var_teal != base_teal:
        stats["streams:identical-but-text-differs"] += 1
        if len(samples) < 6 and v.kind not in {s.get("kind") for s in samples}:
            samples.append({"kind": v.kind, "detail": {k: (x[:60] if isinstance(x, str) else x) for k, x in v.detail.items()}, "version": version,
                            "statements": len(sb), "base_text_lines": base_teal.count("\n") + 1, "variant_text_lines": var_teal.count("\n") + 1,
                            "nonce_pair_at": nonce_pos})
    run_exec = (not same) or (stats["pairs-compared"] % cfg["exec_every"] == 0)
    stats["pairs-compared"] += 1
    differing = None
    perr = None
    if run_exec:
        p = Pair(d, base_teal, var_teal)
        if p.loaded:
            for _ in range(cfg["search_ctx"] if not same else cfg["nctx"]):
                ctx = gen_ctx(r, base_prog.mode, version)
                out = p.run(ctx)
                execs += 1
                stats["exec:" + " ".join(out.split(" ")[:2])] += 1
                if out.startswith(("differ", "stackdiffer")):
                    differing = (ctx, out)
                    break
        else:
            perr = (p.a, p.b)
            stats["exec:parse-error"] += 1
    if same and differing is None and perr is None:
        return execs
    diff = None
    if not same:
        a2, b2 = alpha(sb), alpha(sv)
        diff = first_diff(a2, b2)
    extra = {"base_teal": base_teal, "variant_teal": var_teal, "first_stream_difference": diff}
    if differing is not None:
        extra["ctx"] = render_ctx(differing[0])
        extra["compare"] = differing[1]
    if perr is not None:
        extra["parse"] = list(perr)
    if not same and version >= 9 and not v.has_nl_name and differing is None and perr is None:
        # the scratch-slot optimiser is on by default from version 9: does the difference vanish without it?
        ob, ov = compile_real(base_prog, version, scratch_slots=False), compile_real(v.prog, version, scratch_slots=False)
        if ob[0] == "ok" == ov[0]:
            s1, s2 = streams.of(ob[1]), streams.of(ov[1])
            same_off = (delete_nonce(d, s2, s1, v.nonce)[0] is not None) if v.nonce is not None else alpha(s1) == alpha(s2)
            stats["optimiser-off:" + ("identical" if same_off else "still-differs")] += 1
            if same_off:
                extra["without_optimiser"] = "identical"
                report(f"an annotation between a store and the load of the same slot inhibits the scratch-slot optimiser ({v.kind}): "
                       f"first difference {diff}; streams identical with scratch_slots=False", extra, key="C18-annotation-blocks-slot-optimisation")
                return execs
    if not same and not v.has_nl_name and differing is None and perr is None:
        cands = [sv]
        if v.nonce is not None:
            cands = [sv[:i] + sv[i + 2:] for i in range(len(sv) - 1) if sv[i][0] in ("byte", "pushbytes") and sv[i + 1] == ("pop",)
                     and d.ask("c18-instr " + ",".join(th(t) for t in sv[i])) == "bytes " + hexs(v.nonce)]
        if not v.hidden and any(same_flow(sb, c) for c in cands):
            stats["layout-only"] += 1
            extra["control_flow"] = "isomorphic, same instructions"
            report(f"a block that holds only a comment changes the block layout chosen by the flattener ({v.kind} around/before `{v.detail.get('node', 'statement')}`): "
                   f"first difference {diff}; control-flow graphs are isomorphic over identical instructions", extra, key="C18-comment-block-changes-layout")
            return execs
    if v.has_nl_name:
        # was the known finding C18-name-newline until the repair 90c7383 (name_comment_safe now holds for every name):
        # a violation, no key
        report(f"subroutine name with a line feed changes the statement stream (the defect repaired by 90c7383 is back?): "
               f"{str(v.detail)[:100]} first difference {diff}" +
               (f"; behaviour differs: {differing[1][:200]}" if differing else "") + (f"; parse: {perr[1][:100]}" if perr else ""), extra)
        return execs
    if v.hidden and differing is None and perr is None and not same and literal_selection_only(sb, sv, v.nonce):
        report(f"wrapping an Int literal operand of Substring/Extract/Suffix changes the opcode selection ({v.kind}): first difference {diff}",
               extra, key="C18-wrapped-literal-opcode")
        return execs
    if differing is not None and not same and version >= 9 and perr is None:
        # optimiser on by default: the annotation may have inhibited it (known finding) while the OPTIMISED twin shows the
        # optimiser's own dead-store defect (C03-dead-store-optimised: a deleted store leaves its value on the stack, and under
        # `proto n 1` retsub returns the bottom-most value).  Witness: without the optimiser both programs are identical,
        # and the optimised text lost a store that had no load.
        from c03 import dead_store_deleted
        ob, ov = compile_real(base_prog, version, scratch_slots=False), compile_real(v.prog, version, scratch_slots=False)
        if ob[0] == "ok" == ov[0]:
            s1, s2 = streams.of(ob[1]), streams.of(ov[1])
            same_off = (delete_nonce(d, s2, s1, v.nonce)[0] is not None) if v.nonce is not None else alpha(s1) == alpha(s2)
            if same_off and (dead_store_deleted(ob[1], base_teal) or dead_store_deleted(ov[1], var_teal)):
                stats["optimiser-off:identical, optimised twin has the dead-store defect"] += 1
                extra["without_optimiser"] = "identical"
                report(f"an annotation between a store and the load of the same slot inhibits the scratch-slot optimiser ({v.kind}); the "
                       f"optimised twin deletes a dead store (C03-dead-store-optimised), so the behaviour differs too: {differing[1][:200]}; "
                       f"streams identical with scratch_slots=False", extra, key="C18-annotation-blocks-slot-optimisation")
                return execs
    if differing is not None:
        report(f"behaviour changed by an annotation ({v.kind} {str(v.detail)[:100]}): {differing[1][:300]}", extra)
    elif perr is not None and same:
        report(f"annotated program does not parse ({v.kind}): {perr[1][:200]}", extra)
    else:
        report(f"instruction stream changed by an annotation ({v.kind} {str(v.detail)[:100]}): first difference at statement {diff}; "
               f"no behavioural difference found in {execs} executions" + (f" (parse: {perr})" if perr else ""), extra, no_input=False)
    return execs


def run(tier: str) -> int:
    rep = Report("C18", tier, level="proof")
    st = check_proofs(PROOF_MODULES)
    cfg = configs(tier)
    r = rng("c18")
    d = Driver()
    stats, gstats, recorded = Counter(), Counter(), Counter()
    samples, csamples = [], []
    streams = Streams(d, stats)
    ranges, ptver = satisfied_ranges()

    # PyTeal formats the whole Python stack for every Expr it creates (diagnostics only, half of the
    # compile time): the stdlib formatter is stubbed for the duration of the run
    qt = quiet_traces()
    qt.__enter__()
    ncorr_bad = correspondence(rep, d, streams, r, tier, stats, csamples)
    recorded_check(rep, d, stats)

    execs = 0
    distinct = set()
    progs = []
    for name, p, ver in seeded_programs():
        progs.append((name, p, [ver, 10]))
    for i in range(cfg["nprog"] + cfg["nsampled"]):
        mode = r.choice(["app", "app", "sig"])
        ver = r.choice([2, 3, 4, 5, 6, 7, 8, 9, 10])
        nsubs = r.choice([0, 0, 1, 2, 3]) if ver >= 4 else 0
        g = G(r, Cfg(mode=mode, version=ver, subs=nsubs, notes=True, max_depth=r.choice([2, 3, 4]), max_stmts=r.choice([2, 4, 6]),
                     recursive=(nsubs > 0 and r.random() < 0.15)))
        p = g.program()
        for k, v in g.stats.items():
            gstats[k.split(":")[0]] += v
        vers = sorted({ver, r.choice(range(2, 11))}) if r.random() < 0.3 else [ver]
        progs.append((f"gen{i}" if i < cfg["nprog"] else f"gensampled{i}", p, vers))
    for name, p, vers in progs:
        for ver in vers:
            base = compile_real(p, ver)
            stats[f"base:{base[0]}"] += 1
            stats[f"version:{ver}"] += 1
            stats[f"mode:{p.mode}"] += 1
            stats[f"subs:{len(p.subs)}"] += 1
            if base[0] == "ok":
                again = compile_real(clone(p), ver)
                if again != base:
                    stats["base:not-deterministic"] += 1
                    continue
                distinct.add(base[1])
            seeded = not name.startswith("gen")
            vs = variants(p, r, "thorough" if ((tier == "thorough" and not name.startswith("gensampled")) or seeded) else "quick", ranges, stats)
            if name.startswith("early-exit"):
                vs += exit_comment_variants(p)
            if name == "store-load" and ver == 8:
                # directed: a comment of 600 lines (the compiler recurses once per statement)
                vs.append(Variant("comment-stmt", clone(p, main=("seq", [("comment", "\n" * 600, None)] + p.main[1])), {"text": "\n" * 600, "index": 0}))
            for v in vs:
                execs += compare(rep, d, streams, r, cfg, stats, p, base, ver, v, recorded, samples)

    # regression case (was the known finding C18-name-newline, repaired by 90c7383; Lean: name_comment_regression):
    # the routine named "f\nerr" must have the statement stream of the routine named "f" -- `compare` reports a
    # VIOLATION (no key) if the extra `err` statement ever comes back
    f = Sub(0, "f\nerr", [], N, ("op", "PopU", [("int", 1)]))
    kp = Program("app", ("seq", [("call", f, []), ("approve",)]), [], [f])
    f2 = Sub(0, "f", [], N, ("op", "PopU", [("int", 1)]))
    kb = Program("app", ("seq", [("call", f2, []), ("approve",)]), [], [f2])
    execs += compare(rep, d, streams, r, cfg, stats, kb, compile_real(kb, 6), 6,
                     Variant("rename", kp, {"names": ["f\nerr"]}, has_nl_name=True), recorded, samples)
    reg = compile_real(kp, 6)
    stats["regression:name-newline:" + ("header-as-model" if reg[0] == "ok" and "\n\n// f\n// err\nferr_0:\n" in reg[1] else "HEADER-DIFFERS")] += 1
    if not (reg[0] == "ok" and "\n\n// f\n// err\nferr_0:\n" in reg[1]):
        rep.violation("the header of the subroutine named 'f\\nerr' is not the text of name_comment_regression (`// f`, `// err`, `ferr_0:`): "
                      + repr(reg[1])[:300], {"kind": "regression", "name": "f\nerr", "version": 6, "result": list(reg[:2])})
    d.close()
    qt.__exit__()

    if stats["strip:line-split-differs-from-String.splitOn"]:
        rep.violation("Models.Annot.lines disagrees with String.splitOn \"\\n\" on a TEAL text of this run",
                      {"kind": "model", "count": stats["strip:line-split-differs-from-String.splitOn"]}, no_input=True)
    if not st.ok:
        rep.violation("proof obligations no longer check: " + "; ".join(st.problems)[:600],
                      {"theorems": PROOF_MODULES, "problems": st.problems, "log": st.log[-3000:]}, no_input=True)
    pairs = stats["pairs-compared"]
    cov = {
        "programs": len(progs),
        "base_compilations": sum(v for k, v in stats.items() if k.startswith("base:")),
        "variant_pairs_compared": pairs,
        "streams_identical": stats["streams:identical"],
        "streams_identical_with_different_text": stats["streams:identical-but-text-differs"],
        "streams_differ": stats["streams:differ"],
        "evaluations": pairs + stats["corr:text"] + stats["corr:compiled"] + stats["corr:header"],
        "executions": execs,
        "distinct_nontrivial": len(distinct),
        "correspondence_mismatches": ncorr_bad,
        "pyteal_version": ptver,
        "satisfied_pragma_ranges": ranges,
        "rule": "programs: type-directed random trees (harness/gen.py, main-only and 1-3 subroutines incl. recursive, versions 2..10, both modes) "
                "+ 4 seeded recipes; each compiled by the real compileTeal with its variants: comment statement before a statement / comment wrapper "
                "around an expression (quick: 3+3 random points, thorough: every point), assert comment added/removed/changed, Pragma wrapper with a "
                "satisfied range, Nonce wrapper (4 bases), subroutines renamed (plain and line-feed streams); texts: fixed list of 40 delicate texts "
                "+ random code-point strings over separators/quotes/`//`/`;`/fragments/any scalar value, up to 5000 chars; "
                "distinct = distinct base TEAL texts; evaluations = compared pairs + correspondence inputs",
        "samples": (samples + csamples) or [{"note": "no sample"}],
        "distribution": {"constructs": dict(gstats.most_common(30)), "run": dict(sorted(stats.items()))},
    }
    cov.update(proof_coverage(st, "cd lean && lake build " + " ".join(PROOF_MODULES), TRUSTED))
    rep.coverage.update(cov)
    rep.assumptions += TRUSTED
    rep.notes.append("stream identity for arbitrary insertion points is established by exhaustive/random search on the real compiler, not by a theorem "
                     "(the flattening pass is not modelled here); the theorems cover the text level and the wrapper nodes of the code-generation model")
    return rep.finish()


def replay(path: str) -> int:
    body = json.loads(open(path).read())
    print("what:", body.get("what"))
    if body.get("kind") == "inject":
        pt = _pt()
        from pyteal.ast.comment import CommentExpr
        t = body["text"]
        mk = {"CommentExpr": lambda: CommentExpr(t), "Comment": lambda: pt.Comment(t)}[body["constructor"]]
        d = Driver()
        try:
            teal = pt.compileTeal(pt.Seq(mk(), pt.Approve()), pt.Mode.Application, version=body["version"])
            print("real TEAL now:\n" + teal)
            print("statements:", Streams(d, Counter()).of(teal), "expected:", body["expected"])
        except Exception as e:  # noqa: BLE001
            print("now raises:", type(e).__name__, e)
        d.close()
        return 0
    if body.get("kind") != "pair":
        print(json.dumps(body, indent=1)[:4000])
        return 0
    d = Driver()
    stats = Counter()
    streams = Streams(d, stats)
    base, var = unpack(body["base_pickle"]), unpack(body["variant_pickle"])
    ver = body["version"]
    print("variant:", body["variant_kind"], json.dumps(body["detail"], default=str)[:500])
    rb, rv = compile_real(base, ver), compile_real(var, ver)
    print("base   compile:", rb[0], rb[1:] if rb[0] != "ok" else "")
    print("variant compile:", rv[0], rv[1:] if rv[0] != "ok" else "")
    if rb[0] == "ok" == rv[0]:
        sb, sv = streams.of(rb[1]), streams.of(rv[1])
        if body.get("nonce"):
            pos, nc = delete_nonce(d, sv, sb, bytes.fromhex(body["nonce"]))
            print(f"nonce pair: {nc} candidate(s); deletion at {pos} gives the base stream: {pos is not None}")
        else:
            a, b = alpha(sb), alpha(sv)
            print("streams identical:", a == b, "first difference:", first_diff(a, b))
        print("--- base TEAL\n" + rb[1][:3000])
        print("--- variant TEAL\n" + rv[1][:3000])
        p = Pair(d, rb[1], rv[1])
        print("parse:", p.a, "/", p.b)
        if p.loaded and "ctx" in body:
            print(d.ask("ctx c18c " + body["ctx"]))
            print("base   :", d.ask("exec c18a c18c 40000"))
            print("variant:", d.ask("exec c18b c18c 40000"))
            print("compare:", d.ask("cmpx c18a c18b c18c 40000 - 0"))
    d.close()
    return 0
