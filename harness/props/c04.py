"""C04 — successful compilation yields complete, target-legal TEAL.

Technique: a verified checker applied to the real compiler output.
  * `Flow.wf : Program -> version -> mode -> Bool` (lean/PyTealV/Check/Flow.lean) with the kernel-
    checked theorems of lean/PyTealV/Proofs/C04.lean (`wf_sound_control`, `wf_sound_inside`,
    `wf_paths`, `wf_sound_illegal`, `wfReport_ok_iff`) relating it to the machine `Avm.step/run`;
  * the legality table `OpSpec` (hand-written from the AVM specification) tied to the LIVE PyTeal
    tables by `optable_agrees` / `fieldtable_agrees` over the regenerated `Gen/*.lean`;
  * this module runs `wf` (driver command `c04-wf`) on the REAL TEAL of generated programs, of a
    catalogue that reaches every opcode and every field PyTeal can emit at every version 2..10 in
    both modes, of streams aimed at the known weak spots, and of the golden `.teal` files.

A program that PyTeal emits and `wf` rejects is a violation of C04 (replayed from its recipe); the
specific defects of the pinned tree are matched by key against known_findings.json."""
import hashlib
import inspect
import json
import re
import sys
import time
from collections import Counter
from pathlib import Path

from common import LEAN, REPO, VERIF, Driver, Report, check_proofs, proof_coverage, rng, seed

import translate
import gen as gen_
import recipes

pt = recipes.pt  # the real pyteal under common.REPO

# AnnotLemmas: the splitlines / comment-line lemmas that §5 (label lines) shares with C18
MODULES = ["PyTealV.Proofs.C04", "PyTealV.Proofs.AnnotLemmas"]
EXTRA = [LEAN / "PyTealV" / "Proofs" / f for f in ("C04Lemmas.lean", "C04Flow.lean", "C04Legal.lean")] + [
    LEAN / "PyTealV" / "Check" / "Flow.lean", LEAN / "PyTealV" / "OpSpec.lean", LEAN / "PyTealV" / "Cmd" / "C04.lean",
    LEAN / "PyTealV" / "Models" / "LabelText.lean", LEAN / "PyTealV" / "Models" / "Annot.lean"]
TRUSTED = [
    "Lean 4 kernel; axioms propext, Classical.choice, Quot.sound only",
    "Avm.Syntax / Avm.Sem (hand-written TEAL grammar and machine; never edited by this check)",
    "OpSpec (hand-written AVM opcode/field table v2..v10: versions, modes, immediates); anchored by the golden .teal conformance run",
    "translate.py (live pyteal tables -> Gen/*.lean), this harness, the native driver",
]
VERSIONS = list(range(2, 11))
MODES = ["app", "sig"]
PT_MODE = recipes.PT_MODE

# ----------------------------------------------------------------------------- wf on real TEAL

_METHOD = re.compile(r'method\s+"((?:[^"\\]|\\.)*)"')


def _sha512_256(b: bytes) -> bytes:
    try:
        return hashlib.new("sha512_256", b).digest()
    except ValueError:  # pragma: no cover
        from Crypto.Hash import SHA512
        h = SHA512.new(truncate="256")
        h.update(b)
        return h.digest()


def selectors(teal: str) -> list[str]:
    out = set()
    for m in _METHOD.finditer(teal):
        raw = m.group(1)
        sig = raw.replace('\\"', '"').replace("\\\\", "\\")
        b = sig.encode()
        out.add((b.hex() or "-") + "=" + _sha512_256(b)[:4].hex())
    return sorted(out)


def wf_line(teal: str, version: int, mode: str) -> str:
    return " ".join(["c04-wf", teal.encode("utf-8", "surrogatepass").hex() or "-", str(version), mode] + selectors(teal))


def parse_answer(ans: str) -> dict:
    w = ans.split(" ")
    if w[0] == "ok":
        d = dict(x.split("=") for x in w[1:])
        return {"ok": True, "templates": d.get("templates") == "1", "constloads": d.get("constloads") == "1",
                "routines": int(d.get("routines", 0)), "reachable": int(d.get("reachable", 0))}
    if w[0] == "bad":
        det = ""
        if len(w) > 3 and w[3] != "-":
            try:
                det = bytes.fromhex(w[3]).decode("utf-8", "replace")
            except ValueError:
                det = w[3]
        return {"ok": False, "rule": w[1], "pc": int(w[2]), "detail": det}
    return {"ok": False, "rule": "driver", "pc": 0, "detail": ans}


ARRAY_OPS = ("txna", "gtxna", "gtxnsa", "itxna", "gitxna")


def classify(res: dict) -> str | None:
    """known-finding key of a wf rejection, by the rule and the offending line"""
    if res.get("ok") or res.get("rule") != "illegal":
        return None
    det = res.get("detail", "")
    m = re.match(r"immediate (\S+) out of range: (\S+)(.*)$", det)
    if m:
        op, rest = m.group(2), m.group(3).split()
        if op in ARRAY_OPS and rest and rest[-1] == m.group(1) and m.group(1).isdigit() and int(m.group(1)) > 255:
            # a constant transaction-array index has only a lower bound (txn.py TxnArray.__getitem__)
            others_ok = all((not t.isdigit()) or int(t) <= 255 for t in rest[:-1])
            if others_ok:
                return "C04-txna-index-over-255"
        # `intc`/`bytec` above 255 (retired key C04-intc-over-255, repaired by commit 2a27358 of
        # pyteal/compiler/constants.py: the blocks hold at most 256 entries) is not classified any more:
        # if the "constants" stream ever shows one again it is a plain violation
        return None
    if re.match(r"field AssetCreator needs version 5: asset_params_get AssetCreator$", det):
        return "C04-assetcreator-below-v5"
    if re.match(r"field \S+ (needs version \d+|not accepted here): itxn_field \S+$", det):
        return "C04-itxn-field-not-settable"
    return None


class Run:
    def __init__(self, rep: Report, tier: str):
        self.rep, self.tier = rep, tier
        self.d = Driver()
        self.pending: list[tuple[str, dict, str | None]] = []
        self.n_wf = 0
        self.n_ok = 0
        self.n_bad = 0
        self.outcomes = Counter()
        self.by_stream = Counter()
        self.distinct = set()
        self.samples: list[str] = []
        self.known = Counter()
        self.ops_seen = Counter()
        self.templates = 0
        self.constloads = 0
        self.t0 = time.time()

    def note_outcome(self, stream: str, kind: str):
        self.outcomes[f"{stream}:{kind}"] += 1

    def submit(self, teal: str, version: int, mode: str, replay: dict, force_key: str | None = None):
        """queue one emitted program for wf"""
        self.pending.append((wf_line(teal, version, mode), dict(replay, version=version, mode=mode, teal=teal), force_key))
        if len(self.pending) >= 150:
            self.flush()

    def flush(self):
        if not self.pending:
            return
        answers = self.d.ask_many([p[0] for p in self.pending])
        for (line, rp, force_key), ans in zip(self.pending, answers):
            res = parse_answer(ans)
            self.n_wf += 1
            stream = rp.get("stream", "?")
            self.by_stream[stream] += 1
            h = hashlib.sha256(rp["teal"].encode("utf-8", "surrogatepass")).hexdigest()
            if h not in self.distinct:
                self.distinct.add(h)
                for ln in rp["teal"].split("\n"):
                    tok = ln.split()
                    if tok and not tok[0].startswith("//") and not tok[0].startswith("#") and not tok[0].endswith(":"):
                        self.ops_seen[tok[0]] += 1
            if res["ok"]:
                self.n_ok += 1
                self.templates += res["templates"]
                self.constloads += res["constloads"]
                if len(self.samples) < 6 and rp["teal"].count("\n") > 6 and self.n_wf % 37 == 0:
                    self.samples.append(f"{stream} v{rp['version']} {rp['mode']}: {rp['teal'].count(chr(10)) + 1} lines, "
                                        f"{res['routines']} routines, {res['reachable']} reachable")
                continue
            self.n_bad += 1
            key = force_key or classify(res)
            lines = rp["teal"].split("\n")
            what = (f"emitted TEAL is not a legal v{rp['version']} {rp['mode']} program: rule={res['rule']} pc={res['pc']} "
                    f"{res['detail']} [{stream} {rp.get('case', '')}]")
            if key:
                self.known[key] += 1
            self.rep.violation(what, dict(rp, wf=res, teal_head=lines[:40]), key=key)
        self.pending = []

    def close(self):
        self.flush()
        self.d.close()


# ----------------------------------------------------------------------------- compile helpers


def own_errors():
    import pyteal.errors as pe
    return (pe.TealInputError, pe.TealCompileError, pe.TealTypeError, pe.TealInternalError, pe.TealPragmaError)


def compile_expr(thunk, mode: str, version: int, **kw):
    """('ok', teal) | ('err', cls, msg) | ('crash', cls, msg) for a thunk building a fresh AST"""
    try:
        ast = thunk()
        return ("ok", pt.compileTeal(ast, PT_MODE[mode], version=version, **kw))
    except own_errors() as e:
        return ("err", type(e).__name__, str(e)[:200])
    except Exception as e:  # noqa: BLE001
        return ("crash", type(e).__name__, str(e)[:200])


OPTION_SETS = [
    {},
    {"assemble": True},
    {"scratch_slots": True},
    {"scratch_slots": False, "frame_pointers": False},
    {"frame_pointers": True, "assemble": True},
]


def opt_kwargs(o: dict, version: int) -> dict | None:
    if o.get("frame_pointers") and version < 8:
        return None
    return o


# ----------------------------------------------------------------------------- (i) generated programs


def gen_case(i: int):
    r = rng(f"c04-gen-{i}")
    subs_bias = i % 3 == 0
    version = VERSIONS[i % len(VERSIONS)]
    mode = MODES[(i // len(VERSIONS)) % 2]
    subs = 0
    if version >= 4:
        subs = r.choice([0, 2, 3, 4] if subs_bias else [0, 0, 0, 2, 3, 4])
    cfg = gen_.Cfg(mode=mode, version=version, subs=subs, max_depth=r.choice([2, 3, 3, 4]), max_stmts=r.choice([2, 4, 5]),
                   wide=version >= 5, notes=r.random() < 0.3, byref=version >= 5,
                   recursive=bool(subs) and r.random() < 0.35, call_bias=0.3 if subs else 0.0,
                   control_in_operand=r.random() < 0.15)
    prog = gen_.G(r, cfg).program()
    return prog, version, mode, subs


def stream_gen(run: Run, n: int, start: int = 0):
    for i in range(start, start + n):
        try:
            prog, version, mode, subs = gen_case(i)
        except Exception as e:  # noqa: BLE001  generator trouble is not the compiler's
            run.note_outcome("gen", "generator-error")
            continue
        opts = [OPTION_SETS[0], OPTION_SETS[1 + (i % (len(OPTION_SETS) - 1))]]
        for o in opts:
            if opt_kwargs(o, version) is None:
                continue
            res = recipes.compile_real(prog, version, **o)
            run.note_outcome("gen", res[0])
            if res[0] == "ok":
                run.submit(res[1], version, mode, {"stream": "gen", "case": f"#{i} subs={subs} opts={o}", "index": i, "opts": o})


def stream_required(run: Run, n: int):
    """programs generated for a high version, compiled for a lower target: PyTeal must reject what
    the target lacks; whatever it emits goes through wf (the deciding oracle). `required` is the
    harness's own estimate, reported as evidence."""
    stats = Counter()
    for i in range(n):
        c = req_case(i)
        if c is None:
            continue
        prog, gv, gmode, target, tmode, need_v, need_mode, res = c
        lacks = need_v > target or (need_mode is not None and need_mode != tmode)
        stats[("lacks" if lacks else "has") + ":" + res[0]] += 1
        run.note_outcome("required", res[0])
        if res[0] == "ok":
            run.submit(res[1], target, tmode, {"stream": "required", "case": f"#{i} gen=v{gv}/{gmode} target=v{target}/{tmode}",
                                               "index": i, "need": [need_v, need_mode]})
    return dict(stats)


def req_case(i: int):
    r = rng(f"c04-req-{i}")
    gv = r.choice([5, 6, 7, 8, 10])
    gmode = r.choice(MODES)
    subs = r.choice([0, 0, 2])
    cfg = gen_.Cfg(mode=gmode, version=gv, subs=subs, max_depth=3, max_stmts=3, wide=True)
    try:
        prog = gen_.G(r, cfg).program()
    except Exception:  # noqa: BLE001
        return None
    target = r.choice([v for v in VERSIONS if v <= gv])
    tmode = gmode if r.random() < 0.7 else ("sig" if gmode == "app" else "app")
    need_v, need_mode = required(prog)
    prog.mode = tmode
    res = recipes.compile_real(prog, target)
    prog.mode = gmode
    return prog, gv, gmode, target, tmode, need_v, need_mode, res


def required(prog) -> tuple[int, str | None]:
    """(minimum version, required mode or None) of a recipe program — extends gen.required_version by
    subroutine bodies and run modes"""
    need_mode = [None]

    def walk_mode(n):
        if isinstance(n, tuple) and n:
            if n[0] == "arg":
                need_mode[0] = "sig"
            if n[0] == "op" and recipes.OPS[n[1]]["mode"] == "app":
                need_mode[0] = need_mode[0] or "app"
            for x in n:
                if isinstance(x, (tuple, list)):
                    walk_mode(x)
        elif isinstance(n, list):
            for x in n:
                walk_mode(x)

    v = gen_.required_version(prog.main)
    walk_mode(prog.main)
    called = set()

    def calls(n):
        if isinstance(n, tuple) and n and n[0] == "call":
            called.add(n[1].sid)
        if isinstance(n, (tuple, list)):
            for x in n:
                if isinstance(x, (tuple, list)):
                    calls(x)

    calls(prog.main)
    todo = list(called)
    seen = set()
    by_id = {s.sid: s for s in prog.subs}
    while todo:
        sid = todo.pop()
        if sid in seen:
            continue
        seen.add(sid)
        s = by_id[sid]
        v = max(v, 4, gen_.required_version(s.body))
        walk_mode(s.body)
        before = set(called)
        calls(s.body)
        todo += list(called - before)
    if any(isinstance(n, tuple) and n and n[0] == "arg" and not isinstance(n[1], int) for n in _nodes(prog)):
        v = max(v, 5)
    return v, need_mode[0]


def _nodes(prog):
    st = [prog.main] + [s.body for s in prog.subs]
    while st:
        n = st.pop()
        if isinstance(n, tuple):
            yield n
            st += [x for x in n if isinstance(x, (tuple, list))]
        elif isinstance(n, list):
            st += [x for x in n if isinstance(x, (tuple, list))]


# ----------------------------------------------------------------------------- (ii) catalogue: every op, every field


def _val(e):
    return lambda: pt.Seq(pt.Pop(e()), pt.Approve())


def _none(e):
    return lambda: pt.Seq(e(), pt.Approve())


def _maybe(e):
    def th():
        m = e()
        return pt.Seq(m, pt.Pop(m.value()), pt.Approve())
    return th


def _multi(e, k):
    def th():
        m = e()
        return pt.Seq(m, *[pt.Pop(s.load()) for s in m.output_slots[:k]], pt.Approve())
    return th


def catalogue() -> list[tuple[str, callable]]:
    I, B = pt.Int, pt.Bytes
    u = lambda: pt.Btoi(pt.Txn.note())        # a run-time uint64 (defeats constant special-casing)  # noqa: E731
    b = lambda: pt.Txn.note()                 # a run-time byte string                               # noqa: E731
    out: list[tuple[str, callable]] = []

    def add(name, th):
        out.append((name, th))

    for nm in ["Sha256", "Keccak256", "Sha512_256", "Sha3_256", "Len", "Btoi", "BitLen", "BytesNot", "BytesSqrt"]:
        add(nm, _val(lambda nm=nm: getattr(pt, nm)(b())))
    for nm in ["Not", "Itob", "BitwiseNot", "Sqrt", "BytesZero", "Balance", "MinBalance"]:
        add(nm, _val(lambda nm=nm: getattr(pt, nm)(u())))
    add("BitLenU", _val(lambda: pt.BitLen(u())))
    add("Log", _none(lambda: pt.Log(b())))
    for nm in ["Minus", "Div", "Mod", "Exp", "ShiftLeft", "ShiftRight", "BitwiseAnd", "BitwiseOr", "BitwiseXor", "Eq", "Neq",
               "Lt", "Le", "Gt", "Ge", "GetBit"]:
        add(nm, _val(lambda nm=nm: getattr(pt, nm)(u(), u())))
    for nm in ["GetByte", "ExtractUint16", "ExtractUint32", "ExtractUint64"]:
        add(nm, _val(lambda nm=nm: getattr(pt, nm)(b(), u())))
    add("GetBitB", _val(lambda: pt.GetBit(b(), u())))
    for nm in ["BytesAdd", "BytesMinus", "BytesDiv", "BytesMul", "BytesMod", "BytesAnd", "BytesOr", "BytesXor", "BytesEq",
               "BytesNeq", "BytesLt", "BytesLe", "BytesGt", "BytesGe"]:
        add(nm, _val(lambda nm=nm: getattr(pt, nm)(b(), b())))
    for nm in ["Add", "Mul", "And", "Or"]:
        add(nm, _val(lambda nm=nm: getattr(pt, nm)(u(), u(), u())))
    add("Concat", _val(lambda: pt.Concat(b(), b(), b())))
    add("Ed25519Verify", _val(lambda: pt.Ed25519Verify(b(), b(), b())))
    add("Ed25519Verify_Bare", _val(lambda: pt.Ed25519Verify_Bare(b(), b(), b())))
    add("SetBit", _val(lambda: pt.SetBit(u(), u(), u())))
    add("SetBitB", _val(lambda: pt.SetBit(b(), u(), u())))
    add("SetByte", _val(lambda: pt.SetByte(b(), u(), u())))
    add("Divw", _val(lambda: pt.Divw(u(), u(), u())))
    add("Substring-dyn", _val(lambda: pt.Substring(b(), u(), u())))
    add("Substring-const", _val(lambda: pt.Substring(b(), I(1), I(3))))
    add("Substring-const-big", _val(lambda: pt.Substring(b(), I(1), I(300))))
    add("Extract-dyn", _val(lambda: pt.Extract(b(), u(), u())))
    add("Extract-const", _val(lambda: pt.Extract(b(), I(1), I(3))))
    add("Extract-const-big", _val(lambda: pt.Extract(b(), I(300), I(400))))
    add("Suffix-dyn", _val(lambda: pt.Suffix(b(), u())))
    add("Suffix-const", _val(lambda: pt.Suffix(b(), I(2))))
    add("Suffix-const-big", _val(lambda: pt.Suffix(b(), I(1000))))
    add("Replace-dyn", _val(lambda: pt.Replace(b(), u(), b())))
    add("Replace-const", _val(lambda: pt.Replace(b(), I(2), b())))
    add("Replace-const-big", _val(lambda: pt.Replace(b(), I(300), b())))
    add("WideRatio", _val(lambda: pt.WideRatio([u(), u()], [u()])))
    add("WideRatio-3-2", _val(lambda: pt.WideRatio([u(), u(), u()], [u(), u()])))
    from pyteal.ir.ops import Op
    U64 = pt.TealType.uint64
    add("MultiValue-addw", _multi(lambda: pt.MultiValue(Op.addw, [U64, U64], args=[u(), u()]), 2))
    add("MultiValue-mulw", _multi(lambda: pt.MultiValue(Op.mulw, [U64, U64], args=[u(), u()]), 2))
    add("MultiValue-expw", _multi(lambda: pt.MultiValue(Op.expw, [U64, U64], args=[u(), u()]), 2))
    add("MultiValue-divmodw", _multi(lambda: pt.MultiValue(Op.divmodw, [U64, U64, U64, U64], args=[u(), u(), u(), u()]), 4))
    for cv in pt.EcdsaCurve:
        add(f"EcdsaVerify-{cv.name}", _val(lambda cv=cv: pt.EcdsaVerify(cv, b(), b(), b(), (b(), b()))))
        add(f"EcdsaDecompress-{cv.name}", _multi(lambda cv=cv: pt.EcdsaDecompress(cv, b()), 2))
        add(f"EcdsaRecover-{cv.name}", _multi(lambda cv=cv: pt.EcdsaRecover(cv, b(), u(), b(), b()), 2))
    from pyteal.ast.vrfverify import VrfVerifyStandard
    from pyteal.ast.jsonref import JsonRefType
    from pyteal.ast.base64decode import Base64Encoding
    from pyteal.ast.block import BlockField
    for st in VrfVerifyStandard:
        add(f"VrfVerify-{st.name}", _multi(lambda st=st: pt.VrfVerify(st, b(), b(), b()), 2))
    for ty in JsonRefType:
        add(f"JsonRef-{ty.name}", _val(lambda ty=ty: pt.JsonRef(ty, b(), b())))
    for en in Base64Encoding:
        add(f"Base64Decode-{en.name}", _val(lambda en=en: pt.Base64Decode(en, b())))
    for bf in BlockField:
        add(f"Block-{bf.name}", _val(lambda bf=bf: pt.Block(bf, u())))
    from pyteal.ast.ec import EllipticCurve
    for cv in EllipticCurve:
        add(f"EcAdd-{cv.name}", _val(lambda cv=cv: pt.EcAdd(cv, b(), b())))
        add(f"EcScalarMul-{cv.name}", _val(lambda cv=cv: pt.EcScalarMul(cv, b(), b())))
        add(f"EcPairingCheck-{cv.name}", _val(lambda cv=cv: pt.EcPairingCheck(cv, b(), b())))
        add(f"EcMultiScalarMul-{cv.name}", _val(lambda cv=cv: pt.EcMultiScalarMul(cv, b(), b())))
        add(f"EcSubgroupCheck-{cv.name}", _val(lambda cv=cv: pt.EcSubgroupCheck(cv, b())))
        add(f"EcMapTo-{cv.name}", _val(lambda cv=cv: pt.EcMapTo(cv, b())))
    # application state
    add("App.optedIn", _val(lambda: pt.App.optedIn(u(), u())))
    add("App.localGet", _val(lambda: pt.App.localGet(u(), b())))
    add("App.localGetEx", _maybe(lambda: pt.App.localGetEx(u(), u(), b())))
    add("App.globalGet", _val(lambda: pt.App.globalGet(b())))
    add("App.globalGetEx", _maybe(lambda: pt.App.globalGetEx(u(), b())))
    add("App.localPut", _none(lambda: pt.App.localPut(u(), b(), u())))
    add("App.globalPut", _none(lambda: pt.App.globalPut(b(), u())))
    add("App.localDel", _none(lambda: pt.App.localDel(u(), b())))
    add("App.globalDel", _none(lambda: pt.App.globalDel(b())))
    add("App.box_create", _val(lambda: pt.App.box_create(b(), u())))
    add("App.box_delete", _val(lambda: pt.App.box_delete(b())))
    add("App.box_extract", _val(lambda: pt.App.box_extract(b(), u(), u())))
    add("App.box_replace", _none(lambda: pt.App.box_replace(b(), u(), b())))
    add("App.box_length", _maybe(lambda: pt.App.box_length(b())))
    add("App.box_get", _maybe(lambda: pt.App.box_get(b())))
    add("App.box_put", _none(lambda: pt.App.box_put(b(), b())))
    add("App.box_splice", _none(lambda: pt.App.box_splice(b(), u(), u(), b())))
    add("App.box_resize", _none(lambda: pt.App.box_resize(b(), u())))
    for cls, nargs in ((pt.AssetHolding, 2), (pt.AssetParam, 1), (pt.AppParam, 1), (pt.AccountParam, 1)):
        for name, member in inspect.getmembers(cls):
            if name.startswith("_") or not callable(member):
                continue
            try:
                probe = member(*[pt.Int(0) for _ in range(nargs)])
            except Exception:  # noqa: BLE001
                continue
            if not hasattr(probe, "immediate_args"):
                continue
            add(f"{cls.__name__}.{name}", _maybe(lambda member=member, nargs=nargs: member(*[u() for _ in range(nargs)])))
    # group / scratch imports
    add("Gtxn-const", _val(lambda: pt.Gtxn[1].sender()))
    add("Gtxn-dyn", _val(lambda: pt.Gtxn[u()].sender()))
    add("Gtxna-const-const", _val(lambda: pt.Gtxn[1].application_args[2]))
    add("Gtxna-const-dyn", _val(lambda: pt.Gtxn[1].application_args[u()]))
    add("Gtxna-dyn-const", _val(lambda: pt.Gtxn[u()].application_args[2]))
    add("Gtxna-dyn-dyn", _val(lambda: pt.Gtxn[u()].application_args[u()]))
    add("Txna-const", _val(lambda: pt.Txn.application_args[2]))
    add("Txna-dyn", _val(lambda: pt.Txn.application_args[u()]))
    add("InnerTxn", _val(lambda: pt.InnerTxn.sender()))
    add("InnerTxna-const", _val(lambda: pt.InnerTxn.logs[0]))
    add("InnerTxna-dyn", _val(lambda: pt.InnerTxn.logs[u()]))
    add("Gitxn", _val(lambda: pt.Gitxn[0].sender()))
    add("Gitxna-const", _val(lambda: pt.Gitxn[0].logs[1]))
    add("Gitxna-dyn", _val(lambda: pt.Gitxn[0].logs[u()]))
    add("InnerTxnBuilder", _none(lambda: pt.Seq(pt.InnerTxnBuilder.Begin(), pt.InnerTxnBuilder.SetField(pt.TxnField.receiver, b()),
                                                pt.InnerTxnBuilder.Next(), pt.InnerTxnBuilder.SetField(pt.TxnField.amount, u()),
                                                pt.InnerTxnBuilder.Submit())))
    add("InnerTxnBuilder-nonext", _none(lambda: pt.Seq(pt.InnerTxnBuilder.Begin(), pt.InnerTxnBuilder.SetField(pt.TxnField.receiver, b()),
                                                       pt.InnerTxnBuilder.Submit())))
    add("Arg-const", _val(lambda: pt.Arg(1)))
    add("Arg-dyn", _val(lambda: pt.Arg(u())))
    add("ImportScratchValue-const", _val(lambda: pt.ImportScratchValue(1, 2)))
    add("ImportScratchValue-dyn-const", _val(lambda: pt.ImportScratchValue(u(), 2)))
    add("ImportScratchValue-dyn-dyn", _val(lambda: pt.ImportScratchValue(u(), u())))
    add("GeneratedID-const", _val(lambda: pt.GeneratedID(1)))
    add("GeneratedID-dyn", _val(lambda: pt.GeneratedID(u())))
    # literals and pseudo-ops
    add("Addr", _val(lambda: pt.Addr("WSJHNPJ6YCLX5K4GUMQ4ISPK3ABMS3AL3F6CSVQTCUI5F4I65PWEMCWT3M")))
    add("MethodSignature", _val(lambda: pt.MethodSignature("add(uint64,uint64)uint64")))
    add("EnumInt", _val(lambda: pt.TxnType.ApplicationCall))
    add("OnComplete", _val(lambda: pt.OnComplete.DeleteApplication))
    add("Bytes-base64", _val(lambda: pt.Bytes("base64", "AAEC")))
    add("Bytes-base32", _val(lambda: pt.Bytes("base32", "AAAQE")))
    add("Bytes-base16", _val(lambda: pt.Bytes("base16", "0x0001ff")))
    add("Tmpl.Int", _val(lambda: pt.Tmpl.Int("TMPL_X")))
    add("Tmpl.Bytes", _val(lambda: pt.Tmpl.Bytes("TMPL_B")))
    add("Tmpl.Addr", _val(lambda: pt.Tmpl.Addr("TMPL_A")))
    # statements and control
    add("Assert", _none(lambda: pt.Assert(u())))
    add("Assert-comment", _none(lambda: pt.Assert(u(), u(), comment="must hold")))
    add("Err", lambda: pt.Seq(pt.If(u()).Then(pt.Err()), pt.Approve()))
    add("Cond", _val(lambda: pt.Cond([u(), I(1)], [u(), I(2)])))
    add("ScratchVar", lambda: pt.Seq((v := pt.ScratchVar()).store(u()), pt.Pop(v.load()), pt.Approve()))
    add("ScratchVar-255", lambda: pt.Seq((v := pt.ScratchVar(pt.TealType.uint64, 255)).store(u()), pt.Pop(v.load()), pt.Approve()))

    def dyn():
        v = pt.ScratchVar()
        d = pt.DynamicScratchVar()
        return pt.Seq(v.store(u()), d.set_index(v), d.store(u()), pt.Pop(d.load()), pt.Approve())
    add("DynamicScratchVar", dyn)

    def sub_simple():
        @pt.Subroutine(pt.TealType.uint64)
        def f(a, bb):
            return a + bb
        return pt.Seq(pt.Pop(f(u(), u())), pt.Approve())
    add("Subroutine", sub_simple)

    def sub_rec():
        @pt.Subroutine(pt.TealType.uint64)
        def fact(n):
            return pt.If(n == I(0)).Then(I(1)).Else(n * fact(n - I(1)))
        return pt.Seq(pt.Pop(fact(u())), pt.Approve())
    add("Subroutine-recursive", sub_rec)

    def sub_rec_locals():
        @pt.Subroutine(pt.TealType.none)
        def g(n, m):
            v = pt.ScratchVar()
            return pt.Seq(v.store(n + m), pt.If(n > I(0)).Then(g(n - I(1), v.load())), pt.Pop(v.load()))
        return pt.Seq(g(u(), u()), pt.Approve())
    add("Subroutine-recursive-locals", sub_rec_locals)

    def sub_rec_noargs():
        # spill of >= 2 locals around a zero-argument reentrant call that returns a value: `cover` without `uncover`
        @pt.Subroutine(pt.TealType.uint64)
        def z():
            v = pt.ScratchVar()
            w = pt.ScratchVar()
            return pt.Seq(v.store(u()), w.store(u()), pt.If(v.load() > w.load()).Then(v.store(z())), v.load() + w.load())
        return pt.Seq(pt.Pop(z()), pt.Approve())
    add("Subroutine-recursive-noargs-2locals", sub_rec_noargs)

    def sub_mutual():
        # caller with fewer local slots than the callee has arguments: the spilled slots are covered
        @pt.Subroutine(pt.TealType.uint64)
        def ff(a):
            return pt.If(a == I(0)).Then(I(0)).Else(gg(a, a, a))

        @pt.Subroutine(pt.TealType.uint64)
        def gg(x, y, zz):
            return ff(x - I(1)) + y + zz
        return pt.Seq(pt.Pop(ff(u())), pt.Approve())
    add("Subroutine-mutual-recursion", sub_mutual)

    def sub_ref():
        @pt.Subroutine(pt.TealType.none)
        def h(x: pt.ScratchVar):
            return x.store(x.load() + I(1))
        v = pt.ScratchVar()
        return pt.Seq(v.store(u()), h(v), pt.Pop(v.load()), pt.Approve())
    add("Subroutine-byref", sub_ref)

    def abi_sub():
        @pt.ABIReturnSubroutine
        def k(a: pt.abi.Uint64, s: pt.abi.String, *, output: pt.abi.Uint64) -> pt.Expr:
            return output.set(a.get() + pt.Len(s.get()))
        x = pt.abi.Uint64()
        s = pt.abi.String()
        r = pt.abi.Uint64()
        return pt.Seq(x.set(u()), s.set(b()), k(x, s).store_into(r), pt.Pop(r.get()), pt.Approve())
    add("ABIReturnSubroutine", abi_sub)
    add("OpUp", lambda: pt.Seq(pt.OpUp(pt.OpUpMode.OnCall).ensure_budget(u()), pt.Approve()))
    add("Return-in-main", lambda: pt.Seq(pt.If(u()).Then(pt.Return(I(1))), pt.Return(I(0))))
    return out


def field_catalogue() -> list[tuple[str, callable]]:
    out = []
    u = lambda: pt.Btoi(pt.Txn.note())  # noqa: E731
    zero = {pt.TealType.uint64: lambda: pt.Btoi(pt.Txn.note()), pt.TealType.bytes: lambda: pt.Txn.note()}
    objs = [("Txn", lambda: pt.Txn), ("Gtxn1", lambda: pt.Gtxn[1]), ("GtxnS", lambda: pt.Gtxn[u()]),
            ("InnerTxn", lambda: pt.InnerTxn), ("Gitxn0", lambda: pt.Gitxn[0])]
    for f in pt.TxnField:
        for oname, obj in objs:
            if f.is_array:
                out.append((f"{oname}.{f.arg_name}[1]", _val(lambda f=f, obj=obj: obj().makeTxnaExpr(f, 1))))
                out.append((f"{oname}.{f.arg_name}[e]", _val(lambda f=f, obj=obj: obj().makeTxnaExpr(f, u()))))
            else:
                out.append((f"{oname}.{f.arg_name}", _val(lambda f=f, obj=obj: obj().makeTxnExpr(f))))
        val = zero[f.type_of()]
        if f.is_array:
            out.append((f"SetField.{f.arg_name}", _none(lambda f=f, val=val: pt.Seq(
                pt.InnerTxnBuilder.Begin(), pt.InnerTxnBuilder.SetField(f, [val()]), pt.InnerTxnBuilder.Submit()))))
        else:
            out.append((f"SetField.{f.arg_name}", _none(lambda f=f, val=val: pt.Seq(
                pt.InnerTxnBuilder.Begin(), pt.InnerTxnBuilder.SetField(f, val()), pt.InnerTxnBuilder.Submit()))))
    for f in pt.GlobalField:
        out.append((f"Global.{f.arg_name}", _val(lambda f=f: pt.Global(f))))
    return out


def stream_catalogue(run: Run, entries, stream: str, versions, modes, stats: dict):
    for name, th in entries:
        for mode in modes:
            for v in versions:
                res = compile_expr(th, mode, v)
                run.note_outcome(stream, res[0])
                st = stats.setdefault(name, {"ok": 0, "err": 0, "crash": 0, "min_ok": {}})
                st[res[0]] += 1
                if res[0] == "ok":
                    cur = st["min_ok"].get(mode)
                    st["min_ok"][mode] = v if cur is None else min(cur, v)
                    run.submit(res[1], v, mode, {"stream": stream, "case": name, "entry": name})


# ----------------------------------------------------------------------------- (ii) immediates, constants, names, tails


def imm_cases() -> list[tuple[str, callable, str, int]]:
    """(name, thunk, mode, version)"""
    I = pt.Int
    u = lambda: pt.Btoi(pt.Txn.note())  # noqa: E731
    cs = []
    for idx in (0, 255, 256, 300, 65536):
        cs.append((f"Txn.application_args[{idx}]", _val(lambda idx=idx: pt.Txn.application_args[idx]), "app", 6))
        cs.append((f"Txn.accounts[{idx}]", _val(lambda idx=idx: pt.Txn.accounts[idx]), "sig", 2))
        cs.append((f"Gtxn[1].application_args[{idx}]", _val(lambda idx=idx: pt.Gtxn[1].application_args[idx]), "app", 5))
        cs.append((f"Gtxn[e].application_args[{idx}]", _val(lambda idx=idx: pt.Gtxn[u()].application_args[idx]), "app", 5))
        cs.append((f"InnerTxn.logs[{idx}]", _val(lambda idx=idx: pt.InnerTxn.logs[idx]), "app", 6))
        cs.append((f"Gitxn[0].logs[{idx}]", _val(lambda idx=idx: pt.Gitxn[0].logs[idx]), "app", 6))
    for g in (0, 15, 16, 255, 256, 1000):
        cs.append((f"Gtxn[{g}].sender", _val(lambda g=g: pt.Gtxn[g].sender()), "app", 6))
        cs.append((f"Gitxn[{g}].sender", _val(lambda g=g: pt.Gitxn[g].sender()), "app", 6))
        cs.append((f"ImportScratchValue({g},0)", _val(lambda g=g: pt.ImportScratchValue(g, 0)), "app", 6))
        cs.append((f"GeneratedID({g})", _val(lambda g=g: pt.GeneratedID(g)), "app", 6))
    for s in (0, 255, 256, 1000):
        cs.append((f"ImportScratchValue(0,{s})", _val(lambda s=s: pt.ImportScratchValue(0, s)), "app", 6))
        cs.append((f"Arg({s})", _val(lambda s=s: pt.Arg(s)), "sig", 6))
        cs.append((f"ScratchVar(slot={s})", (lambda s=s: pt.Seq((v := pt.ScratchVar(pt.TealType.uint64, s)).store(u()), pt.Pop(v.load()),
                                                                 pt.Approve())), "app", 6))
    # twins: the same immediate next to an operand taken from the stack (another opcode carries the immediate)
    for s in (-1, 0, 255, 256, 300, 1000):
        cs.append((f"ImportScratchValue(e,{s})", _val(lambda s=s: pt.ImportScratchValue(u(), s)), "app", 6))
        cs.append((f"Gtxn[e].accounts[{s}]", _val(lambda s=s: pt.Gtxn[u()].accounts[s]), "app", 6))
        cs.append((f"Gtxn[e].assets[{s}]", _val(lambda s=s: pt.Gtxn[u()].assets[s]), "app", 6))
        cs.append((f"Gtxn[{s}].application_args[e]", _val(lambda s=s: pt.Gtxn[s].application_args[u()]), "app", 6))
        cs.append((f"Gitxn[{s}].application_args[e]", _val(lambda s=s: pt.Gitxn[s].application_args[u()]), "app", 6))
        cs.append((f"Gitxn[1].application_args[{s}]", _val(lambda s=s: pt.Gitxn[1].application_args[s]), "app", 6))
        cs.append((f"InnerTxn.application_args[{s}]", _val(lambda s=s: pt.InnerTxn.application_args[s]), "app", 6))
        cs.append((f"Txn.assets[{s}]", _val(lambda s=s: pt.Txn.assets[s]), "app", 6))
        cs.append((f"ScratchLoad(slotId={s})", _val(lambda s=s: pt.ScratchLoad(slotId=s, type=pt.TealType.uint64) if True else None), "app", 6))
    # frame-local indexes are one-byte SIGNED immediates: many ABI locals in one routine (with and without a reserved output slot)
    def many_locals(n, with_output):
        def th():
            abi = pt.abi

            def body(output=None):
                vs = [abi.Uint64() for _ in range(n)]
                tot = pt.Int(0)
                for v in vs[:3] + vs[-3:]:
                    tot = tot + v.get()
                sets = [v.set(pt.Int(i)) for i, v in enumerate(vs)]
                return pt.Seq(*sets, output.set(tot)) if output is not None else pt.Seq(*sets, tot)
            if with_output:
                def f(*, output: abi.Uint64):
                    return body(output)
                sub = pt.ABIReturnSubroutine(f)
                r_ = abi.Uint64()
                return pt.Seq(sub().store_into(r_), pt.Pop(r_.get()), pt.Approve())

            def g():
                return body()
            return pt.Seq(pt.Pop(pt.Subroutine(pt.TealType.uint64)(g)()), pt.Approve())
        return th
    for n in (126, 127, 128, 129, 140):
        for wo in (False, True):
            for v in (8, 10):
                cs.append((f"frame-locals({n},output={wo})v{v}", many_locals(n, wo), "app", v))
    # slot immediates are one unsigned byte: reserved ids forming a run up to 255 next to compiler-numbered slots, at the capacity
    def slot_capacity(lo, m, gap):
        def th():
            rs = [pt.ScratchVar(pt.TealType.uint64, i) for i in range(lo, 256) if i != gap]
            fs = [pt.ScratchVar(pt.TealType.uint64) for _ in range(m)]
            vs = rs + fs
            return pt.Seq(*[v.store(pt.Int(i)) for i, v in enumerate(vs)], *[pt.Pop(v.load()) for v in vs[-2:]], pt.Approve())
        return th
    for lo in (3, 128, 250):
        for dm in (-1, 0, 1, 2):
            cs.append((f"slot-capacity(reserved {lo}..255, free {lo + dm})", slot_capacity(lo, lo + dm, None), "app", 6))
        cs.append((f"slot-capacity(reserved {lo}..255 without 254, free {lo + 1})", slot_capacity(lo, lo + 1, 254), "app", 6))
        cs.append((f"slot-capacity(reserved {lo}..255 without 254, free {lo + 2})", slot_capacity(lo, lo + 2, 254), "app", 6))
    for a, bb in ((0, 255), (255, 256), (256, 300), (3, 1000)):
        cs.append((f"Substring({a},{bb})", _val(lambda a=a, bb=bb: pt.Substring(pt.Txn.note(), I(a), I(bb))), "app", 6))
        cs.append((f"Substring({a},{bb})v2", _val(lambda a=a, bb=bb: pt.Substring(pt.Txn.note(), I(a), I(bb))), "sig", 2))
        cs.append((f"Extract({a},{bb})", _val(lambda a=a, bb=bb: pt.Extract(pt.Txn.note(), I(a), I(bb))), "app", 6))
        cs.append((f"Replace({bb})", _val(lambda bb=bb: pt.Replace(pt.Txn.note(), I(bb), pt.Txn.note())), "app", 7))
        cs.append((f"Suffix({bb})", _val(lambda bb=bb: pt.Suffix(pt.Txn.note(), I(bb))), "app", 6))
    return cs


def literal_cases() -> list[tuple[str, callable]]:
    """literal TEXTS that a constructor copies into the program: whatever it accepts must still be one legal line.
    Texts: well-formed cores followed / preceded / interrupted by line breaks, blanks, comment and statement separators."""
    cores = {"base16": ["", "00", "abcd", "0xabcd"], "base32": ["", "ME", "ME======", "MFRGG"], "base64": ["", "YQ==", "QUJD", "QUJDRA=="]}
    tails = ["", "\n", "\r", "\r\n", "\n\n", " ", "\t", ";", "//", ")", " // x", "\nerr", "\x0b", "\x0c", "\x1c", "\x85", "\u2028", "="]
    cs = []
    for base, cl in cores.items():
        for c in cl:
            for t in tails:
                for txt in (c + t, t + c, (c[:2] + t + c[2:]) if len(c) > 2 else None):
                    if txt is None or (t == "" and txt != c):
                        continue
                    cs.append((f"Bytes({base},{txt!r})", _val(lambda base=base, txt=txt: pt.Bytes(base, txt))))
    addr = "AAAAAAAAAAAAAAAAAAAAAAAAAAAAAAAAAAAAAAAAAAAAAAAAAAAAY5HFKQ"
    for t in tails:
        cs.append((f"Addr({(addr + t)!r})", _val(lambda t=t: pt.Addr(addr + t))))
        cs.append((f"Addr({(addr[:-len(t)] + t)!r})" if t else "Addr(plain)", _val(lambda t=t: pt.Addr((addr[:-len(t)] if t else addr) + t))))
        cs.append((f"MethodSignature({('f()void' + t)!r})", _val(lambda t=t: pt.MethodSignature("f()void" + t))))
        cs.append((f"Tmpl.Int({('TMPL_A' + t)!r})", _val(lambda t=t: pt.Tmpl.Int("TMPL_A" + t))))
        cs.append((f"Tmpl.Bytes({('TMPL_B' + t)!r})", _val(lambda t=t: pt.Tmpl.Bytes("TMPL_B" + t))))
        cs.append((f"Tmpl.Addr({('TMPL_C' + t)!r})", _val(lambda t=t: pt.Tmpl.Addr("TMPL_C" + t))))
    # numbers given as Python objects other than plain ints (bool is a subclass of int, IntEnum members, floats with integral
    # value, numeric strings): refused, or written as a decimal the assembler reads
    import enum

    class _E(enum.IntEnum):
        A = 3
    u = lambda: pt.Btoi(pt.Txn.note())  # noqa: E731
    for nm, v in (("True", True), ("False", False), ("IntEnum", _E.A), ("1.0", 1.0), ("'7'", "7"), ("2**64", 2 ** 64), ("-1", -1)):
        cs.append((f"Int({nm})", _val(lambda v=v: pt.Int(v))))
        cs.append((f"Txn.application_args[{nm}]", _val(lambda v=v: pt.Len(pt.Txn.application_args[v]))))
        cs.append((f"Gtxn[{nm}].fee", _val(lambda v=v: pt.Gtxn[v].fee())))
        cs.append((f"Extract(note,Int({nm}),Int(1))", _val(lambda v=v: pt.Len(pt.Extract(pt.Txn.note(), pt.Int(v), pt.Int(1))))))
        cs.append((f"Substring(note,Int(0),Int({nm}))", _val(lambda v=v: pt.Len(pt.Substring(pt.Txn.note(), pt.Int(0), pt.Int(v))))))
        cs.append((f"Replace(note,Int({nm}),note)", _val(lambda v=v: pt.Len(pt.Replace(pt.Txn.note(), pt.Int(v), pt.Txn.note())))))
        cs.append((f"ScratchVar(slot={nm})", (lambda v=v: pt.Seq((x := pt.ScratchVar(pt.TealType.uint64, v)).store(u()), pt.Pop(x.load()), pt.Approve()))))
        cs.append((f"ImportScratchValue({nm},{nm})", _val(lambda v=v: pt.ImportScratchValue(v, v))))
        cs.append((f"BytesZero/Int({nm}) in an arithmetic chain", _val(lambda v=v: pt.Int(5) + pt.Int(v) * pt.Int(v))))
    seen, out = set(), []
    for n, th in cs:
        if n not in seen:
            seen.add(n)
            out.append((n, th))
    return out


def many_constants(kind: str, n: int):
    """a program using n distinct constants twice each (constant-block candidates), spread over subroutines of 40
    constants: one long expression or statement list would hit Python's recursion limit (C20)"""
    def th():
        calls = []
        for c0 in range(0, n, 40):
            ks = list(range(c0, min(n, c0 + 40)))

            def mk(ks):
                def f():
                    if kind == "int":
                        return pt.Pop(pt.Add(*[pt.Int(1000 + i) for i in ks] * 2))
                    return pt.Pop(pt.Len(pt.Concat(*[pt.Bytes(f"k{i:04d}") for i in ks] * 2)))
                return f
            f = mk(ks)
            f.__name__ = f"c{c0}"
            calls.append(pt.Subroutine(pt.TealType.none, name=f"c{c0}")(f)())
        return pt.Seq(*calls, pt.Approve())
    return th


# every line boundary of str.splitlines() (TealLabel.assemble cuts the name with it), \r\n as one boundary
NAME_ALPHABET = ["a", "Z", "0", "_", "-", " ", ":", ";", "/", "//", "\"", "'", "\\", "\t", "\r", "é", "☃", "#", "\n", "\nint 7\n", "\nerr", "main", "l0", "b",
                 "\r\n", "\x0b", "\x0c", "\x1c", "\x1d", "\x1e", "\x85", "\u2028", "\u2029", "\rerr", "\u2028int 7", "\x84", "\u2027"]


def name_program(names: list[str], use_abi=False):
    def th():
        subs = []
        for k, nm in enumerate(names):
            def fn(a):
                return pt.If(a > pt.Int(k)).Then(a + pt.Int(1)).Else(a)
            fn.__name__ = "f"
            subs.append(pt.Subroutine(pt.TealType.uint64, name=nm)(fn))
        body = [pt.Pop(s(pt.Btoi(pt.Txn.note()))) for s in subs]
        return pt.Seq(*body, pt.Approve())
    return th


def name_program_single(name: str):
    """the program of the regression example of Proofs/C04.lean (`name_newline_regression`)"""
    def th():
        def fn(a):
            return a
        fn.__name__ = "f"
        s = pt.Subroutine(pt.TealType.uint64, name=name)(fn)
        return pt.Seq(pt.Pop(s(pt.Int(1))), pt.Approve())
    return th


def instr_stream(teal: str) -> list[str]:
    """op stream modulo label names and comments"""
    out = []
    for ln in teal.split("\n"):
        t = ln.split("//")[0].split()
        if not t:
            continue
        if t[0].endswith(":"):
            out.append("L:")
        elif t[0] in ("b", "bz", "bnz", "callsub"):
            out.append(t[0])
        else:
            out.append(" ".join(t))
    return out


def tail_cases() -> list[tuple[str, callable]]:
    I = pt.Int
    u = lambda: pt.Btoi(pt.Txn.note())  # noqa: E731
    cs = []

    def loop_tail(kind):
        def th():
            i = pt.ScratchVar()
            if kind == "while":
                return pt.Seq(i.store(I(0)), pt.While(i.load() < u()).Do(i.store(i.load() + I(1))))
            return pt.For(i.store(I(0)), i.load() < u(), i.store(i.load() + I(1))).Do(pt.Pop(I(1)))
        return th
    cs.append(("main ends in While", loop_tail("while")))
    cs.append(("main ends in For", loop_tail("for")))
    cs.append(("main ends in If-without-Else", lambda: pt.Seq(pt.If(u()).Then(pt.Pop(I(1))))))
    cs.append(("main ends in If-without-Else returning", lambda: pt.Seq(pt.If(u()).Then(pt.Approve()))))
    cs.append(("main ends in Cond", lambda: pt.Cond([u(), pt.Approve()], [u(), pt.Reject()])))
    cs.append(("main ends in Cond of statements", lambda: pt.Seq(pt.Cond([u(), pt.Pop(I(1))], [u(), pt.Pop(I(2))]))))
    cs.append(("main is a value", lambda: u()))
    cs.append(("main ends in Assert", lambda: pt.Assert(u())))
    cs.append(("main ends in Err", lambda: pt.Seq(pt.Pop(u()), pt.Err())))
    cs.append(("main with Break/Continue", lambda: pt.Seq(
        (i := pt.ScratchVar()).store(I(0)),
        pt.While(i.load() < u()).Do(pt.Seq(i.store(i.load() + I(1)), pt.If(i.load() == I(3)).Then(pt.Break()),
                                            pt.If(i.load() == I(1)).Then(pt.Continue()))))))

    def sub_tail(kind, ret):
        def th():
            def fn(a):
                i = pt.ScratchVar()
                loop = pt.Seq(i.store(I(0)), pt.While(i.load() < a).Do(i.store(i.load() + I(1))))
                forl = pt.For(i.store(I(0)), i.load() < a, i.store(i.load() + I(1))).Do(pt.Pop(I(1)))
                body = {
                    "while": loop, "for": forl,
                    "if": pt.If(a).Then(pt.Pop(I(1))),
                    "if-ret": pt.If(a).Then(pt.Return(I(1)) if ret else pt.Return()),
                    "cond": pt.Cond([a, pt.Pop(I(1))], [a > I(2), pt.Pop(I(2))]),
                    "cond-exit": pt.Cond([a, pt.Approve()], [a > I(2), pt.Reject()]),
                    "nested": pt.If(a).Then(pt.If(a > I(1)).Then(pt.Pop(I(1))).ElseIf(a > I(2)).Then(pt.Pop(I(2)))),
                }[kind]
                return pt.Seq(body, I(5)) if ret else body
            fn.__name__ = "t"
            s = pt.Subroutine(pt.TealType.uint64 if ret else pt.TealType.none, name="t")(fn)

            def fn2(a):
                return pt.Seq(pt.Pop(a))
            fn2.__name__ = "after"
            s2 = pt.Subroutine(pt.TealType.none, name="after")(fn2)
            call = pt.Pop(s(u())) if ret else s(u())
            return pt.Seq(call, s2(u()), pt.Approve())
        return th
    for kind in ("while", "for", "if", "if-ret", "cond", "cond-exit", "nested"):
        for ret in (False, True):
            cs.append((f"subroutine ends in {kind} ret={ret}", sub_tail(kind, ret)))
    return cs


# ----------------------------------------------------------------------------- routers

ABI_ARGS = ["pt.abi.Uint64", "pt.abi.Uint8", "pt.abi.Bool", "pt.abi.String", "pt.abi.Address", "pt.abi.Byte",
            "pt.abi.DynamicArray[pt.abi.Uint64]", "pt.abi.StaticArray[pt.abi.Uint8, L4]", "pt.abi.Tuple2[pt.abi.Uint64, pt.abi.String]",
            "pt.abi.Account", "pt.abi.Asset", "pt.abi.Application", "pt.abi.PaymentTransaction", "pt.abi.DynamicBytes"]
ABI_OUT = [None, None, "pt.abi.Uint64", "pt.abi.String", "pt.abi.Bool", "pt.abi.Address"]


def make_router(r, nmethods: int):
    import typing
    router = pt.Router(
        "R",
        pt.BareCallActions(
            no_op=pt.OnCompleteAction.create_only(pt.Approve()),
            opt_in=pt.OnCompleteAction.call_only(pt.Approve()) if r.random() < 0.5 else pt.OnCompleteAction.never(),
            delete_application=pt.OnCompleteAction.call_only(pt.Assert(pt.Txn.sender() == pt.Global.creator_address()))
            if r.random() < 0.5 else pt.OnCompleteAction.never(),
        ),
        clear_state=pt.Approve() if r.random() < 0.7 else pt.Seq(pt.App.globalPut(pt.Bytes("c"), pt.Int(1)), pt.Approve()),
    )
    sigs = []
    for k in range(nmethods):
        nargs = r.choice([0, 1, 2, 3, 3, 16, 17])
        args = [r.choice(ABI_ARGS if nargs < 10 else ABI_ARGS[:6]) for _ in range(nargs)]
        if sum(a.endswith("Transaction") for a in args) > 1:
            args = [a for a in args if not a.endswith("Transaction")]
        out = r.choice(ABI_OUT)
        params = ", ".join(f"a{i}: {t}" for i, t in enumerate(args))
        if out:
            params = (params + ", " if params else "") + f"*, output: {out}"
        setv = {"pt.abi.Uint64": "output.set(pt.Int(7))", "pt.abi.String": "output.set(pt.Bytes('hi'))",
                "pt.abi.Bool": "output.set(pt.Int(1) == pt.Int(1))", "pt.abi.Address": "output.set(pt.Txn.sender())"}
        body = setv[out] if out else "pt.Log(pt.Bytes('m'))"
        src = f"def m{k}({params}) -> pt.Expr:\n    return {body}\n"
        g = {"pt": pt, "L4": typing.Literal[4]}
        exec(compile(src, "<router-method>", "exec", dont_inherit=True), g)
        cfg = {}
        if r.random() < 0.3:
            cfg = {"opt_in": pt.CallConfig.CALL}
        router.add_method_handler(pt.ABIReturnSubroutine(g[f"m{k}"]), method_config=pt.MethodConfig(no_op=pt.CallConfig.CALL, **cfg))
        sigs.append(src.split("\n")[0])
    return router, sigs


def stream_routers(run: Run, n: int):
    for i in range(n):
        r = rng(f"c04-router-{i}")
        version = r.choice([6, 6, 7, 8, 8, 9, 10])
        nm = r.choice([1, 2, 3, 4])
        asm = r.random() < 0.4
        okw = {}
        if r.random() < 0.5:
            okw["scratch_slots"] = r.random() < 0.5
        if version >= 8 and r.random() < 0.5:
            okw["frame_pointers"] = r.random() < 0.5
        try:
            router, sigs = make_router(r, nm)
            ap, cl, _ = router.compile_program(version=version, assemble_constants=asm, optimize=pt.OptimizeOptions(**okw))
        except own_errors() as e:
            run.note_outcome("router", "err")
            continue
        except Exception as e:  # noqa: BLE001
            run.note_outcome("router", "crash")
            continue
        run.note_outcome("router", "ok")
        rp = {"stream": "router", "case": f"#{i} v{version} methods={nm} asm={asm} {okw}", "index": i}
        run.submit(ap, version, "app", dict(rp, which="approval"))
        run.submit(cl, version, "app", dict(rp, which="clear"))


# ----------------------------------------------------------------------------- (iii) conformance


def golden_files() -> list[Path]:
    fs = []
    for root in (REPO / "tests", REPO / "examples", REPO / "pyteal"):
        if root.exists():
            fs += sorted(root.rglob("*.teal"))
    return fs


def conformance(run: Run) -> dict:
    """every golden .teal file (assembled by algod in upstream CI) must pass wf at its own pragma
    version; a rejection is a bug of OpSpec/wf (reported as a spec problem, not as a code defect)"""
    stats = {"files": 0, "accepted": 0, "no_pragma": 0, "rejected": []}
    lines, meta = [], []
    for f in golden_files():
        text = f.read_text()
        m = re.search(r"^\s*#pragma version (\d+)", text, re.M)
        if not m:
            stats["no_pragma"] += 1
            continue
        v = int(m.group(1))
        if not (2 <= v <= 10):
            continue
        stats["files"] += 1
        for mode in MODES:
            lines.append(wf_line(text, v, mode))
            meta.append((f, v, mode))
    answers = run.d.ask_many(lines)
    per = {}
    for (f, v, mode), a in zip(meta, answers):
        per.setdefault(f, []).append((mode, parse_answer(a)))
    for f, rs in per.items():
        if any(r["ok"] for _, r in rs):
            stats["accepted"] += 1
        else:
            stats["rejected"].append((str(f.relative_to(REPO)), rs[0][1]))
    return stats


# ----------------------------------------------------------------------------- the check


def run(tier: str) -> int:
    rep = Report("C04", tier, level="proof")
    t0 = time.time()
    tr = translate.regenerate()
    st = check_proofs(MODULES, extra_files=EXTRA)
    rep.coverage.update(proof_coverage(st, "cd lean && lake build PyTealV.Proofs.C04", TRUSTED))
    rep.coverage["regenerated"] = {"ops": len(tr["ops"]), "txn_fields": len(tr["txn"]), "global_fields": len(tr["global"]),
                                   "other_fields": len(tr["simple"]), "files_changed": tr["changed"], "repo": tr["repo"]}
    run_ = Run(rep, tier)
    quick = tier == "quick"
    try:
        conf = conformance(run_)
        rep.coverage["conformance"] = {k: v for k, v in conf.items() if k != "rejected"}
        for f, r in conf["rejected"]:
            # a golden file is accepted by the real assembler: our spec is wrong. Never an alarm about the code.
            rep.notes.append(f"SPEC PROBLEM: golden file {f} rejected by wf: {r}")
        if conf["rejected"]:
            raise_spec = f"{len(conf['rejected'])} golden files rejected by wf (OpSpec/wf bug): {conf['rejected'][:3]}"
            from common import ToolFailure
            raise ToolFailure(raise_spec)

        # (ii) mechanisms first: they are the cheap, targeted ones
        cat_stats: dict = {}
        cat = catalogue()
        fcat = field_catalogue()
        stream_catalogue(run_, cat, "catalogue", VERSIONS, MODES, cat_stats)
        if quick:
            # every field at the three versions around its own minimum and at 2 / 10, application mode + a signature sample
            stream_catalogue(run_, fcat, "fields", [2, 4, 5, 6, 7, 10], ["app"], cat_stats)
            stream_catalogue(run_, fcat[:: 7], "fields", [3, 6], ["sig"], cat_stats)
        else:
            stream_catalogue(run_, fcat, "fields", VERSIONS, MODES, cat_stats)
        for name, th, mode, v in imm_cases():
            res = compile_expr(th, mode, v)
            run_.note_outcome("immediates", res[0])
            if res[0] == "ok":
                run_.submit(res[1], v, mode, {"stream": "immediates", "case": name, "entry": name})
        for name, th in literal_cases():
            for okw in ({}, {"assembleConstants": True}):
                res = compile_expr(th, "app", 6, **okw)
                run_.note_outcome("literals", res[0])
                if res[0] == "ok":
                    run_.submit(res[1], 6, "app", {"stream": "literals", "case": name, "entry": name, "assemble": bool(okw)})
        for kind in ("int", "bytes"):
            for n in (4, 255, 256, 257, 300):
                for v in (4, 6, 10):
                    res = compile_expr(many_constants(kind, n), "app", v, assembleConstants=True)
                    run_.note_outcome("constants", res[0])
                    if res[0] == "ok":
                        run_.submit(res[1], v, "app", {"stream": "constants", "case": f"{n} {kind} constants", "kind": kind, "n": n})
        for name, th in tail_cases():
            for v in ([4, 8] if quick else [2, 3, 4, 5, 6, 7, 8, 9, 10]):
                if "subroutine" in name and v < 4:
                    continue
                for okw in ({}, {"optimize": pt.OptimizeOptions(scratch_slots=True)}):
                    res = compile_expr(th, "app", v, **okw)
                    run_.note_outcome("tails", res[0])
                    if res[0] == "ok":
                        run_.submit(res[1], v, "app", {"stream": "tails", "case": name, "entry": name, "opt": bool(okw)})
        # subroutine names
        n_names = 60 if quick else 1000
        name_stats = Counter()
        for i in range(n_names):
            r = rng(f"c04-name-{i}")
            names = ["".join(r.choice(NAME_ALPHABET) for _ in range(r.choice([0, 1, 2, 3, 5]))) for _ in range(r.choice([1, 2, 3]))]
            if i < len(NAME_ALPHABET):
                names[0] = NAME_ALPHABET[i]
            v = r.choice([4, 6, 8, 10])
            res = compile_expr(name_program(names), "app", v)
            ref = compile_expr(name_program([f"plain{k}" for k in range(len(names))]), "app", v)
            run_.note_outcome("names", res[0])
            if res[0] != "ok" or ref[0] != "ok":
                continue
            injected = instr_stream(res[1]) != instr_stream(ref[1])
            name_stats["injected" if injected else "same"] += 1
            if any("\n" in nm for nm in names):
                name_stats["with-line-feed"] += 1
            if any(len(nm.splitlines()) > 1 or nm.splitlines() == [""] for nm in names):
                name_stats["with-line-boundary"] += 1
            rp = {"stream": "names", "case": repr(names), "names": names, "index": i}
            if injected:
                # the name changed the instruction stream: C04 (and C18).  Was the known finding C04-name-newline for names
                # with a line feed until the repair 90c7383 (label_lines now holds for every name): a violation, no key.
                rep.violation(
                    f"subroutine names {names!r} change the emitted instruction stream (v{v}): "
                    f"{len(instr_stream(res[1]))} vs {len(instr_stream(ref[1]))} instructions",
                    dict(rp, version=v, mode="app", teal=res[1], reference=ref[1]))
            run_.submit(res[1], v, "app", rp)
        rep.coverage["names"] = dict(name_stats)
        # correspondence: model of TealLabel.assemble (Models/LabelText.lean) vs the real class
        from pyteal.ir.teallabel import TealLabel
        from pyteal.ir.labelref import LabelReference
        n_lab, lab_bad = (150 if quick else 1500), 0
        qs, exp = [], []
        for i in range(n_lab):
            r = rng(f"c04-label-{i}")
            comment = None if r.random() < 0.2 else "".join(r.choice(NAME_ALPHABET) for _ in range(r.choice([0, 1, 2, 4, 7])))
            if i < len(NAME_ALPHABET):
                comment = NAME_ALPHABET[i] if i % 2 else "x" + NAME_ALPHABET[i] + "y"
            label = "".join(r.choice("abz09_") for _ in range(r.choice([1, 3, 6])))
            real = TealLabel(None, LabelReference(label), comment).assemble()
            qs.append("c04-label " + ("none" if comment is None else (comment.encode().hex() or "-")) + " " + label.encode().hex())
            exp.append((comment, label, real))
        for (comment, label, real), ans in zip(exp, run_.d.ask_many(qs)):
            got = "" if ans == "-" else bytes.fromhex(ans).decode() if re.fullmatch(r"[0-9a-f]*", ans) else ans
            if got != real:
                lab_bad += 1
                rep.violation(f"label text model differs from TealLabel.assemble for comment={comment!r} label={label!r}",
                              {"stream": "label-model", "comment": comment, "label": label, "model": got, "real": real}, no_input=True)
        rep.coverage["label_model_correspondence"] = {"cases": n_lab, "mismatches": lab_bad}
        # regression case (was the known finding C04-name-newline, repaired by 90c7383; Lean: name_newline_regression):
        # the name `f\nint 7` must give the two comment lines `// f`, `// int 7` and NO instruction line `int 7`
        res = compile_expr(name_program_single("f\nint 7"), "app", 4)
        if res[0] == "ok":
            lines = res[1].split("\n")
            extra = any(ln.split("//")[0].split() == ["int", "7"] for ln in lines)
            as_model = any(lines[k:k + 4] == ["", "// f", "// int 7", "fint7_0:"] for k in range(len(lines)))
            rep.coverage["name_newline_regression"] = {"extra_instruction_line": extra, "header_as_label_lines_says": as_model}
            if extra:
                rep.violation("subroutine name 'f\\nint 7' puts the instruction line `int 7` between the comment and the label "
                              "(the defect repaired by 90c7383 is back; Lean: name_newline_regression shows the old text)",
                              {"stream": "names-ce", "names": ["f\nint 7"], "version": 4, "mode": "app", "teal": res[1]})
            elif not as_model:
                rep.violation("the header of the subroutine named 'f\\nint 7' is not the text of label_lines "
                              "(empty line, `// f`, `// int 7`, `fint7_0:`)",
                              {"stream": "names-ce", "names": ["f\nint 7"], "version": 4, "mode": "app", "teal": res[1]})
        else:
            rep.violation("the program with the subroutine named 'f\\nint 7' no longer compiles: " + str(res[:2])[:200],
                          {"stream": "names-ce", "names": ["f\nint 7"], "version": 4, "mode": "app"}, no_input=True)

        # (i) generated programs and routers
        n_gen = 260 if quick else 9000
        stream_gen(run_, n_gen)
        req_stats = stream_required(run_, 120 if quick else 3000)
        stream_routers(run_, 25 if quick else 700)
        run_.flush()
    finally:
        run_.close()

    # ---- evidence
    never_ok = sorted(n for n, s in cat_stats.items() if s["ok"] == 0)
    rep.coverage.update({
        "evaluations": run_.n_wf,
        "distinct_nontrivial": len(run_.distinct),
        "wf_ok": run_.n_ok,
        "wf_rejected": run_.n_bad,
        "rule": "every TEAL text PyTeal emits (compileTeal / Router.compile_program returned) must satisfy Flow.wf at the "
                "requested (version, mode); a PyTeal error is the accepted way to refuse",
        "distribution": {"by_stream": dict(run_.by_stream), "compile_outcomes": dict(run_.outcomes),
                         "distinct_opcodes_seen": len(run_.ops_seen),
                         "required_vs_outcome": req_stats},
        "opcodes_seen": sorted(run_.ops_seen),
        "catalogue_entries": len(cat), "field_entries": len(fcat),
        "catalogue_never_accepted": never_ok,
        "programs_with_templates": run_.templates, "programs_with_constant_loads": run_.constloads,
        "known_findings_hits": dict(run_.known),
        "samples": run_.samples,
    })
    emitted_ops = set(run_.ops_seen)
    table_ops = {o[0] for o in tr["ops"] if 2 <= o[1] <= 10}
    rep.coverage["pyteal_ops_never_emitted"] = sorted(table_ops - emitted_ops - {"//"})
    rep.assumptions += [
        "OpSpec is written from our knowledge of the AVM specification (no assembler exists offline); "
        "anchored by the golden .teal files accepted at their own pragma version",
        "global fields restricted to application mode (Round, LatestTimestamp, CurrentApplicationID, CreatorAddress, "
        "CurrentApplicationAddress, Caller*) are assembler-legal in signature mode and fail at evaluation: documented by PyTeal, not counted",
        "wf_sound_illegal assumes no template placeholder (TMPL_ is a documented feature; such a text is not yet a program); "
        "programs that load from constant blocks must have the blocks directly after the pragma (PyTeal's layout)",
    ]
    if not st.ok:
        # the property is no longer shown by proof; the streams above were the search for a failing input
        rep.notes.append("PROOF BROKEN: " + "; ".join(st.problems)[:500])
        found = any(not v["no_input"] for v in rep.violations)
        if not found:
            rep.violation("C04 proof modules do not build / audit: " + "; ".join(st.problems)[:300],
                          {"modules": MODULES, "problems": st.problems, "log": st.log[-3000:],
                           "theorem": "optable_agrees / fieldtable_agrees / wf_sound_*"}, no_input=True)
    return rep.finish()


# ----------------------------------------------------------------------------- replay


def _rebuild(data: dict):
    """re-create the emitted TEAL of a recorded case from its recipe"""
    s = data.get("stream")
    v, mode = data["version"], data["mode"]
    if s in ("gen",):
        prog, version, m, _ = gen_case(data["index"])
        return recipes.compile_real(prog, version, **data.get("opts", {}))
    if s in ("catalogue", "fields", "immediates", "tails", "literals"):
        table = dict(catalogue() + field_catalogue() + [(n, t) for n, t, _, _ in imm_cases()] + tail_cases() + literal_cases())
        kw = {"optimize": pt.OptimizeOptions(scratch_slots=True)} if data.get("opt") else {}
        if data.get("assemble"):
            kw["assembleConstants"] = True
        return compile_expr(table[data["entry"]], mode, v, **kw)
    if s == "constants":
        return compile_expr(many_constants(data["kind"], data["n"]), mode, v, assembleConstants=True)
    if s == "names":
        return compile_expr(name_program(data["names"]), mode, v)
    if s == "names-ce":
        return compile_expr(name_program_single(data["names"][0]), mode, v)
    if s == "required":
        c = req_case(data["index"])
        return c[7] if c else ("err", "generator", "")
    if s == "router":
        r = rng(f"c04-router-{data['index']}")
        version = r.choice([6, 6, 7, 8, 8, 9, 10])
        nm = r.choice([1, 2, 3, 4])
        asm = r.random() < 0.4
        okw = {}
        if r.random() < 0.5:
            okw["scratch_slots"] = r.random() < 0.5
        if version >= 8 and r.random() < 0.5:
            okw["frame_pointers"] = r.random() < 0.5
        router, _ = make_router(r, nm)
        ap, cl, _ = router.compile_program(version=version, assemble_constants=asm, optimize=pt.OptimizeOptions(**okw))
        return ("ok", ap if data.get("which") == "approval" else cl)
    return ("ok", data["teal"])


def replay(path: str) -> int:
    data = json.loads(Path(path).read_text())
    print("replaying", data.get("stream"), data.get("case"), "seed", data.get("seed"))
    if "teal" not in data:
        print("no input recorded (proof-level violation):", data.get("what"))
        st = check_proofs(MODULES, extra_files=EXTRA)
        print("proofs ok" if st.ok else "proofs broken: " + "; ".join(st.problems))
        return 0 if st.ok else 1
    res = _rebuild(data)
    print("real compiler:", res[0], (res[1] if res[0] != "ok" else f"{res[1].count(chr(10)) + 1} lines"))
    if res[0] != "ok":
        print("PyTeal now refuses this program (accepted behaviour)")
        return 0
    teal = res[1]
    d = Driver()
    ans = parse_answer(d.ask(wf_line(teal, data["version"], data["mode"])))
    d.close()
    print("expected (spec): wf = ok")
    print("got (real TEAL):", ans)
    if not ans["ok"]:
        lines = [ln for ln in teal.split("\n")]
        print("\n".join(lines[:60]))
    if data.get("stream") == "names-ce":
        extra = any(ln.split("//")[0].split() == ["int", "7"] for ln in teal.split("\n"))
        print("expected (label_lines): no instruction line `int 7` in the header of the routine named", repr(data["names"][0]))
        print("got (real TEAL): extra instruction line present =", extra)
        print("\n".join(teal.split("\n")[:20]))
        return 1 if (extra or not ans["ok"]) else 0
    if data.get("stream") == "names" and "reference" in data:
        ref = compile_expr(name_program([f"plain{k}" for k in range(len(data["names"]))]), data["mode"], data["version"])
        same = ref[0] == "ok" and instr_stream(ref[1]) == instr_stream(teal)
        print("instruction stream equals the plain-name reference:", same)
        return 0 if (same and ans["ok"]) else 1
    return 0 if ans["ok"] else 1
