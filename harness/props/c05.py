"""C05 — emitted code keeps stack and type discipline on every path.

Technique: the verified abstract interpreter `StackCheck` (lean/PyTealV/Check/Stack.lean, soundness
in lean/PyTealV/Proofs/C05*.lean) is run, through the native driver command `c05-check`, on the REAL
TEAL that the pyteal working tree under /repo emits.  Each program is decided for ALL its control-flow
paths (certificate check), not sampled.  Streams:

  gen        type-directed random programs (gen.py) x versions 2..10 x both modes x scratch_slots
             on/off/default x frame_pointers on/off/default x 0..4 subroutines (+ recursive call graphs)
  rec        hand-written recursion families (factorial, fibonacci with locals live across the calls,
             mutual even/odd with a bytes local, by-ref parameter, none / uint64 / bytes results,
             mixed return kinds)
  abi        ABIReturnSubroutine programs and pt.Router applications
  multi      MaybeValue / MultiValue expressions (incl. typed two-result ops: box_get, addw, ...)
  exotic     inputs aimed at the known defects (control flow in operand position, dead stores
             deleted by the optimiser) -> KNOWN-FINDING with a stable key, never silent
  golden     conformance: every .teal under /repo/tests and /repo/examples must be accepted

A rejected program (or an accepted one that reaches `return` with values left behind, or that
overwrites a typed frame slot with a value of the other concrete type) is classified:
  recipe has Break/Continue/Return/exit under pending operands        -> C05-control-in-operand
  same program accepted when compiled with scratch_slots=False          -> C05-dead-store-optimised
  anything else                                                          -> VIOLATION with a replay
"""
import hashlib
import json
import re
import sys
import time
from collections import Counter
from pathlib import Path

from common import LEAN, REPO, Driver, Report, check_proofs, hexs, proof_coverage, rng, seed

sys.path.insert(0, str(REPO))
import pyteal as pt  # noqa: E402  (the live working tree)
from pyteal import abi  # noqa: E402

import gen  # noqa: E402
import recipes  # noqa: E402
import translate_fields  # noqa: E402
from recipes import compile_real  # noqa: E402

PROOF_MODULES = ["PyTealV.Proofs.C05Prim", "PyTealV.Proofs.C05Lemmas", "PyTealV.Proofs.C05Struct", "PyTealV.Proofs.C05"]
KEY_CTL = "C05-control-in-operand"
KEY_DEAD = "C05-dead-store-optimised"
KEY_SPILL = "C05-spill-return-kind"

TRUSTED = [
    "lean/PyTealV/Avm/Syntax.lean (TEAL grammar) and lean/PyTealV/Avm/Sem.lean (execPrim, execSimple, step, runFrom): the machine the theorems are about",
    "lean/PyTealV/Check/Stack.lean: ok/transfer/primT/sig are the checked definitions; infer (fixpoint) is untrusted, its output is re-checked by ok",
    "lean/PyTealV/Gen/FieldTypes.lean regenerated from the live pyteal field enums by harness/translate_fields.py; the theorems assume contexts typed by it (CtxOK)",
    "opcodes outside coveredOps (sigUncovered: ledger look-ups returning bytes, itxn reads, divmodw, group loads, crypto, v11 ops) use documented signatures without a proof; reported per program as covered=false",
    "routine argument/result counts declared on the PyTeal side are passed as untrusted hints; plain TEAL does not carry them",
    "native driver (lean_exe) and lake; SHA-512/256 of method signatures computed by hashlib and passed in",
]


# ----------------------------------------------------------------------------- driver side


def selector(sig: str) -> bytes:
    h = hashlib.new("sha512_256")
    h.update(sig.encode())
    return h.digest()[:4]


def ask_check(d: Driver, teal: str, hints=()) -> str:
    words = ["c05-check", hexs(teal.encode("utf-8"))]
    sels = set(re.findall(r'^\s*method\s+"([^"]*)"', teal, re.M))
    words += [f"{hexs(s.encode())}={selector(s).hex()}" for s in sorted(sels)]
    words += [f"@{lab.encode().hex()}={a}:{r}" for lab, a, r in hints]
    return d.ask(" ".join(words))


def parse_ok(ans: str) -> dict:
    out = {}
    for w in ans.split()[1:]:
        if "=" in w:
            k, v = w.split("=", 1)
            out[k] = v
    return out


def labels_of(teal: str, name: str):
    return re.findall(r"^(%s_\d+):\s*$" % re.escape(name), teal, re.M)


def recipe_hints(prog, teal):
    hs = []
    for s in prog.subs:
        for lab in labels_of(teal, s.name):
            hs.append((lab, len(s.params), 0 if s.ret == recipes.N else 1))
    return hs


# ----------------------------------------------------------------------------- recipe analysis


def leaks(prog) -> set:
    """Kinds of control transfer that happen while operands are pending on the routine's part of the
    stack ('loop': Break/Continue above the loop's base, 'ret': Return in a subroutine, 'exit':
    Approve/Reject/Return in main).  Only used to attribute a rejection to the known defect."""
    found = set()

    def walk(n, depth, loop_base, in_sub):
        if not isinstance(n, tuple) or not n:
            return
        t = n[0]
        if t in ("break", "continue"):
            if loop_base is not None and depth > loop_base:
                found.add("loop")
            return
        if t == "ret":
            if n[1] is not None:
                walk(n[1], depth, loop_base, in_sub)
            if depth > 0:
                found.add("ret" if in_sub else "exit")
            return
        if t in ("approve", "reject"):
            if depth > 0:
                found.add("exit")
            return
        if t == "exit":
            walk(n[1], depth, loop_base, in_sub)
            if depth > 0:
                found.add("exit")
            return
        if t == "op":
            for i, a in enumerate(n[2]):
                walk(a, depth + i, loop_base, in_sub)
            return
        if t == "nary":
            for i, a in enumerate(n[2]):
                walk(a, depth + (1 if i else 0), loop_base, in_sub)
            return
        if t == "call":
            k = 0
            for a in n[2]:
                if isinstance(a, tuple) and a and a[0] != "ref":
                    walk(a, depth + k, loop_base, in_sub)
                k += 1
            return
        if t == "wideratio":
            k = 0
            for lst in (n[1], n[2]):
                for a in lst:
                    walk(a, depth + (1 if k else 0), loop_base, in_sub)
                    k += 1
            return
        if t in ("while", "for"):
            for x in n[1:]:
                walk(x, depth, depth, in_sub)
            return
        if t == "cond":
            for c, b in n[1]:
                walk(c, depth, loop_base, in_sub)
                walk(b, depth, loop_base, in_sub)
            return
        if t == "assert":
            for c in n[1]:
                walk(c, depth, loop_base, in_sub)
            return
        if t == "seq":
            for x in n[1]:
                walk(x, depth, loop_base, in_sub)
            return
        if t in ("multi", "maybe"):
            # the arguments of a MultiValue / MaybeValue are operands of its opcode; the use of the outputs stands where the node stands
            for i, a in enumerate(n[2]):
                walk(a, depth + i, loop_base, in_sub)
            walk(n[4] if t == "multi" else n[5], depth, loop_base, in_sub)
            return
        if t == "itxn":
            for fields in n[1]:
                for _f, e in fields:
                    walk(e, depth, loop_base, in_sub)
            return
        for x in n[1:]:
            if isinstance(x, tuple):
                walk(x, depth, loop_base, in_sub)
            elif isinstance(x, list):
                for y in x:
                    walk(y, depth, loop_base, in_sub)

    walk(prog.main, 0, None, False)
    for s in prog.subs:
        if s.body is not None:
            walk(s.body, 0, None, True)
    return found


def mixed_recursion(prog) -> bool:
    """a call edge a->b on a cycle with ret kinds (none vs value) that differ"""
    graph = {}

    def calls(n, acc):
        if isinstance(n, tuple) and n and n[0] == "call":
            acc.add(n[1].sid)
        if isinstance(n, (tuple, list)):
            for x in n:
                if isinstance(x, (tuple, list)):
                    calls(x, acc)

    by = {s.sid: s for s in prog.subs}
    for s in prog.subs:
        acc = set()
        calls(s.body, acc)
        graph[s.sid] = acc

    def reaches(a, b):
        seen, st = set(), list(graph.get(a, ()))
        while st:
            x = st.pop()
            if x == b:
                return True
            if x in seen:
                continue
            seen.add(x)
            st += list(graph.get(x, ()))
        return False

    for a, outs in graph.items():
        for b in outs:
            if (b == a or reaches(b, a)) and (by[a].ret == recipes.N) != (by[b].ret == recipes.N):
                return True
    return False


# ----------------------------------------------------------------------------- hand-written families

U64, BYT, NONE = pt.TealType.uint64, pt.TealType.bytes, pt.TealType.none


def fam_fact():
    @pt.Subroutine(U64)
    def fact(n):
        return pt.If(n <= pt.Int(1), pt.Int(1), n * fact(n - pt.Int(1)))
    return pt.Seq(pt.Pop(fact(pt.Int(5))), pt.Approve()), [("fact", 1, 1)]


def fam_fib_locals():
    @pt.Subroutine(U64)
    def fib(n):
        a = pt.ScratchVar(U64)
        b = pt.ScratchVar(BYT)
        return pt.If(n < pt.Int(2)).Then(n).Else(pt.Seq(
            a.store(fib(n - pt.Int(1))), b.store(pt.Itob(fib(n - pt.Int(2)))), a.load() + pt.Btoi(b.load())))
    return pt.Return(fib(pt.Int(7)) == pt.Int(13)), [("fib", 1, 1)]


def fam_even_odd():
    @pt.Subroutine(U64)
    def is_even(x):
        return pt.If(x == pt.Int(0), pt.Int(1), is_odd(x - pt.Int(1), pt.Bytes("pad")))

    @pt.Subroutine(U64)
    def is_odd(x, pad):
        keep = pt.ScratchVar(BYT)
        return pt.Seq(keep.store(pad), pt.If(x == pt.Int(0), pt.Int(0), pt.Seq(
            pt.Assert(keep.load() == pt.Bytes("pad")), is_even(x - pt.Int(1)))))
    return pt.Return(is_even(pt.Int(6))), [("is_even", 1, 1), ("is_odd", 2, 1)]


def fam_pending_operands():
    @pt.Subroutine(U64)
    def tri(x):
        loc = pt.ScratchVar(U64)
        return pt.Seq(loc.store(x * pt.Int(3)), pt.If(
            x == pt.Int(0), pt.Int(0), (loc.load() + x) - loc.load() + tri(x - pt.Int(1))))
    return pt.Return(pt.Int(1000) + tri(pt.Int(4)) + pt.Int(7) == pt.Int(1017)), [("tri", 1, 1)]


def fam_elseif_tail():
    """value-less routines whose body ENDS in an If / ElseIf / Else ladder in which only SOME branches leave the routine: the branch that
    falls through needs the closing `retsub` all the same (first branch, a middle branch, the last branch falling through)"""
    def ladder(kind, which):
        br = [pt.App.globalPut(pt.Bytes("seen"), kind) if i == which else (pt.Return() if i % 2 == 0 else pt.Reject()) for i in range(3)]
        return pt.If(kind == pt.Int(0)).Then(br[0]).ElseIf(kind == pt.Int(1)).Then(br[1]).Else(br[2])

    @pt.Subroutine(NONE)
    def rec0(kind):
        return ladder(kind, 0)

    @pt.Subroutine(NONE)
    def rec1(kind):
        return ladder(kind, 1)

    @pt.Subroutine(NONE)
    def rec2(kind):
        return ladder(kind, 2)

    @pt.Subroutine(U64)
    def after(x):
        return x + pt.Int(1)
    return (pt.Seq(rec0(pt.Txn.fee()), rec1(pt.Txn.fee()), rec2(pt.Txn.fee()), pt.Return(after(pt.Int(1)))),
            [("rec0", 1, 0), ("rec1", 1, 0), ("rec2", 1, 0), ("after", 1, 1)])


def fam_none_rec():
    @pt.Subroutine(NONE)
    def down(n, tag):
        keep = pt.ScratchVar(BYT)
        return pt.Seq(keep.store(pt.Concat(tag, pt.Itob(n))),
                      pt.If(n > pt.Int(0)).Then(down(n - pt.Int(1), keep.load())), pt.Pop(pt.Len(keep.load())))
    return pt.Seq(down(pt.Int(3), pt.Bytes("x")), pt.Approve()), [("down", 2, 0)]


def fam_bytes_rec():
    @pt.Subroutine(BYT)
    def rep(n, s):
        acc = pt.ScratchVar(BYT)
        return pt.Seq(acc.store(s), pt.If(n == pt.Int(0)).Then(pt.Bytes("")).Else(pt.Concat(acc.load(), rep(n - pt.Int(1), acc.load()))))
    return pt.Return(pt.Len(rep(pt.Int(3), pt.Bytes("ab"))) == pt.Int(6)), [("rep", 2, 1)]


def fam_byref():
    @pt.Subroutine(NONE)
    def bump(v: pt.ScratchVar, by: pt.Expr):
        return v.store(v.load() + by)

    @pt.Subroutine(U64)
    def twice(x):
        t = pt.ScratchVar(U64)
        return pt.Seq(t.store(x), bump(t, x), t.load())
    w = pt.ScratchVar(U64)
    return pt.Seq(w.store(pt.Int(1)), bump(w, pt.Int(2)), pt.Return(twice(w.load()) == pt.Int(6))), [("bump", 2, 0), ("twice", 1, 1)]


def fam_mixed_kinds():
    """f: none <-> g: uint64, locals live across the calls in both"""
    @pt.Subroutine(NONE)
    def f(n):
        x = pt.ScratchVar(U64)
        return pt.Seq(x.store(n + pt.Int(1)), pt.If(n > pt.Int(0)).Then(pt.Pop(g(n - pt.Int(1)))), pt.Pop(x.load()))

    @pt.Subroutine(U64)
    def g(n):
        return pt.Seq(pt.If(n > pt.Int(0)).Then(f(n - pt.Int(1))), n)
    return pt.Seq(f(pt.Int(3)), pt.Pop(g(pt.Int(2))), pt.Approve()), [("f", 1, 0), ("g", 1, 1)]


def fam_mixed_kinds2():
    @pt.Subroutine(NONE)
    def f(n, s):
        x = pt.ScratchVar(U64)
        y = pt.ScratchVar(BYT)
        return pt.Seq(x.store(n + pt.Int(1)), y.store(s),
                      pt.If(n > pt.Int(0)).Then(pt.Pop(g(n - pt.Int(1)))), pt.Pop(x.load()), pt.Pop(pt.Len(y.load())))

    @pt.Subroutine(BYT)
    def g(n):
        z = pt.ScratchVar(BYT)
        return pt.Seq(z.store(pt.Itob(n)), pt.If(n > pt.Int(0)).Then(f(n - pt.Int(1), z.load())), z.load())
    return pt.Seq(f(pt.Int(3), pt.Bytes("q")), pt.Pop(g(pt.Int(2))), pt.Approve()), [("f", 2, 0), ("g", 1, 1)]


def fam_anytype():
    """result type anytype: one value whose kind is only known at run time"""
    @pt.Subroutine(pt.TealType.anytype)
    def stored(key):
        return pt.App.globalGet(key)

    @pt.Subroutine(pt.TealType.anytype)
    def pick(n, s):
        x = pt.ScratchVar(pt.TealType.anytype)
        return pt.Seq(x.store(pt.App.globalGet(s)), pt.If(n > pt.Int(0)).Then(x.store(pick(n - pt.Int(1), s))), x.load())
    sv = pt.ScratchVar(pt.TealType.anytype)
    return (pt.Seq(pt.Pop(stored(pt.Bytes("k"))), sv.store(pick(pt.Int(2), pt.Bytes("j"))), pt.Pop(sv.load()),
                   pt.App.globalPut(pt.Bytes("o"), stored(pt.Bytes("k"))), pt.Approve()),
            [("stored", 1, 1), ("pick", 2, 1)])


def fam_explicit_return_abi_locals():
    """classic value-returning subroutines that create ABI values in their body (frame locals from v8) and hand their result
    back with an explicit Return(value) on every path (the body expression itself is none-typed)"""
    @pt.Subroutine(U64)
    def measure(n):
        s = abi.String()
        k = abi.Uint64()
        return pt.Seq(s.set("abc"), k.set(n), pt.If(n > pt.Int(3)).Then(pt.Return(k.get() + pt.Int(1))), pt.Return(pt.Len(s.get()) + n))

    @pt.Subroutine(BYT)
    def label(n):
        k = abi.Uint64()
        s = abi.String()
        return pt.Seq(k.set(n), s.set("xy"), pt.If(k.get()).Then(pt.Return(s.get())).Else(pt.Return(pt.Itob(k.get()))))

    @pt.Subroutine(U64)
    def rec(n):
        k = abi.Uint64()
        b = abi.Bool()
        return pt.Seq(b.set(n > pt.Int(0)), k.set(n), pt.If(b.get()).Then(pt.Return(rec(n - pt.Int(1)) + k.get())), pt.Return(pt.Int(0)))
    return (pt.Seq(pt.Pop(measure(pt.Int(5)) + pt.Int(1)), pt.Pop(pt.Len(label(pt.Int(2)))), pt.Pop(rec(pt.Int(3)) * pt.Int(2)), pt.Approve()),
            [("measure", 1, 1), ("label", 1, 1), ("rec", 1, 1)])


def fam_restore_after_join():
    """slot-optimiser shapes: a variable read in an earlier / sibling block, then stored and read back at once after a join
    (the adjacent pair may only be cancelled when the slot has no other load anywhere in the routine)"""
    x, y, z = pt.ScratchVar(U64), pt.ScratchVar(U64), pt.ScratchVar(BYT)
    c = lambda k: pt.Txn.fee() > pt.Int(k)  # noqa: E731

    @pt.Subroutine(U64)
    def h(a):
        w = pt.ScratchVar(U64)
        return pt.Seq(w.store(a + pt.Int(1)), pt.If(c(3)).Then(pt.Pop(w.load())).Else(pt.Pop(w.load() * pt.Int(2))),
                      pt.If(c(4)).Then(pt.Pop(pt.Int(0))), w.store(a * pt.Int(3)), w.load())
    return (pt.Seq(
        x.store(pt.Btoi(pt.Txn.application_args[0])), pt.Assert(x.load() > pt.Int(0)), pt.Pop(pt.Itob(x.load())),
        pt.If(c(1)).Then(pt.Pop(pt.Int(7))),
        x.store(pt.Int(5)), pt.Pop(x.load()),
        y.store(pt.Int(1)),
        pt.If(c(2)).Then(pt.Pop(y.load())).Else(pt.Seq(y.store(pt.Int(9)), pt.Pop(y.load()))),
        z.store(pt.Bytes("a")), pt.While(c(5)).Do(pt.Seq(pt.Pop(pt.Len(z.load())), pt.Break())), z.store(pt.Bytes("b")), pt.Pop(z.load()),
        pt.Pop(h(pt.Int(2))), pt.Approve()), [("h", 1, 1)])


REC_FAMILIES = [fam_elseif_tail, fam_restore_after_join, fam_explicit_return_abi_locals, fam_anytype, fam_fact, fam_fib_locals, fam_even_odd, fam_pending_operands, fam_none_rec, fam_bytes_rec, fam_byref,
                fam_mixed_kinds, fam_mixed_kinds2]


def fam_abi_sub():
    @pt.ABIReturnSubroutine
    def addmul(a: abi.Uint64, b: abi.Uint16, s: abi.String, *, output: abi.Uint64) -> pt.Expr:
        return output.set(a.get() * b.get() + pt.Len(s.get()))

    @pt.ABIReturnSubroutine
    def greet(name: abi.String, *, output: abi.String) -> pt.Expr:
        return output.set(pt.Concat(pt.Bytes("hi "), name.get()))
    a, b, s, r, g = abi.Uint64(), abi.Uint16(), abi.String(), abi.Uint64(), abi.String()
    return pt.Seq(a.set(3), b.set(4), s.set("xyz"), addmul(a, b, s).store_into(r), greet(s).store_into(g),
                  pt.Return(r.get() + pt.Len(g.get()) == pt.Int(23))), [("addmul", 3, 1), ("greet", 1, 1)]


def fam_abi_rec():
    @pt.ABIReturnSubroutine
    def afact(n: abi.Uint64, *, output: abi.Uint64) -> pt.Expr:
        m, r = abi.Uint64(), abi.Uint64()
        return pt.If(n.get() <= pt.Int(1)).Then(output.set(1)).Else(pt.Seq(
            m.set(n.get() - pt.Int(1)), afact(m).store_into(r), output.set(n.get() * r.get())))
    a, r = abi.Uint64(), abi.Uint64()
    return pt.Seq(a.set(5), afact(a).store_into(r), pt.Return(r.get() == pt.Int(120))), [("afact", 1, 1)]


def fam_abi_tuple():
    @pt.ABIReturnSubroutine
    def swap2(t: abi.Tuple2[abi.Uint64, abi.String], *, output: abi.Tuple2[abi.String, abi.Uint64]) -> pt.Expr:
        x, y = abi.Uint64(), abi.String()
        return pt.Seq(t[0].store_into(x), t[1].store_into(y), output.set(y, x))
    x, y = abi.Uint64(), abi.String()
    t = abi.make(abi.Tuple2[abi.Uint64, abi.String])
    o = abi.make(abi.Tuple2[abi.String, abi.Uint64])
    return pt.Seq(x.set(9), y.set("nine"), t.set(x, y), swap2(t).store_into(o), pt.Approve()), [("swap2", 1, 1)]


ABI_FAMILIES = [fam_abi_sub, fam_abi_rec, fam_abi_tuple]


def build_router():
    router = pt.Router("c05", pt.BareCallActions(
        no_op=pt.OnCompleteAction.create_only(pt.Approve()),
        opt_in=pt.OnCompleteAction.call_only(pt.Approve())), clear_state=pt.Approve())

    @router.method
    def add(a: abi.Uint64, b: abi.Uint64, *, output: abi.Uint64) -> pt.Expr:
        return output.set(a.get() + b.get())

    @router.method
    def concat(a: abi.String, b: abi.String, *, output: abi.String) -> pt.Expr:
        return output.set(pt.Concat(a.get(), b.get()))

    @router.method
    def sum_arr(xs: abi.DynamicArray[abi.Uint64], *, output: abi.Uint64) -> pt.Expr:
        i, acc, v = pt.ScratchVar(U64), pt.ScratchVar(U64), abi.Uint64()
        return pt.Seq(acc.store(pt.Int(0)), pt.For(i.store(pt.Int(0)), i.load() < xs.length(), i.store(i.load() + pt.Int(1))).Do(
            pt.Seq(xs[i.load()].store_into(v), acc.store(acc.load() + v.get()))), output.set(acc.load()))

    @router.method(opt_in=pt.CallConfig.CALL)
    def note(pay: abi.PaymentTransaction, flag: abi.Bool, who: abi.Account) -> pt.Expr:
        return pt.Seq(pt.Assert(pay.get().amount() > pt.Int(0)), pt.If(flag.get()).Then(pt.Log(who.address())))

    @router.method
    def rfact(n: abi.Uint64, *, output: abi.Uint64) -> pt.Expr:
        m, r = abi.Uint64(), abi.Uint64()
        return pt.If(n.get() <= pt.Int(1)).Then(output.set(1)).Else(pt.Seq(
            m.set(n.get() - pt.Int(1)), rfact(m).store_into(r), output.set(n.get() * r.get())))
    return router


def multi_programs():
    """(name, expr, min version, mode)"""
    out = []
    app = pt.Mode.Application

    def use(mv, as_bytes):
        val = mv.value()
        return pt.Seq(mv, pt.Assert(mv.hasValue()), pt.Pop(pt.Len(val) if as_bytes else val + pt.Int(1)), pt.Approve())

    out.append(("global_get_ex", lambda: (lambda mv: pt.Seq(mv, pt.If(mv.hasValue()).Then(pt.Pop(mv.value())), pt.Approve()))(
        pt.App.globalGetEx(pt.Int(0), pt.Bytes("k"))), 2, app))
    out.append(("local_get_ex", lambda: (lambda mv: pt.Seq(mv, pt.If(mv.hasValue()).Then(pt.Pop(mv.value())), pt.Approve()))(
        pt.App.localGetEx(pt.Int(0), pt.Int(0), pt.Bytes("k"))), 2, app))
    out.append(("asset_balance", lambda: use(pt.AssetHolding.balance(pt.Int(0), pt.Int(7)), False), 2, app))
    out.append(("asset_name", lambda: use(pt.AssetParam.name(pt.Int(7)), True), 2, app))
    out.append(("asset_total", lambda: use(pt.AssetParam.total(pt.Int(7)), False), 2, app))
    out.append(("app_address", lambda: use(pt.AppParam.address(pt.Int(7)), True), 5, app))
    out.append(("acct_auth", lambda: use(pt.AccountParam.authAddr(pt.Int(0)), True), 6, app))
    out.append(("acct_balance", lambda: use(pt.AccountParam.balance(pt.Int(0)), False), 6, app))
    out.append(("box_get", lambda: use(pt.App.box_get(pt.Bytes("b")), True), 8, app))
    out.append(("box_length", lambda: use(pt.App.box_length(pt.Bytes("b")), False), 8, app))

    def addw():
        mv = pt.MultiValue(pt.Op.addw, [U64, U64], args=[pt.Int(2 ** 63), pt.Int(2 ** 63)])
        return mv.outputReducer(lambda hi, lo: pt.Return(hi + lo == pt.Int(1)))
    out.append(("addw", addw, 2, app))

    def mulw_expw():
        a = pt.MultiValue(pt.Op.mulw, [U64, U64], args=[pt.Int(3), pt.Int(5)])
        b = pt.MultiValue(pt.Op.expw, [U64, U64], args=[pt.Int(3), pt.Int(5)])
        return pt.Seq(a.outputReducer(lambda hi, lo: pt.Assert(lo == pt.Int(15))), b.outputReducer(lambda hi, lo: pt.Return(lo > hi)))
    out.append(("mulw_expw", mulw_expw, 4, app))

    def wide():
        return pt.Return(pt.WideRatio([pt.Int(6), pt.Int(7)], [pt.Int(3)]) == pt.Int(14))
    out.append(("wideratio", wide, 5, app))

    def ecdsa():
        mv = pt.EcdsaDecompress(pt.EcdsaCurve.Secp256k1, pt.Bytes("base16", "02" + "11" * 32))
        return mv.outputReducer(lambda x, y: pt.Return(pt.Len(x) == pt.Len(y)))
    out.append(("ecdsa_decompress", ecdsa, 5, app))

    def sig_multi():
        mv = pt.MultiValue(pt.Op.addw, [U64, U64], args=[pt.Btoi(pt.Arg(0)), pt.Int(1)])
        return mv.outputReducer(lambda hi, lo: pt.Return(hi == pt.Int(0)))
    out.append(("addw_sig", sig_multi, 2, pt.Mode.Signature))
    return out


def exotic_programs():
    """(name, builder, expected key or None)"""
    out = []

    def loop_ctl(kind, shape):
        def b():
            i = pt.ScratchVar(U64)
            inner = pt.Continue() if kind == "continue" else pt.Break()
            if shape == "add":
                body = pt.Pop(pt.Int(7) + pt.Seq(pt.If(i.load() == pt.Int(1)).Then(inner), pt.Int(2)))
            elif shape == "concat":
                body = pt.Pop(pt.Concat(pt.Bytes("a"), pt.Seq(pt.If(i.load() == pt.Int(1)).Then(inner), pt.Bytes("b"))))
            else:
                body = pt.App.globalPut(pt.Bytes("k"), pt.Seq(pt.If(i.load() == pt.Int(1)).Then(inner), pt.Int(2)))
            return pt.Seq(pt.For(i.store(pt.Int(0)), i.load() < pt.Int(3), i.store(i.load() + pt.Int(1))).Do(body), pt.Approve())
        return b
    for kind in ("continue", "break"):
        for shape in ("add", "concat", "put"):
            out.append((f"for-{kind}-{shape}", loop_ctl(kind, shape), KEY_CTL))

    def while_ctl():
        i = pt.ScratchVar(U64)
        return pt.Seq(i.store(pt.Int(0)), pt.While(i.load() < pt.Int(3)).Do(pt.Seq(
            i.store(i.load() + pt.Int(1)), pt.Pop(pt.Int(1) * pt.Seq(pt.If(i.load() == pt.Int(2)).Then(pt.Break()), pt.Int(2))))), pt.Approve())
    out.append(("while-break-mul", while_ctl, KEY_CTL))

    def ret_in_operand():
        @pt.Subroutine(U64)
        def r(n):
            return pt.Int(5) + pt.Seq(pt.If(n == pt.Int(0)).Then(pt.Return(pt.Int(9))), pt.Int(1))
        return pt.Return(r(pt.Int(0)) + r(pt.Int(1)) == pt.Int(15))
    out.append(("return-in-operand", ret_in_operand, KEY_CTL))

    def exit_in_operand():
        return pt.Return(pt.Int(3) + pt.Seq(pt.If(pt.Txn.fee() == pt.Int(0)).Then(pt.Approve()), pt.Int(1)))
    out.append(("approve-in-operand", exit_in_operand, KEY_CTL))

    def dead_plain():
        s = pt.ScratchVar(U64)
        return pt.Seq(s.store(pt.Int(7)), pt.Pop(s.load()), s.store(pt.Int(9)), pt.Approve())
    out.append(("dead-store-straight", dead_plain, KEY_DEAD))

    def dead_loop():
        s, i = pt.ScratchVar(U64), pt.ScratchVar(U64)
        return pt.Seq(pt.For(i.store(pt.Int(0)), i.load() < pt.Int(2), i.store(i.load() + pt.Int(1))).Do(
            pt.Seq(s.store(pt.Int(3)), s.store(s.load()))), pt.Approve())
    out.append(("dead-store-loop", dead_loop, KEY_DEAD))

    def dead_sub():
        @pt.Subroutine(U64)
        def h(a):
            t = pt.ScratchVar(U64)
            return pt.Seq(t.store(a), pt.Pop(t.load()), t.store(pt.Int(1)), pt.Int(2))
        return pt.Return(h(pt.Int(4)) == pt.Int(2))
    out.append(("dead-store-sub", dead_sub, KEY_DEAD))
    return out


# ----------------------------------------------------------------------------- the run


class Stats:
    def __init__(self):
        self.lints = Counter()
        self.programs = 0
        self.accepted = 0
        self.pcs = 0
        self.max_height = 0
        self.with_any = 0
        self.covered = 0
        self.any_states = 0
        self.states = 0
        self.by_stream = Counter()
        self.by_version = Counter()
        self.by_opts = Counter()
        self.uncovered_ops = Counter()
        self.known = Counter()
        self.compile_fail = Counter()
        self.distinct = set()
        self.samples = []
        self.with_subs = 0
        self.routines = 0

    def note_ok(self, stream, version, opts, ans, teal):
        f = parse_ok(ans)
        self.accepted += 1
        self.pcs += int(f.get("pcs", 0))
        self.states += int(f.get("states", 0))
        self.any_states += int(f.get("any", 0))
        self.max_height = max(self.max_height, int(f.get("heights", 0)))
        if f.get("anyFree") != "true":
            self.with_any += 1
        if f.get("covered") == "true":
            self.covered += 1
        for o in (f.get("uncovered", "").split(",") if f.get("uncovered") else []):
            self.uncovered_ops[o] += 1
        nr = int(f.get("routines", 1))
        self.routines += nr
        if nr > 1:
            self.with_subs += 1
        return f


class _Slow(BaseException):
    pass


class quiet_traces:
    """PyTeal formats the whole Python stack for every Expr it creates (diagnostics only); for the
    recursive ABI families the stacks are hundreds of frames deep and one compile takes minutes.
    Inside this context the stdlib formatter is a stub (no effect on the emitted TEAL)."""

    def __enter__(self):
        import traceback
        self.tb, self.saved = traceback, traceback.format_stack
        traceback.format_stack = lambda *a, **k: []

    def __exit__(self, *a):
        self.tb.format_stack = self.saved


def with_timeout(fn, seconds=10):
    """compile time is not part of the property (validateSlots / the optimiser are exponential on some
    shapes): a slow compilation is counted, never alarmed on"""
    import signal

    def _alarm(*_a):
        raise _Slow()
    old = signal.signal(signal.SIGALRM, _alarm)
    signal.setitimer(signal.ITIMER_REAL, seconds)
    try:
        return fn()
    except _Slow:
        return ("err", "CompileTimeout")
    finally:
        signal.setitimer(signal.ITIMER_REAL, 0)
        signal.signal(signal.SIGALRM, old)


def compile_api(expr, mode, version, ss, fp, timeout=10):
    kw = {}
    if ss is not None or fp is not None:
        kw["optimize"] = pt.OptimizeOptions(scratch_slots=ss, frame_pointers=fp)
    import pyteal.errors as pe

    def go():
        try:
            return ("ok", pt.compileTeal(expr, mode, version=version, **kw))
        except (pe.TealInputError, pe.TealCompileError, pe.TealTypeError, pe.TealInternalError) as e:
            return ("err", type(e).__name__ + ": " + str(e)[:200])
        except RecursionError:
            return ("err", "RecursionError")
    return go() if timeout is None else with_timeout(go, timeout)


def option_grid(version, r=None, full=False):
    sss = [None, False, True]
    fps = [None, False] + ([True] if version >= 8 else [])
    grid = [(a, b) for a in sss for b in fps]
    if full or r is None:
        return grid
    return [r.choice(grid)]


class Runner:
    def __init__(self, rep: Report, d: Driver, tier: str):
        self.rep, self.d, self.tier = rep, d, tier
        self.st = Stats()

    # -- one program -----------------------------------------------------------
    def judge(self, stream, name, teal, hints, version, opts, replay, leak_kinds=frozenset(), expect_key=None,
              recompile_unopt=None, mixed=False):
        st = self.st
        st.programs += 1
        st.by_stream[stream] += 1
        st.by_version[version] += 1
        st.by_opts[f"ss={opts[0]},fp={opts[1]}"] += 1
        h = hashlib.sha256(teal.encode()).hexdigest()[:16]
        st.distinct.add(h)
        ans = ask_check(self.d, teal, hints)
        if ans.startswith("perr"):
            self.rep.violation(f"{stream}/{name}: emitted TEAL does not parse: {ans[:200]}", dict(replay, teal=teal, answer=ans))
            return ans
        problem = None
        if ans.startswith("ok"):
            f = st.note_ok(stream, version, opts, ans, teal)
            if int(f.get("exitExtra", 0)) > 0:
                problem = f"return reached with values left behind at pc {f.get('exitPc')}"
            elif int(f.get("frameRetype", 0)) > 0:
                # a lint, not part of the property: the result of a routine is buried into frame slot 0 right before `retsub`,
                # whatever local lived there (PyTeal's own return protocol); the abstract state tracks the new type soundly
                st.lints["frame slot re-typed by frame_bury"] += 1
        else:
            problem = ans
        if len(st.samples) < 6 and problem is None:
            st.samples.append({"stream": stream, "name": name, "version": version, "opts": list(opts), "answer": ans[:160]})
        if problem is None:
            return ans
        # ---- classify
        key = None
        if leak_kinds:
            key = KEY_CTL
        elif expect_key == KEY_CTL:
            key = KEY_CTL
        if key is None and recompile_unopt is not None:
            t2 = recompile_unopt()
            if t2 is not None:
                a2 = ask_check(self.d, t2[0], t2[1])
                # the known finding only with its witness on the two texts: the optimised text lost a slot that the unoptimised
                # text stores more often than it loads (another optimiser-induced breakage is a violation of its own)
                from c03 import dead_store_deleted
                twin_ok = a2.startswith("ok") and int(parse_ok(a2).get("exitExtra", 0)) == 0
                if twin_ok and ("values left behind" in problem or problem.startswith("bad")) and dead_store_deleted(t2[0], teal):
                    key = KEY_DEAD
        if key is None and mixed:
            key = KEY_SPILL
        what = f"{stream}/{name} v{version} ss={opts[0]} fp={opts[1]}: {problem[:220]}"
        body = dict(replay, teal=teal, hints=[list(x) for x in hints], answer=ans, version=version, opts=list(opts), key=key)
        if key is not None and self.rep.match_known(key) is not None:
            st.known[key] += 1
        self.rep.violation(what, body, key=key)
        return ans

    # -- streams ---------------------------------------------------------------
    def stream_gen(self, n):
        for i in range(n):
            r = rng(f"c05-gen-{i}")
            version = r.choice([2, 3, 4, 5, 6, 7, 8, 8, 9, 10, 10])
            mode = r.choice(["app", "app", "sig"])
            subs = r.choice([0, 0, 1, 2, 3, 4]) if version >= 4 else 0
            recursive = subs > 0 and r.random() < 0.25
            ctl = r.random() < 0.1
            cfg = gen.Cfg(mode=mode, version=version, subs=subs, max_depth=r.choice([2, 3, 4]), wide=r.random() < 0.3,
                          recursive=recursive, byref=not recursive, control_in_operand=ctl)
            try:
                prog = gen.G(r, cfg).program()
            except Exception as e:  # noqa: BLE001  generator trouble is not a property matter
                self.st.compile_fail["generator:" + type(e).__name__] += 1
                continue
            ss, fp = option_grid(version, r)[0]
            res = compile_real(prog, version, scratch_slots=ss, frame_pointers=fp)
            if res[0] != "ok":
                self.st.compile_fail[res[0] + ":" + res[1]] += 1
                continue
            teal = res[1]

            def unopt(prog=prog, version=version, fp=fp):
                r2 = compile_real(prog, version, scratch_slots=False, frame_pointers=fp)
                return (r2[1], recipe_hints(prog, r2[1])) if r2[0] == "ok" else None
            optimised = ss is True or (ss is None and version >= 9)
            self.judge("gen", f"#{i}", teal, recipe_hints(prog, teal), version, (ss, fp),
                       {"stream": "gen", "index": i, "recipe": recipes.pack(prog), "sexp": recipes.to_sexp(prog)[:4000]},
                       leak_kinds=frozenset(leaks(prog)), recompile_unopt=unopt if optimised else None,
                       mixed=mixed_recursion(prog))

    def api_family(self, stream, fams, versions, mode=pt.Mode.Application, full=True):
        def build_compile(fam, version, ss, fp):
            def go():
                try:
                    with quiet_traces():
                        expr, decl = fam()
                        res = compile_api(expr, mode, version, ss, fp, timeout=None)
                    return res + (decl,)
                except RecursionError:
                    return ("err", "RecursionError", None)
                except Exception as e:  # noqa: BLE001
                    return ("err", f"build:{type(e).__name__}", None)
            r = with_timeout(go, 20)
            return r if len(r) == 3 else (r[0], r[1], None)
        for fam in fams:
            for version in versions:
                for ss, fp in option_grid(version, full=full):
                    res = build_compile(fam, version, ss, fp)
                    if res[0] != "ok":
                        self.st.compile_fail[f"{stream}:{fam.__name__}:{res[1][:50]}"] += 1
                        continue
                    teal, decl = res[1], res[2]
                    hints = [(lab, a, r) for (nm, a, r) in decl for lab in labels_of(teal, nm)]

                    def unopt(fam=fam, version=version, fp=fp):
                        r2 = build_compile(fam, version, False, fp)
                        if r2[0] != "ok":
                            return None
                        return (r2[1], [(lab, a, r) for (nm, a, r) in r2[2] for lab in labels_of(r2[1], nm)])
                    optimised = ss is True or (ss is None and version >= 9)
                    self.judge(stream, fam.__name__, teal, hints, version, (ss, fp),
                               {"stream": stream, "family": fam.__name__},
                               recompile_unopt=unopt if optimised else None, mixed="mixed" in fam.__name__)

    def stream_router(self, versions):
        for version in versions:
            for ss, fp in option_grid(version, full=True):
                def go(version=version, ss=ss, fp=fp):
                    try:
                      with quiet_traces():
                        router = build_router()
                        kw = {}
                        if ss is not None or fp is not None:
                            kw["optimize"] = pt.OptimizeOptions(scratch_slots=ss, frame_pointers=fp)
                        ap, cl, _ = router.compile_program(version=version, **kw)
                      return ("ok", ap, cl)
                    except Exception as e:  # noqa: BLE001
                        return ("err", f"router:{type(e).__name__}:{str(e)[:60]}")
                res = with_timeout(go, 30)
                if res[0] != "ok":
                    self.st.compile_fail[res[1]] += 1
                    continue
                ap, cl = res[1], res[2]
                for nm, teal in (("approval", ap), ("clear", cl)):
                    self.judge("router", nm, teal, [], version, (ss, fp), {"stream": "router", "which": nm})

    def stream_multi(self, versions):
        for name, build, minv, mode in multi_programs():
            for version in versions:
                if version < minv:
                    continue
                for ss, fp in option_grid(version, full=self.tier == "thorough") if self.tier == "thorough" else [(None, None), (False, False)]:
                    try:
                        expr = build()
                    except Exception as e:  # noqa: BLE001
                        self.st.compile_fail[f"multi:{name}:build:{type(e).__name__}"] += 1
                        break
                    res = compile_api(expr, mode, version, ss, fp)
                    if res[0] != "ok":
                        self.st.compile_fail[f"multi:{name}:{res[1][:50]}"] += 1
                        continue

                    def unopt(build=build, mode=mode, version=version, fp=fp):
                        r2 = compile_api(build(), mode, version, False, fp)
                        return (r2[1], []) if r2[0] == "ok" else None
                    optimised = ss is True or (ss is None and version >= 9)
                    self.judge("multi", name, res[1], [], version, (ss, fp), {"stream": "multi", "name": name},
                               recompile_unopt=unopt if optimised else None)

    def stream_exotic(self, versions):
        seen = Counter()
        for name, build, key in exotic_programs():
            for version in versions:
                for ss, fp in [(False, False), (True, False)] + ([(True, True), (False, True)] if version >= 8 else []):
                    if key == KEY_DEAD and not ss:
                        continue
                    res = compile_api(build(), pt.Mode.Application, version, ss, fp)
                    if res[0] != "ok":
                        self.st.compile_fail[f"exotic:{name}:{res[1][:50]}"] += 1
                        continue

                    def unopt(build=build, version=version, fp=fp):
                        r2 = compile_api(build(), pt.Mode.Application, version, False, fp)
                        return (r2[1], []) if r2[0] == "ok" else None
                    before = len(self.rep.violations) + sum(self.st.known.values())
                    hints = []
                    for nm, a, r_ in (("r", 1, 1), ("h", 1, 1)):
                        hints += [(lab, a, r_) for lab in labels_of(res[1], nm)]
                    self.judge("exotic", name, res[1], hints, version, (ss, fp), {"stream": "exotic", "name": name},
                               expect_key=key, recompile_unopt=unopt if key == KEY_DEAD else None)
                    after = len(self.rep.violations) + sum(self.st.known.values())
                    seen[(name, "flagged" if after > before else "accepted")] += 1
        return seen

    def stream_illtyped(self, versions):
        """programs whose parts do not fit together: the compiler may refuse them (the expected outcome), but whatever it
        accepts must still keep the stack discipline"""
        I, U = pt.Int, pt.TealType.uint64
        c1, c2 = (lambda: pt.Txn.fee()), (lambda: pt.Txn.amount())

        def sub_bare_return():
            @pt.Subroutine(U)
            def half(x):
                return pt.Seq(pt.If(x % I(2)).Then(pt.Return()), pt.Return(x / I(2)))
            return pt.Seq(pt.Pop(half(I(7)) + I(1)), pt.Approve())

        def sub_none_body():
            @pt.Subroutine(U)
            def f(x):
                return pt.Pop(x)
            return pt.Seq(pt.Pop(f(I(7))), pt.Approve())

        def sub_none_anytype():
            @pt.Subroutine(pt.TealType.none)
            def f(x):
                return pt.Seq(pt.Pop(x), pt.App.globalGet(pt.Bytes("k")))
            return pt.Seq(f(I(7)), pt.Approve())

        def seq_anytype_call():
            @pt.Subroutine(pt.TealType.anytype)
            def g(x):
                return pt.App.globalGet(pt.Itob(x))
            return pt.Seq(g(I(7)), pt.Approve())

        builders = [
            ("elseif-value-then-none", lambda: pt.Seq(pt.Pop(pt.If(c1()).Then(I(1)).ElseIf(c2()).Then(pt.Pop(I(1)))), pt.Approve())),
            ("elseif-value-no-else", lambda: pt.Seq(pt.Pop(pt.If(c1()).Then(I(1)).ElseIf(c2()).Then(I(2))), pt.Approve())),
            ("elseif-none-then-value", lambda: pt.Seq(pt.If(c1()).Then(pt.Pop(I(1))).ElseIf(c2()).Then(I(2)), pt.Approve())),
            ("elseif-uint-then-bytes", lambda: pt.Seq(pt.Pop(pt.If(c1()).Then(I(1)).ElseIf(c2()).Then(pt.Bytes("a")).Else(I(3))), pt.Approve())),
            ("elseif-chain-3", lambda: pt.Seq(pt.Pop(pt.If(c1()).Then(I(1)).ElseIf(c2()).Then(I(2)).ElseIf(c1()).Then(pt.Pop(I(3)))), pt.Approve())),
            ("if-value-without-else", lambda: pt.Seq(pt.Pop(pt.If(c1()).Then(I(1))), pt.Approve())),
            ("cond-mixed", lambda: pt.Seq(pt.Pop(pt.Cond([c1(), I(1)], [c2(), pt.Pop(I(2))])), pt.Approve())),
            ("seq-value-in-the-middle", lambda: pt.Seq(I(1), pt.Approve())),
            ("while-value-body", lambda: pt.Seq(pt.While(c1()).Do(I(1)), pt.Approve())),
            ("for-value-step", lambda: pt.Seq(pt.For(pt.Pop(I(0)), c1(), I(1)).Do(pt.Pop(I(2))), pt.Approve())),
            ("sub-bare-return", sub_bare_return), ("sub-none-body", sub_none_body),
            ("assert-none", lambda: pt.Seq(pt.Assert(pt.Pop(I(1))), pt.Approve())),
            ("wideratio-bytes-factor", lambda: pt.Return(pt.WideRatio([pt.Bytes("a"), I(2)], [I(1)]))),
            ("wideratio-none-factor", lambda: pt.Return(pt.WideRatio([I(2), I(3)], [pt.Pop(I(1))]))),
            ("nary-bytes-operand", lambda: pt.Return(pt.Add(I(1), I(2), pt.Bytes("a")))),
            ("concat-uint-operand", lambda: pt.Seq(pt.Pop(pt.Concat(pt.Bytes("a"), I(1))), pt.Approve())),
            ("store-wrong-type", lambda: pt.Seq(pt.ScratchVar(U).store(pt.Bytes("a")), pt.Approve())),
            ("globalput-none", lambda: pt.Seq(pt.App.globalPut(pt.Bytes("k"), pt.Pop(I(1))), pt.Approve())),
            ("return-none-in-main", lambda: pt.Seq(pt.If(c1()).Then(pt.Return()), pt.Approve())),
            # expressions of type `anytype` (global state reads, loads of untyped variables, untyped routines) where NO value may be left
            ("seq-anytype-in-the-middle", lambda: pt.Seq(pt.App.globalGet(pt.Bytes("k")), pt.Approve())),
            ("then-anytype-no-else", lambda: pt.Seq(pt.If(c1()).Then(pt.App.globalGet(pt.Bytes("k"))), pt.Approve())),
            ("while-anytype-body", lambda: pt.Seq(pt.While(c1()).Do(pt.App.globalGet(pt.Bytes("k"))), pt.Approve())),
            ("for-anytype-step", lambda: pt.Seq(pt.For(pt.Pop(I(0)), c1(), pt.App.globalGet(pt.Bytes("k"))).Do(pt.Pop(I(2))), pt.Approve())),
            ("seq-anytype-load", lambda: pt.Seq((av := pt.ScratchVar(pt.TealType.anytype)).store(I(1)), av.load(), pt.Approve())),
            ("cond-none-then-anytype", lambda: pt.Seq(pt.Cond([c1(), pt.Pop(I(1))], [c2(), pt.App.globalGet(pt.Bytes("k"))]), pt.Approve())),
            ("sub-none-anytype-body", sub_none_anytype), ("seq-anytype-call", seq_anytype_call),
        ]
        out = Counter()
        for name, build in builders:
            for version in versions:
                for ss, fp in [(False, False)] + ([(False, True)] if version >= 8 else []):
                    try:
                        with quiet_traces():
                            expr = build()
                    except Exception as e:  # noqa: BLE001
                        out[f"{name}:refused when built ({type(e).__name__})"] += 1
                        continue
                    res = compile_api(expr, pt.Mode.Application, version, ss, fp)
                    if res[0] != "ok":
                        out[f"{name}:refused when compiled ({res[1][:40]})"] += 1
                        continue
                    out[f"{name}:ACCEPTED"] += 1
                    self.judge("illtyped", name, res[1], [], version, (ss, fp), {"stream": "illtyped", "name": name})
        return out

    def stream_golden(self):
        files = sorted(list((REPO / "tests").rglob("*.teal")) + list((REPO / "examples").rglob("*.teal")))
        n = bad = 0
        for f in files:
            try:
                text = f.read_text()
            except Exception:  # noqa: BLE001
                continue
            n += 1
            ans = ask_check(self.d, text)
            self.st.by_stream["golden"] += 1
            if ans.startswith("ok"):
                fl = self.st.note_ok("golden", 0, (None, None), ans, text)
                self.st.programs += 1
                if int(fl.get("exitExtra", 0)) > 0:
                    bad += 1
                    self.rep.violation(f"golden file {f.relative_to(REPO)} reaches return with values left behind",
                                       {"stream": "golden", "file": str(f.relative_to(REPO)), "answer": ans})
            else:
                bad += 1
                self.st.programs += 1
                self.rep.violation(f"golden file {f.relative_to(REPO)} rejected (signature-table bug or real defect): {ans[:200]}",
                                   {"stream": "golden", "file": str(f.relative_to(REPO)), "answer": ans})
        return n, bad


def regenerate_fields(rep: Report):
    text = translate_fields.render()
    cur = translate_fields.OUT.read_text() if translate_fields.OUT.exists() else ""
    if cur != text:
        translate_fields.OUT.parent.mkdir(exist_ok=True)
        translate_fields.OUT.write_text(text)
        rep.notes.append("Gen/FieldTypes.lean regenerated from the live field enums (it had changed)")
        return True
    return False


def run(tier: str) -> int:
    rep = Report("C05", tier, level="proof")
    t0 = time.time()
    regenerate_fields(rep)
    st = check_proofs(PROOF_MODULES, extra_files=[LEAN / "PyTealV" / "Check" / "Stack.lean", LEAN / "PyTealV" / "Cmd" / "C05.lean"])
    rep.coverage.update(proof_coverage(st, "cd lean && lake build " + " ".join(PROOF_MODULES), TRUSTED))
    main_thms = ["PyTealV.Proofs.C05.stackcheck_sound", "PyTealV.Proofs.C05.run_sound", "PyTealV.Proofs.C05.no_any_no_type_error",
                 "PyTealV.Proofs.C05.base_preserved", "PyTealV.Proofs.C05.primT_sound", "PyTealV.Proofs.C05.coveredTable_ok",
                 "PyTealV.Proofs.C05.step_sound", "PyTealV.Proofs.C05.ex_ok"]
    missing = [t for t in main_thms if t not in st.theorems]
    proof_broken = (not st.ok) or bool(missing)
    if proof_broken:
        rep.notes.append("proof problems: " + "; ".join(st.problems + ["missing " + m for m in missing])[:1500])

    d = Driver()
    run_ = Runner(rep, d, tier)
    quick = tier == "quick"
    run_.stream_gen(1200 if quick else 15000)
    run_.api_family("rec", REC_FAMILIES, [4, 6, 8, 10] if quick else [4, 5, 6, 7, 8, 9, 10], full=not quick or True)
    run_.api_family("abi", ABI_FAMILIES, [6, 8, 10] if quick else [5, 6, 7, 8, 9, 10])
    run_.stream_router([6, 8, 10] if quick else [6, 7, 8, 9, 10])
    run_.stream_multi([2, 5, 8, 10] if quick else list(range(2, 11)))
    exotic = run_.stream_exotic([2, 6, 8, 10] if quick else list(range(2, 11)))
    illtyped = run_.stream_illtyped([4, 6, 8] if quick else list(range(4, 11)))
    gold_n, gold_bad = run_.stream_golden()
    d.close()
    s = run_.st

    # the exotic stream must not be silent: every family has to be flagged at least once
    for name, _b, key in exotic_programs():
        if exotic[(name, "flagged")] == 0:
            if key == KEY_CTL or key == KEY_DEAD:
                rep.notes.append(f"exotic family {name} was accepted in every configuration (defect {key} not reproduced on this tree)")

    if proof_broken:
        # a broken proof is not a property violation by itself: the oracle pass above searched the real
        # code; report the proof state with no failing input if nothing else was found
        if not rep.violations:
            rep.violation("C05 proofs do not build / audit: " + "; ".join(st.problems + missing)[:400],
                          {"theorem": "stackcheck_sound", "problems": st.problems, "log_tail": st.log[-1500:]}, no_input=True)

    acc = max(s.accepted, 1)
    rep.coverage.update({
        "evaluations": s.programs,
        "distinct_nontrivial": len(s.distinct) + gold_n,
        "rule": "every program: real compile -> TEAL -> c05-check (infer certificate, decide with the proved `ok`); all paths of each program",
        "programs_accepted": s.accepted,
        "ill_typed_stream": dict(sorted(illtyped.items())),
        "lints_not_part_of_the_property": dict(s.lints),
        "instructions_checked": s.pcs,
        "abstract_states": s.states,
        "max_height": s.max_height,
        "share_programs_with_any": round(s.with_any / acc, 4),
        "share_states_with_any": round(s.any_states / max(s.states, 1), 4),
        "share_programs_covered_by_proof": round(s.covered / acc, 4),
        "programs_with_subroutines": s.with_subs,
        "routines_checked": s.routines,
        "uncovered_opcodes": dict(s.uncovered_ops.most_common(20)),
        "golden_files": gold_n,
        "golden_rejected": gold_bad,
        "known_finding_hits": dict(s.known),
        "exotic": {f"{k[0]}:{k[1]}": v for k, v in sorted(exotic.items())},
        "compile_rejections": dict(s.compile_fail.most_common(12)),
        "samples": s.samples,
        "distribution": {"stream": dict(s.by_stream), "version": {str(k): v for k, v in sorted(s.by_version.items())},
                         "options": dict(s.by_opts)},
        "covered_ops": "structOps(15) + coveredTable(96) + 14 field-dependent opcodes; see Check/Stack.lean coveredOps",
        "wall_checks_s": round(time.time() - t0, 1),
    })
    rep.assumptions += [
        "ScratchSlot.store() without a value (raw stack store) is excluded, as the property says",
        "contexts are typed by the field table (CtxOK); initial scratch space is all uint64 0",
        "calling convention hints (argument/result counts) come from the Python-side declarations",
    ]
    return rep.finish()


def replay(path: str) -> int:
    body = json.loads(Path(path).read_text())
    d = Driver()
    print("recorded:", body.get("what"))
    print("recorded answer:", body.get("answer"))
    teal = body.get("teal")
    if teal:
        hints = [tuple(h) for h in body.get("hints", [])]
        print("checker now (recorded TEAL):", ask_check(d, teal, hints))
    if body.get("stream") == "gen" and body.get("recipe"):
        prog = recipes.unpack(body["recipe"])
        ss, fp = body.get("opts", [None, None])
        res = compile_real(prog, body["version"], scratch_slots=ss, frame_pointers=fp)
        if res[0] == "ok":
            print("checker now (fresh compile of the recipe):", ask_check(d, res[1], recipe_hints(prog, res[1])))
            r2 = compile_real(prog, body["version"], scratch_slots=False, frame_pointers=fp)
            if r2[0] == "ok":
                print("checker now (scratch_slots=False twin):", ask_check(d, r2[1], recipe_hints(prog, r2[1])))
        else:
            print("fresh compile:", res)
    if body.get("stream") == "golden":
        f = REPO / body["file"]
        print("checker now (file):", ask_check(d, f.read_text()))
    # hand-written families: rebuild with the current working tree and compare
    ver, (ss, fp) = body.get("version"), body.get("opts", [None, None])
    fresh = None
    try:
        with quiet_traces():
            if body.get("stream") in ("rec", "abi"):
                fam = {f.__name__: f for f in REC_FAMILIES + ABI_FAMILIES}[body["family"]]
                expr, decl = fam()
                r = compile_api(expr, pt.Mode.Application, ver, ss, fp, timeout=None)
                if r[0] == "ok":
                    fresh = (r[1], [(lab, a, k) for (nm, a, k) in decl for lab in labels_of(r[1], nm)])
            elif body.get("stream") == "router":
                kw = {}
                if ss is not None or fp is not None:
                    kw["optimize"] = pt.OptimizeOptions(scratch_slots=ss, frame_pointers=fp)
                ap, cl, _ = build_router().compile_program(version=ver, **kw)
                fresh = (ap if body.get("which") == "approval" else cl, [])
            elif body.get("stream") == "multi":
                for name, build, _minv, mode in multi_programs():
                    if name == body.get("name"):
                        r = compile_api(build(), mode, ver, ss, fp, timeout=None)
                        fresh = (r[1], []) if r[0] == "ok" else None
            elif body.get("stream") == "exotic":
                for name, build, _key in exotic_programs():
                    if name == body.get("name"):
                        r = compile_api(build(), pt.Mode.Application, ver, ss, fp, timeout=None)
                        fresh = (r[1], [tuple(h) for h in body.get("hints", [])]) if r[0] == "ok" else None
    except Exception as e:  # noqa: BLE001
        print("fresh build failed:", type(e).__name__, str(e)[:200])
    if fresh is not None:
        print("checker now (fresh compile with the current tree):", ask_check(d, fresh[0], fresh[1]))
        print("fresh TEAL identical to the recorded one:", fresh[0] == teal)
    if teal:
        print("--- TEAL ---")
        for i, l in enumerate([x for x in teal.split("\n") if x.strip() and not x.strip().startswith("//")]):
            print(f"{i:4d}  {l}")
    d.close()
    return 0
