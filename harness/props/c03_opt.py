"""C03, optimiser part: the REAL scratch-slot optimiser against the Lean model.

`run_opt_tie(rep, tier)` (called from the C03 check) does three things
  1. replays the known finding C03-dead-store-optimised on the real code (compileTeal with
     OptimizeOptions(scratch_slots=True) vs False, both TEALs executed by the Lean AVM; and the
     same routine as a block graph through the real `apply_global_optimizations`);
  2. tie: random programs of 1-3 routine graphs built from the real TealSimpleBlock /
     TealConditionalBlock / TealOp / ScratchSlot -> real `collect_unoptimized_slots` vs the model
     (`c03-unopt`), real `TealBlock.Iterate` vs `c03-iterate`, real `apply_global_optimizations`
     (with `options._skip_slots` set the way compiler.py sets it) vs `c03-opt`: identical op lists
     in every block (reachable or not) and identical set of removed slots;
  3. search: every graph is executed before / after the REAL optimisation with `Comp.grun`
     (`c03-run`).  When the hypotheses of `slot_to_stack_sound_partial` hold (`c03-pairs`) the two
     runs must agree (outcome, stack, every slot outside the removed ones) unless the unoptimised
     run dies of stack underflow; a disagreement there is a violation with a failing input.  When
     `pairsOnly` fails, a disagreement is the known finding.  A model/real mismatch for which the
     search finds no behavioural difference is reported with no_input=True.

Graph encoding: see lean/PyTealV/Cmd/C03Opt.lean.
"""
from __future__ import annotations

import json
import sys
from pathlib import Path

sys.path.insert(0, str(Path(__file__).resolve().parent.parent))
import common  # noqa: E402
from common import Driver, Report, hexs, rng  # noqa: E402

KEY = "C03-dead-store-optimised"


def _pt():
    if str(common.REPO) not in sys.path:
        sys.path.insert(0, str(common.REPO))
    import pyteal as pt  # noqa
    return pt


# --------------------------------------------------------------------------- program builder


class Prog:
    """A program: routines (key -> start block) over one pool of slot objects."""

    def __init__(self):
        self.slots = []          # ScratchSlot objects; index = identity number
        self.routines = []       # (key_name, key_obj, blocks(list), start_index)

    def obj(self, slot) -> int:
        for i, s in enumerate(self.slots):
            if s is slot:
                return i
        raise KeyError(slot)


def gen_prog(r, pt, small=False) -> Prog:
    from pyteal.ir import TealOp, Op, TealSimpleBlock, TealConditionalBlock
    P = Prog()
    nauto = r.choice([1, 2, 3, 4])
    for _ in range(nauto):
        P.slots.append(pt.ScratchSlot())
    used_ids = set()
    for _ in range(r.choice([0, 0, 1, 2])):
        k = r.choice([0, 1, 5, 254, 255, r.randrange(256)])
        if k in used_ids:
            continue
        used_ids.add(k)
        P.slots.append(pt.ScratchSlot(k))
    nslots = len(P.slots)
    nroutines = r.choice([1, 1, 1, 2, 3])
    # slots private to a routine are the interesting ones; a few are shared (global)
    shared = set(i for i in range(nslots) if r.random() < (0.25 if nroutines > 1 else 0.0))
    owner = {i: r.randrange(nroutines) for i in range(nslots)}
    opname = {"pop": Op.pop, "+": Op.add, "dup": Op.dup, "!": Op.logic_not, "return": Op.return_,
              "err": Op.err, "loads": Op.loads, "stores": Op.stores}

    def mk(kind, arg=None):
        if kind == "l":
            return TealOp(None, Op.load, P.slots[arg])
        if kind == "s":
            return TealOp(None, Op.store, P.slots[arg])
        if kind == "i":                       # ScratchSlot.index(): int op that references a slot
            return TealOp(None, Op.int, P.slots[arg])
        if kind == "o":
            return TealOp(None, Op.int, arg)
        return TealOp(None, opname[kind])

    for ri in range(nroutines):
        mine = [i for i in range(nslots) if i in shared or owner[i] == ri]
        if not mine:
            mine = [r.randrange(nslots)]
        nb = r.choice([1, 1, 2, 3, 4, 5]) if small else r.choice([1, 2, 3, 4, 5, 6, 8])
        style = r.random()
        blocks_ops = []
        for _ in range(nb):
            ops = []
            for _ in range(r.choice([0, 1, 1, 2, 2, 3, 4])):
                s = r.choice(mine)
                c = r.random()
                if style < 0.12:             # unstructured junk
                    k = r.choice(["l", "s", "s", "l", "o", "pop", "+", "i", "dup"])
                    ops.append(mk(k, s if k in "lsi" else r.randrange(10)))
                elif c < 0.30:               # store; load; use
                    ops += [mk("o", r.randrange(1, 9)), mk("s", s), mk("l", s)]
                    ops += [mk("pop")] if r.random() < 0.6 else [mk("s", r.choice(mine))]
                elif c < 0.45:               # plain (possibly dead) store
                    ops += [mk("o", r.randrange(1, 9)), mk("s", s)]
                elif c < 0.58:               # load elsewhere
                    ops += [mk("l", s), mk("pop")]
                elif c < 0.66:               # the same pair twice in a row
                    ops += [mk("o", 3), mk("s", s), mk("l", s), mk("s", s), mk("l", s), mk("pop")]
                elif c < 0.72:               # store a; load b
                    ops += [mk("o", 4), mk("s", s), mk("l", r.choice(mine)), mk("pop")]
                elif c < 0.78:               # dynamic access through index()
                    ops += [mk("i", s), mk("loads"), mk("pop")]
                elif c < 0.82:
                    ops += [mk("o", 2), mk("i", s), mk("stores")] if r.random() < 0.5 else [mk("i", s), mk("o", 2), mk("stores")]
                elif c < 0.86:               # raw dynamic access (ScratchLoad(index_expression=..)): no int-slot op
                    ops += [mk("o", r.randrange(0, 4)), mk("loads")] + ([mk("pop")] if r.random() < 0.5 else [mk("s", r.choice(mine))])
                elif c < 0.93:
                    ops += [mk("o", r.randrange(10)), mk("o", r.randrange(10)), mk("+"), mk("pop")]
                else:
                    ops += [mk("o", r.randrange(10)), mk("pop")]
            blocks_ops.append(ops)
        # shape: kind of every block, then wire successors (forward mostly, some back edges)
        kinds = []
        for bi in range(nb):
            c = r.random()
            k = "c" if (c < 0.35 and nb > 1) else ("n" if c < 0.85 else "-")
            if bi == nb - 1 and r.random() < 0.8:
                k = "-"                            # most routines end in a block without successor
            kinds.append(k)
        blocks = []
        for bi in range(nb):
            ops = blocks_ops[bi]
            if kinds[bi] == "c":
                s = r.choice(mine)
                ops += [mk("o", r.choice([0, 1, 1]))] if r.random() < 0.7 else [mk("l", s)]
                blocks.append(TealConditionalBlock(ops))
            else:
                if kinds[bi] == "-" and r.random() < 0.5:
                    ops += [mk("o", 1), mk("return")]
                blocks.append(TealSimpleBlock(ops))

        def target(bi):
            c = r.random()
            if c < 0.55 and bi + 1 < nb:
                return bi + 1
            if c < 0.88 and bi + 1 < nb:
                return r.randrange(bi + 1, nb)
            if c < 0.95:
                return r.randrange(0, nb)          # loop / self loop
            return min(bi + 1, nb - 1)

        for bi in range(nb):
            if kinds[bi] == "c":
                blocks[bi].setTrueBlock(blocks[target(bi)])
                blocks[bi].setFalseBlock(blocks[target(bi)])
            elif kinds[bi] == "n":
                blocks[bi].setNextBlock(blocks[target(bi)])
        start = 0 if r.random() < 0.9 else r.randrange(nb)
        if ri == 0:
            key_name, key_obj = "m", None
        else:
            key_name = str(ri)
            key_obj = pt.SubroutineDefinition(lambda: pt.Int(1), pt.TealType.uint64)
        P.routines.append((key_name, key_obj, blocks, start))
    return P


# --------------------------------------------------------------------------- encodings


def enc_succ(b, index):
    from pyteal.ir import TealSimpleBlock
    if type(b) is TealSimpleBlock:
        return "-" if b.nextBlock is None else f"n{index(b.nextBlock)}"
    return f"c{index(b.trueBlock)}.{index(b.falseBlock)}"


def enc_op_opt(P, op) -> str:
    from pyteal.ir import Op
    slots = op.getSlots()
    if op.op == Op.load:
        return f"l{P.obj(slots[0])}"
    if op.op == Op.store:
        return f"s{P.obj(slots[0])}"
    if op.op == Op.int:
        return f"o{P.obj(slots[0])}" if slots else f"o{op.args[0]}"
    return "x" + str(op.op).encode().hex()


def enc_op_c10(P, op) -> str:
    from pyteal.ir import Op
    kind = {Op.load: "l", Op.store: "s", Op.int: "i"}.get(op.op, "o")
    args = []
    for a in op.args:
        if type(a).__name__ == "ScratchSlot":
            args.append(f"S{P.obj(a)}.{a.id}.{1 if a.isReservedSlot else 0}")
        elif isinstance(a, int):
            args.append(f"N{a}")
    return ",".join([kind] + args)


def enc_graph(P, blocks, enc_op, opsep=",") -> str:
    def index(b):
        for i, x in enumerate(blocks):
            if x is b:
                return i
        raise KeyError
    return "/".join(opsep.join(enc_op(P, op) for op in b.ops) + ":" + enc_succ(b, index) for b in blocks)


def real_iterate(blocks, start):
    from pyteal.ir import TealBlock
    out = []
    for b in TealBlock.Iterate(blocks[start]):
        out.append(next(i for i, x in enumerate(blocks) if x is b))
    return out


def dots(xs):
    return ".".join(str(x) for x in sorted(xs))


# --------------------------------------------------------------------------- execution comparison


def parse_run(ans: str):
    """c03-run answer -> (kind, payload, slots dict)"""
    slots = {}
    if "slots[" in ans:
        body = ans[ans.index("slots[") + 6: ans.rindex("]")]
        for kv in body.split():
            k, v = kv.split("=")
            slots[int(k)] = v
        ans = ans[: ans.index("slots[")].strip()
    kind, _, rest = ans.partition(" ")
    return kind, rest, slots


def same_run(a: str, b: str, removed: set[int]):
    ka, pa, sa = parse_run(a)
    kb, pb, sb = parse_run(b)
    if ka == "fuel" or kb == "fuel":
        return None                      # not comparable
    fa = {k: v for k, v in sa.items() if k not in removed}
    fb = {k: v for k, v in sb.items() if k not in removed}
    return ka == kb and pa == pb and fa == fb


# --------------------------------------------------------------------------- known finding


def replay_known(rep: Report, d: Driver, pt, verbose=False) -> dict:
    """The dead-store finding on the real code: compiler level (two programs) and graph level."""
    import recipes
    from pyteal.ir import TealOp, Op, TealSimpleBlock
    from pyteal.compiler.optimizer import OptimizeOptions, apply_global_optimizations
    out = {}

    def main_prog():
        s = pt.ScratchVar(pt.TealType.uint64)
        return pt.Seq(s.store(pt.Int(7)), pt.Pop(s.load()), s.store(pt.Int(9)), pt.Approve())

    def sub_prog():
        @pt.Subroutine(pt.TealType.none)
        def f():
            s = pt.ScratchVar(pt.TealType.uint64)
            return pt.Seq(s.store(pt.Int(7)), pt.Pop(s.load()), s.store(pt.Int(9)))
        return pt.Return(pt.Int(3) - pt.Seq(f(), pt.Int(3)))

    ctx = recipes.gen_ctx(rng("c03opt-ctx"), "app", 6)
    d.ask("ctx c03o " + recipes.render_ctx(ctx))
    for name, mk in (("main", main_prog), ("subroutine", sub_prog)):
        res = {}
        for o in (False, True):
            teal = pt.compileTeal(mk(), pt.Mode.Application, version=6, optimize=pt.OptimizeOptions(scratch_slots=o))
            ok = d.ask(f"teal c03o {hexs(teal.encode())}")
            res[o] = {"teal": "; ".join(l for l in teal.splitlines()[1:] if l), "parse": ok,
                      "outcome": d.ask("exec c03o c03o 2000")}
        out[name] = res
        if verbose:
            print(name, json.dumps(res, indent=1))
    # the extra `int 9` of the main program stays on the stack; in the subroutine it shifts the
    # caller's operands (3 - 3 = 0 becomes 9 - 3 = 6: reject becomes approve)
    m = out["main"]
    main_hit = ("store" not in m[True]["teal"] and "int 9" in m[True]["teal"] and "store" in m[False]["teal"])
    s = out["subroutine"]
    sub_hit = s[False]["outcome"] != s[True]["outcome"]
    # graph level
    slot = pt.ScratchSlot()
    ops = [TealOp(None, Op.int, 7), TealOp(None, Op.store, slot), TealOp(None, Op.load, slot), TealOp(None, Op.pop),
           TealOp(None, Op.int, 9), TealOp(None, Op.store, slot)]
    blk = TealSimpleBlock(ops)
    before = "o7,s0,l0,x" + b"pop".hex() + ",o9,s0:-"
    opts = OptimizeOptions(scratch_slots=True)
    opts._skip_slots = set()
    apply_global_optimizations(blk, opts, 6)
    P = Prog()
    P.slots = [slot]
    after = enc_graph(P, [blk], enc_op_opt)
    r0, r1 = d.ask(f"c03-run 0 100 {before}"), d.ask(f"c03-run 0 100 {after}")
    model = d.ask(f"c03-opt - 0 {before}")
    out["graph"] = {"before": before, "after_real": after, "model": model, "run_before": r0, "run_after": r1}
    graph_hit = same_run(r0, r1, {0}) is False
    out["reproduced"] = {"main": main_hit, "subroutine_verdict_changes": sub_hit, "graph": graph_hit}
    if main_hit or sub_hit or graph_hit:
        rep.violation(
            "scratch-slot optimiser deletes a dead store of a cancelled slot and leaves its value on the stack "
            f"(main: `{m[True]['teal']}`; subroutine variant: unoptimised {s[False]['outcome']} / optimised {s[True]['outcome']}; "
            f"graph: {r0} / {r1})",
            {"kind": "c03opt-known", "detail": out, "theorem": "optimizer_counterexample"}, key=KEY)
    return out


# --------------------------------------------------------------------------- the tie


def run_opt_tie(rep: Report, tier: str) -> dict:
    pt = _pt()
    from pyteal.compiler.optimizer import OptimizeOptions, apply_global_optimizations
    from pyteal.compiler.scratchslots import collect_unoptimized_slots
    d = Driver()
    r = rng("c03-opt-tie")
    n_progs = 3000 if tier == "quick" else 40000
    known = replay_known(rep, d, pt)
    cov = {"programs": 0, "graphs": 0, "graphs_changed": 0, "slots_removed": 0, "graphs_with_loop": 0,
           "graphs_pairsOnly_violated": 0, "graphs_pairsOnly_and_changed": 0, "graphs_with_dynamic_scratch_op": 0,
           "skip_nonempty": 0, "skip_slots_total": 0, "exec_compared": 0, "exec_underflow_excused": 0,
           "exec_fuel": 0, "known_finding_diffs": 0, "dynamic_access_diffs": 0, "mismatches": 0, "blocks": 0, "unreachable_blocks": 0}
    samples = []
    mism_reported = 0
    for pi in range(n_progs):
        P = gen_prog(r, pt, small=(pi % 3 == 0))
        cov["programs"] += 1
        sub = {key_obj: blocks[start] for (_, key_obj, blocks, start) in P.routines}
        # --- skip set
        words = [f"{name}={start}=" + enc_graph(P, blocks, enc_op_c10, ";") for (name, _, blocks, start) in P.routines]
        real_skip = collect_unoptimized_slots(sub)
        real_skip_ids = sorted(P.obj(s) for s in real_skip)
        m_skip = d.ask("c03-unopt " + " ".join(words))
        if m_skip != "unopt=" + dots(real_skip_ids):
            cov["mismatches"] += 1
            rep.violation(f"collect_unoptimized_slots differs from the model: real={dots(real_skip_ids)} model={m_skip}",
                          {"kind": "c03opt-unopt", "routines": words, "real": real_skip_ids, "model": m_skip,
                           "theorem": "unoptimizedSlots (correspondence)"}, no_input=True)
        if real_skip_ids:
            cov["skip_nonempty"] += 1
            cov["skip_slots_total"] += len(real_skip_ids)
        skipw = ",".join(map(str, real_skip_ids)) or "-"
        for (name, _, blocks, start) in P.routines:
            cov["graphs"] += 1
            cov["blocks"] += len(blocks)
            before = enc_graph(P, blocks, enc_op_opt)
            order = real_iterate(blocks, start)
            cov["unreachable_blocks"] += len(blocks) - len(order)
            m_order = d.ask(f"c03-iterate {start} {before}")
            if m_order != ".".join(map(str, order)):
                cov["mismatches"] += 1
                rep.violation(f"TealBlock.Iterate order differs: real={order} model={m_order}",
                              {"kind": "c03opt-iterate", "start": start, "graph": before, "theorem": "reach (correspondence)"},
                              no_input=True)
            # loop?
            idx = {id(b): i for i, b in enumerate(blocks)}
            if any(idx[id(t)] <= i for i, b in enumerate(blocks) for t in b.getOutgoing()):
                cov["graphs_with_loop"] += 1
            slots_before = {P.obj(s) for b in blocks for op in b.ops for s in op.getSlots() if str(op.op) in ("load", "store")}
            opts = OptimizeOptions(scratch_slots=True)
            opts._skip_slots = set(real_skip)            # what compiler.py does
            err = None
            try:
                apply_global_optimizations(blocks[start], opts, 6)
            except BaseException as e:  # noqa
                err = f"{type(e).__name__}: {e}"
            after = enc_graph(P, blocks, enc_op_opt) if err is None else "raised " + err
            slots_after = {P.obj(s) for b in blocks for op in b.ops for s in op.getSlots() if str(op.op) in ("load", "store")}
            m = d.ask(f"c03-opt {skipw} {start} {before}")
            hyp = d.ask(f"c03-pairs {skipw} {start} {before}")
            pairs_ok, framed = "pairsOnly=1" in hyp, "framed=1" in hyp
            m_graph = m.split(" ")[1] if m.startswith("ok ") else m
            m_removed = set(int(x) for x in m.split("removed=")[1].split(".") if x) if "removed=" in m else set()
            changed = after != before
            cov["graphs_changed"] += int(changed)
            cov["slots_removed"] += len(m_removed)
            cov["graphs_pairsOnly_violated"] += int(not pairs_ok)
            cov["graphs_pairsOnly_and_changed"] += int(pairs_ok and changed)
            cov["graphs_with_dynamic_scratch_op"] += int(not framed)
            mismatch = (m_graph != after)
            # --- behaviour before / after the REAL optimisation
            verdict = None
            if err is None:
                r0, r1 = d.ask(f"c03-run {start} 400 {before}"), d.ask(f"c03-run {start} 400 {after}")
                gone = {s for s in slots_before if s not in slots_after} | m_removed
                verdict = same_run(r0, r1, gone)
                if verdict is None:
                    cov["exec_fuel"] += 1
                else:
                    cov["exec_compared"] += 1
                if verdict is False and r0.startswith("halt fail underflow"):
                    cov["exec_underflow_excused"] += 1
                    verdict = True
            replay = {"kind": "c03opt-graph", "skip": skipw, "start": start, "before": before, "after_real": after,
                      "model": m, "hyp": hyp}
            if verdict is False:
                replay.update({"run_before": r0, "run_after": r1})
                if not mismatch and not pairs_ok:
                    cov["known_finding_diffs"] += 1
                    rep.violation("dead store of a cancelled slot deleted (graph level)", replay, key=KEY)
                elif not mismatch and not framed:
                    # a raw `loads`/`stores` (ScratchLoad(index_expression=..), no int-slot op) that hits the
                    # number of a cancelled slot: outside the hypotheses of the theorem and of what PyTeal
                    # promises (the number of an automatic slot is not known to the program); counted only
                    cov["dynamic_access_diffs"] += 1
                    if "dynamic_access_sample" not in cov:
                        cov["dynamic_access_sample"] = replay
                else:
                    rep.violation(
                        f"real optimiser changes behaviour: before `{r0}` after `{r1}` (hypotheses {hyp}; model agrees with real: {not mismatch})",
                        replay)
            if mismatch:
                cov["mismatches"] += 1
                if verdict is not False and mism_reported < 5:
                    mism_reported += 1
                    rep.violation(f"apply_global_optimizations differs from the model: real={after} model={m_graph}",
                                  dict(replay, theorem="slotToStack (correspondence)"), no_input=True)
            if len(samples) < 6 and changed:
                samples.append({"skip": skipw, "start": start, "before": before, "after": after, "hyp": hyp})
    d.close()
    cov["known_finding_replay"] = known.get("reproduced")
    cov["samples"] = samples
    return cov


def build_real(pt, enc: str):
    """graph encoding -> real blocks (slots: fresh ScratchSlot per number)"""
    from pyteal.ir import TealOp, Op, TealSimpleBlock, TealConditionalBlock
    byname = {str(o): o for o in Op}
    slots = {}

    def slot(n):
        if n not in slots:
            slots[n] = pt.ScratchSlot()
        return slots[n]
    specs = [b.rsplit(":", 1) for b in enc.split("/")]
    blocks = []
    for ops, succ in specs:
        real = []
        for w in [x for x in ops.split(",") if x]:
            if w[0] == "l":
                real.append(TealOp(None, Op.load, slot(int(w[1:]))))
            elif w[0] == "s":
                real.append(TealOp(None, Op.store, slot(int(w[1:]))))
            elif w[0] == "o":
                real.append(TealOp(None, Op.int, int(w[1:])))
            else:
                real.append(TealOp(None, byname[bytes.fromhex(w[1:]).decode()]))
        blocks.append(TealConditionalBlock(real) if succ.startswith("c") else TealSimpleBlock(real))
    for b, (_, succ) in zip(blocks, specs):
        if succ.startswith("n"):
            b.setNextBlock(blocks[int(succ[1:])])
        elif succ.startswith("c"):
            t, f = succ[1:].split(".")
            b.setTrueBlock(blocks[int(t)])
            b.setFalseBlock(blocks[int(f)])
    P = Prog()
    P.slots = [slots[k] for k in sorted(slots)]
    renum = {k: i for i, k in enumerate(sorted(slots))}
    return P, blocks, slots, renum


def replay(path: str) -> int:
    body = json.loads(Path(path).read_text())
    d = Driver()
    pt = _pt()
    if body.get("kind") == "c03opt-known":
        rep = Report("C03", "replay", level="proof")
        print(json.dumps(replay_known(rep, d, pt, verbose=True).get("reproduced")))
    elif body.get("kind") == "c03opt-graph":
        from pyteal.compiler.optimizer import OptimizeOptions, apply_global_optimizations
        print("input  :", body["skip"], body["start"], body["before"])
        print("real (recorded):", body["after_real"])
        P, blocks, slots, renum = build_real(pt, body["before"])
        opts = OptimizeOptions(scratch_slots=True)
        opts._skip_slots = {slots[int(k)] for k in body["skip"].split(",") if k != "-" and int(k) in slots}
        try:
            apply_global_optimizations(blocks[body["start"]], opts, 6)
            inv = {v: k for k, v in renum.items()}

            def enc(P_, op):
                w = enc_op_opt(P_, op)
                return w[0] + str(inv[int(w[1:])]) if w[0] in "ls" else w
            rerun = enc_graph(P, blocks, enc)
            print("real (re-run)  :", rerun)
            body = dict(body, after_real=rerun)
        except BaseException as e:  # noqa
            print("real (re-run)  : raised", type(e).__name__, e)
        print("model  :", d.ask(f"c03-opt {body['skip']} {body['start']} {body['before']}"))
        print("run before:", d.ask(f"c03-run {body['start']} 400 {body['before']}"))
        if not body["after_real"].startswith("raised"):
            print("run after :", d.ask(f"c03-run {body['start']} 400 {body['after_real']}"))
    else:
        print(json.dumps(body, indent=1))
    d.close()
    return 0


if __name__ == "__main__":
    import argparse
    ap = argparse.ArgumentParser()
    ap.add_argument("--tier", default="quick")
    ap.add_argument("--replay")
    a = ap.parse_args()
    if a.replay:
        sys.exit(replay(a.replay))
    import tempfile
    common.EVIDENCE = Path(tempfile.mkdtemp(prefix="c03opt-evidence-"))   # do not overwrite evidence/C03.json
    rep = Report("C03", a.tier, level="proof")
    cov = run_opt_tie(rep, a.tier)
    rep.coverage["optimizer_tie"] = cov
    print(json.dumps({k: v for k, v in cov.items() if k != "samples"}, indent=1))
    sys.exit(rep.finish())
