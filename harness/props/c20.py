"""C20 — compilation is total: TEAL or a PyTeal error, never a crash; well-typed programs that
fit the target are accepted whatever their shape.

Deciding method: (1) Lean: the code-generation model is a total function with explicit error
results (structural recursion, no partiality); its outcome class is compared with the real
compiler's on every explored program (correspondence) [theorem `genMain_total`, when present];
(2) exhaustive enumeration of small control skeletons (loop first, bodies that are only
Break/Continue, empty sequences, identical arms, nested loops) x versions x modes x options,
random well-typed programs, long straight-line and deeply nested programs: the real compiler's
outcome must be TEAL when the program fits the target, a PyTeal error otherwise, never another
exception.
"""
from __future__ import annotations

import itertools
import os
import sys
import time
from collections import Counter

from common import LEAN, Driver, Report, check_proofs, proof_coverage, rng
from gen import Cfg, G, rejected_by_design, required_version
from recipes import B, N, U, Program, Sub, Var, compile_real, pack, to_sexp, unpack

PROOF_MODULES = ["PyTealV.Proofs.C20"]
TRUSTED = [
    "Lean 4 kernel; axioms propext, Classical.choice, Quot.sound only",
    "prediction of acceptability: harness/gen.py required_version over the operator table of harness/recipes.py "
    "(minimum versions cross-checked against pyteal.Op by C04's regenerated table theorem)",
]
OWN = ("TealInputError", "TealCompileError", "TealTypeError", "TealInternalError", "TealPragmaError")


def existing(mods):
    return [m for m in mods if (LEAN / (m.replace(".", "/") + ".lean")).exists()]


# ----------------------------------------------------------------------------- skeletons

def skeletons(n, in_loop):
    """all statement skeletons with exactly n control nodes; leaves: pop ('P'), empty Seq ('E')"""
    if n == 0:
        yield ("P",)
        yield ("E",)
        if in_loop:
            yield ("B",)
            yield ("C",)
        return
    for k in range(n):
        # unary wrappers consume one node
        pass
    for body in skeletons(n - 1, True):
        yield ("W", body)
        yield ("F", body)
    for t in skeletons(n - 1, in_loop):
        yield ("I", t)
        yield ("A", t)          # Cond with one arm
    for a in range(n):
        for t in skeletons(a, in_loop):
            for e in skeletons(n - 1 - a, in_loop):
                yield ("IE", t, e)
                yield ("S", t, e)


def count_nodes(sk):
    return (0 if sk[0] in ("P", "E", "B", "C") else 1) + sum(count_nodes(x) for x in sk[1:])


def build_skel(sk, counter, c_expr):
    t = sk[0]
    if t == "P":
        return ("op", "PopU", [("int", 7)])
    if t == "E":
        return ("seq", [])
    if t == "B":
        return ("break",)
    if t == "C":
        return ("continue",)
    if t == "W":
        return ("while", c_expr, build_skel(sk[1], counter, c_expr))
    if t == "F":
        return ("for", ("store", counter, ("int", 0)), ("op", "Lt", [("load", counter), ("int", 2)]),
                ("store", counter, ("op", "Add2", [("load", counter), ("int", 1)])), build_skel(sk[1], counter, c_expr))
    if t == "I":
        return ("if", c_expr, build_skel(sk[1], counter, c_expr), None)
    if t == "A":
        return ("cond", [(c_expr, build_skel(sk[1], counter, c_expr))])
    if t == "IE":
        return ("if", c_expr, build_skel(sk[1], counter, c_expr), build_skel(sk[2], counter, c_expr))
    if t == "S":
        return ("seq", [build_skel(sk[1], counter, c_expr), build_skel(sk[2], counter, c_expr)])
    raise ValueError(t)


def skeleton_programs(maxn):
    for n in range(0, maxn + 1):
        for sk in skeletons(n, False):
            for placement in ("first", "middle", "sub-first"):
                counter = Var(U)
                c = ("txn", "Fee")
                body = build_skel(sk, counter, c)
                if placement == "first":
                    main = ("seq", [body, ("approve",)])
                    yield sk, placement, Program("app", main, [counter])
                elif placement == "middle":
                    main = ("seq", [("op", "PopU", [("int", 1)]), body, ("op", "PopU", [("int", 2)]), ("approve",)])
                    yield sk, placement, Program("app", main, [counter])
                else:
                    s = Sub(0, "shape", [], N, ("seq", [body]))
                    main = ("seq", [("call", s, []), ("approve",)])
                    yield sk, placement, Program("app", main, [counter], [s])


def loop_header_programs():
    """Break / Continue / Return in every position of a loop HEADER (For: init, condition, step; While: condition) and body.
    The compiler may refuse such programs with one of its own errors; it must not die."""
    import itertools
    kinds = ["pop", "break", "continue", "ret"]

    def st(k):
        return {"pop": ("op", "PopU", [("int", 1)]), "break": ("break",), "continue": ("continue",), "ret": ("ret", ("int", 1))}[k]

    def cond(k):
        return ("int", 1) if k == "pop" else ("seq", [st(k), ("int", 1)])
    for a, b, c, dd in itertools.product(kinds, repeat=4):
        yield f"for/{a}/{b}/{c}/{dd}", Program("app", ("seq", [("for", st(a), cond(b), st(c), st(dd)), ("approve",)]), [])
    for b, dd in itertools.product(kinds, repeat=2):
        yield f"while/{b}/{dd}", Program("app", ("seq", [("while", cond(b), st(dd)), ("approve",)]), [])
    # the same inside an outer loop (the inner header's Continue belongs to the inner loop)
    for b, c in itertools.product(kinds, repeat=2):
        inner = ("for", st("pop"), cond(b), st(c), st("pop"))
        yield f"nested/{b}/{c}", Program("app", ("seq", [("while", ("txn", "Fee"), ("seq", [inner, ("break",)])), ("approve",)]), [])


def slot_limit_programs():
    """programs at the edge of the 256-slot limit: n automatic variables next to requested ids (low, high, adjacent).
    (name, program, fits): a program that fits must be accepted, one that does not must be refused with PyTeal's own error."""
    out = []
    for req, nauto in [((), 255), ((), 256), ((), 257), ((0,), 254), ((0,), 255), ((0,), 256), ((255,), 255), ((0, 1), 253), ((0, 1), 254),
                       ((0, 1), 255), ((5, 6, 7), 253), ((3, 200), 254), ((0, 255), 254), ((100,), 255), ((1,), 255)]:
        vs = [Var(U, k) for k in req] + [Var(U) for _ in range(nauto)]
        body = [("store", v, ("int", i % 7)) for i, v in enumerate(vs)] + [("ret", ("op", "EqU", [("load", vs[0]), ("int", 0)]))]
        out.append((f"slots/req={list(req)}/auto={nauto}", Program("app", ("seq", body), vs), len(req) + nauto <= 256))
    return out


def option_sets(version, has_sub):
    outs = [{}]
    outs.append({"scratch_slots": True})
    outs.append({"scratch_slots": False})
    if version >= 8 and has_sub:
        outs.append({"frame_pointers": False})
        outs.append({"frame_pointers": True, "scratch_slots": True})
    return outs


def classify(res):
    if res[0] == "ok":
        return "ok"
    if res[0] == "timeout":
        return "timeout"
    if res[0] == "err" and res[1] in OWN:
        return "err"
    return "crash"


def constants_case(k: int):
    """program k of the constants stream -> (statements, version, mode)"""
    import pyteal as _pt
    rc = rng(f"c20-const-{k}")
    v = rc.choice([3, 4, 5, 6, 8, 10])
    mode_c = rc.choice(["app", "sig"]) if v < 6 else "app"
    ints = [lambda n=n: _pt.Int(n) for n in rc.sample([0, 1, 2, 3, 5, 100, 127, 128, 255, 256, 1000, 2000, 3000, 4000, 70000, 2 ** 32, 2 ** 64 - 1], rc.randrange(2, 9))]
    ints += [lambda: _pt.Tmpl.Int("TMPL_LIMIT"), lambda: _pt.Tmpl.Int("TMPL_OTHER")][: rc.randrange(0, 3)]
    byts = [lambda s_=s_: _pt.Bytes(s_) for s_ in rc.sample(["", "a", "b", "key", "k0", "k1", "k2", "longer constant"], rc.randrange(1, 7))]
    byts += [lambda: _pt.Tmpl.Bytes("TMPL_KEY"), lambda: _pt.Tmpl.Addr("TMPL_ADDR"),
             lambda: _pt.Addr("AAAAAAAAAAAAAAAAAAAAAAAAAAAAAAAAAAAAAAAAAAAAAAAAAAAAY5HFKQ")][: rc.randrange(0, 4)]
    if v >= 4 and mode_c == "app":
        byts.append(lambda: _pt.MethodSignature("f(uint64)void"))
    stmts = []
    for mk in ints:
        stmts += [_pt.Pop(mk() + _pt.Int(9)) for _ in range(rc.choice([1, 2, 2, 3, 4]))]
    for mk in byts:
        stmts += [_pt.Pop(_pt.Len(mk())) for _ in range(rc.choice([1, 2, 2, 3]))]
    rc.shuffle(stmts)
    return stmts, v, mode_c


def run(tier: str) -> int:
    rep = Report("C20", tier, level="exploration")
    mods = existing(PROOF_MODULES)
    st = check_proofs(mods) if mods else None
    r = rng("c20")
    d = Driver()
    stats = Counter()
    samples, distinct = [], set()
    evaluations = 0
    t_budget = 110 if tier == "quick" else 2400
    t_work0 = time.time()      # budgets count from here: the proof stage before depends on machine load

    shared_objs: dict = {}

    def judge(prog, version, opts, expect_ok, what, extra=None, key_on_crash=None, shared=False):
        """shared: the compilation receives the ONE OptimizeOptions object this run keeps per setting (a module-level `OPTS = ...`)"""
        nonlocal evaluations
        if shared:
            import pyteal as _pt
            key = tuple(sorted(opts.items()))
            if key not in shared_objs:
                shared_objs[key] = _pt.OptimizeOptions(**opts)
            res = compile_real(prog, version, options_obj=shared_objs[key])
            stats["compiled with a shared options object"] += 1
            extra = dict(extra or {}, shared_options_object=True)
        else:
            res = compile_real(prog, version, **opts)
        evaluations += 1
        cls = classify(res)
        stats[f"{what}:{cls}"] += 1
        if cls == "ok":
            distinct.add(res[1])
        if cls == "crash":
            rep.violation(f"{what}: compiler died with {res[1]}: {res[2][:200]} (v{version} {opts})",
                          dict({"recipe": to_sexp(prog), "program_pickle": pack(prog), "version": version, "mode": prog.mode, "options": opts, "result": list(res)}, **(extra or {})),
                          key=key_on_crash)
        elif cls == "err" and expect_ok:
            rep.violation(f"{what}: well-typed program that fits the target was rejected: {res[1]}: {res[2][:200]} (v{version} {opts})",
                          dict({"recipe": to_sexp(prog), "program_pickle": pack(prog), "version": version, "mode": prog.mode, "options": opts, "result": list(res)}, **(extra or {})))
        return res, cls

    # ---- (a) exhaustive control skeletons
    # sizes: 6 / 60 / 888 / 17 040 / 384 288 skeleton programs with 0..4 control nodes.  quick: exhaustive up to 2 nodes and a
    # seeded 12 % sample of the 3-node ones; thorough: exhaustive up to 3 nodes and a seeded 2 % sample of the 4-node ones, the
    # sample cut off by the time budget (a cut is recorded in the evidence)
    maxn = 3 if tier == "quick" else 4
    versions = [2, 4, 8, 9, 10] if tier == "quick" else [2, 3, 4, 5, 6, 7, 8, 9, 10]
    nsk = 0
    sk_budget = 10 ** 9 if tier == "quick" else 1500
    for sk, placement, prog in skeleton_programs(maxn):
        if tier == "quick" and count_nodes(sk) >= 3 and r.random() > 0.12:
            continue
        if count_nodes(sk) >= 4:
            if r.random() > 0.02:
                continue
            if time.time() - t_work0 > sk_budget:
                stats["skeletons:4-node sample cut by time budget"] += 1
                continue
        nsk += 1
        has_sub = bool(prog.subs)
        need = 4 if has_sub else 2
        small = count_nodes(sk) <= 2
        vs = versions if (tier == "thorough" and small) else r.sample(versions, 1 if tier == "quick" else 2)
        for v in vs:
            for opts in (option_sets(v, has_sub) if (tier == "thorough" and small) else r.sample(option_sets(v, has_sub), 1)):
                expect = v >= need
                judge(prog, v, opts, expect, "skeleton", {"skeleton": repr(sk), "placement": placement})
        if len(samples) < 3 and nsk % 97 == 1:
            samples.append({"skeleton": repr(sk), "placement": placement})
    stats["skeletons"] = nsk
    for name, prog, fits in slot_limit_programs():
        for v, o in ([(6, {"scratch_slots": False}), (10, {})] if tier == "quick" else [(2, {}), (6, {"scratch_slots": False}), (8, {}), (10, {})]):
            res, cls = judge(prog, v, o, fits, "slot-limit", {"case": name})
            if cls == "ok" and not fits:
                rep.violation(f"slot-limit: a program needing more than 256 slots was accepted ({name}, v{v})",
                              {"case": name, "version": v, "options": o, "program_pickle": pack(prog)})
    for name, prog in loop_header_programs():
        for v in ([2, 6, 9] if tier == "quick" else versions):
            judge(prog, v, {}, False, "loop-header", {"case": name})

    # ---- (a') programs whose slots the optimiser must leave alone (a reserved slot, a slot shared by two routines, each stored and
    # loaded back to back), compiled one after the other with ONE options object per setting
    for k in range(6 if tier == "quick" else 40):
        a_, g_ = Var(U, r.choice([3, 7, 100, 255])), Var(U)
        f_ = Sub(0, "reader", [], U, None)
        f_.body = ("op", "Add2", [("load", g_), ("int", 1 + k)])
        main_ = ("seq", [("store", a_, ("int", 10 + k)), ("op", "PopU", [("load", a_)]), ("store", g_, ("txn", "Fee")),
                         ("op", "PopU", [("load", g_)]), ("op", "PopU", [("call", f_, [])]), ("approve",)])
        for v, o in ((6, {"scratch_slots": True}), (9, {}), (10, {"scratch_slots": True, "frame_pointers": True})):
            judge(Program("app", main_, [a_, g_], [f_]), v, o, True, "protected-slots", {"case": k}, shared=True)

    # ---- (a'') constants of every kind with random multiplicities (plain, template, address, method selector; small and large ints),
    # compiled with assembleConstants=True: the constant-block pass ranks them by frequency and must answer for every ranking
    import pyteal as _pt
    nconst = 40 if tier == "quick" else 600
    for k in range(nconst):
        stmts, v, mode_c = constants_case(k)
        evaluations += 1
        try:
            t_ = _pt.compileTeal(_pt.Seq(*stmts, _pt.Int(1)), _pt.Mode.Application if mode_c == "app" else _pt.Mode.Signature, version=v,
                                 assembleConstants=True)
            stats["constants:ok"] += 1
            distinct.add(t_)
        except (_pt.TealInputError, _pt.TealCompileError, _pt.TealTypeError, _pt.TealInternalError, _pt.TealPragmaError) as e:
            stats["constants:err"] += 1
            rep.violation(f"constants: a program of constants that fits the target was rejected with assembleConstants=True: {type(e).__name__}: {str(e)[:200]} (v{v})",
                          {"kind": "constants", "index": k, "version": v, "mode": mode_c})
        except Exception as e:  # noqa: BLE001
            stats["constants:crash"] += 1
            rep.violation(f"constants: compiler died with {type(e).__name__}: {str(e)[:200]} (assembleConstants=True, v{v})",
                          {"kind": "constants", "index": k, "version": v, "mode": mode_c})

    # ---- (a3) a routine first compiled inside Router.compile_program (which rewinds the slot-id counter afterwards while the routine
    # keeps its slots), then used by an ordinary program next to k freshly created variables: distinct variables may then carry EQUAL
    # automatic ids; the program is well typed, small, and must be accepted
    for v in ((6, 8) if tier == "quick" else (6, 7, 8, 10)):
        for k in range(1, 10):
            evaluations += 1
            try:
                hv = _pt.ScratchVar(_pt.TealType.uint64)

                def _helper(x):
                    return _pt.Seq(hv.store(x + _pt.Int(1)), hv.load())
                helper = _pt.Subroutine(_pt.TealType.uint64, name="helper")(_helper)
                router = _pt.Router("c20", _pt.BareCallActions(no_op=_pt.OnCompleteAction.create_only(_pt.Approve())))

                def _m(a, *, output):
                    return output.set(helper(a.get()))
                _m.__annotations__ = {"a": _pt.abi.Uint64, "output": _pt.abi.Uint64, "return": _pt.Expr}
                _m.__name__ = "m"
                router.add_method_handler(_pt.ABIReturnSubroutine(_m))
                router.compile_program(version=v)
                vs_ = [_pt.ScratchVar(_pt.TealType.uint64) for _ in range(k)]
                prog_ = _pt.Seq(*[x.store(_pt.Int(i)) for i, x in enumerate(vs_)], _pt.Pop(helper(_pt.Int(3))),
                                *[_pt.Pop(x.load()) for x in vs_], _pt.Pop(helper(vs_[-1].load())), _pt.Approve())
                t_ = _pt.compileTeal(prog_, _pt.Mode.Application, version=v)
                stats["after-router:ok"] += 1
                distinct.add(t_)
            except (_pt.TealInputError, _pt.TealCompileError, _pt.TealTypeError, _pt.TealInternalError, _pt.TealPragmaError) as e:
                stats["after-router:err"] += 1
                rep.violation(f"after-router: a well-typed program with {k + 1} variables that calls a routine first compiled inside a Router was rejected: "
                              f"{type(e).__name__}: {str(e)[:200]} (v{v})", {"kind": "after-router", "k": k, "version": v})
            except Exception as e:  # noqa: BLE001
                stats["after-router:crash"] += 1
                rep.violation(f"after-router: compiler died with {type(e).__name__}: {str(e)[:200]} (v{v}, k={k})", {"kind": "after-router", "k": k, "version": v})

    # ---- (a4) programs that READ a variable on a path that never wrote it (the compiler's own check refuses them): the refusal must be one
    # of PyTeal's error types whatever the control shape between the missing store and the load
    def rbw_programs():
        U_ = _pt.TealType.uint64
        c_ = lambda: _pt.Txn.fee() > _pt.Int(5)      # noqa: E731
        def one_arm():
            x = _pt.ScratchVar(U_)
            return _pt.Seq(_pt.If(c_()).Then(x.store(_pt.Int(1))), _pt.Return(x.load()))
        def two_vars():
            x, y = _pt.ScratchVar(U_), _pt.ScratchVar(U_)
            return _pt.Seq(_pt.If(c_()).Then(x.store(_pt.Int(1))).Else(y.store(_pt.Int(2))), _pt.Return(x.load() + y.load()))
        def in_while():
            x = _pt.ScratchVar(U_)
            return _pt.Seq(_pt.While(c_()).Do(_pt.Seq(_pt.Pop(x.load()), x.store(_pt.Int(1)))), _pt.Int(1))
        def after_loop():
            x = _pt.ScratchVar(U_)
            return _pt.Seq(_pt.While(c_()).Do(x.store(_pt.Int(1))), _pt.Return(x.load()))
        def cond_arms():
            x = _pt.ScratchVar(U_)
            return _pt.Seq(_pt.Cond([c_(), x.store(_pt.Int(1))], [_pt.Int(1), _pt.Pop(_pt.Int(2))]), _pt.Return(x.load()))
        def in_sub():
            x = _pt.ScratchVar(U_)
            f = _pt.Subroutine(U_)(lambda: _pt.Seq(_pt.If(c_()).Then(x.store(_pt.Int(1))), x.load()))
            return _pt.Return(f())
        def straight():
            x = _pt.ScratchVar(U_)
            return _pt.Return(x.load())
        def several():
            xs = [_pt.ScratchVar(U_) for _ in range(3)]
            return _pt.Seq(_pt.If(c_()).Then(xs[0].store(_pt.Int(1))), _pt.If(c_()).Then(xs[1].store(_pt.Int(1))),
                           _pt.Return(xs[0].load() + xs[1].load() + xs[2].load()))
        return [one_arm, two_vars, in_while, after_loop, cond_arms, in_sub, straight, several]
    for mk in rbw_programs():
        for v in ((6, 10) if tier == "quick" else (4, 6, 8, 9, 10)):
            for okw in ({}, {"optimize": _pt.OptimizeOptions(scratch_slots=True)}):
                evaluations += 1
                try:
                    _pt.compileTeal(mk(), _pt.Mode.Application, version=v, **okw)
                    stats["read-before-write:accepted"] += 1      # (whether it must be refused is C17's subject)
                except (_pt.TealInputError, _pt.TealCompileError, _pt.TealTypeError, _pt.TealInternalError, _pt.TealPragmaError):
                    stats["read-before-write:refused with a PyTeal error"] += 1
                except Exception as e:  # noqa: BLE001
                    stats["read-before-write:crash"] += 1
                    rep.violation(f"read-before-write program `{mk.__name__}`: compiler died with {type(e).__name__}: {str(e)[:200]} (v{v} {'optimiser on' if okw else ''})",
                                  {"kind": "read-before-write", "program": mk.__name__, "version": v, "optimiser": bool(okw)})

    # ---- (b) random well-typed programs, model outcome class vs real outcome class
    nrand = 260 if tier == "quick" else 4000
    for i in range(nrand):
        if i >= 60 and time.time() - t_work0 > t_budget:
            rep.notes.append(f"time budget reached after {i} random programs")
            break
        mode = r.choice(["app", "sig"])
        gv = r.choice([2, 3, 4, 5, 6, 7, 8, 9, 10])
        nsubs = r.choice([0, 0, 0, 1, 2])
        g = G(r, Cfg(mode=mode, version=gv, subs=nsubs if gv >= 4 else 0, recursive=r.random() < 0.3, call_bias=0.1, byref=False,
                     max_depth=r.choice([2, 3, 4]), max_stmts=r.choice([2, 4, 8])))
        p = g.program()
        need = max([required_version(p.main)] + [required_version(s.body) for s in p.subs] + ([4] if p.subs else []))
        v = r.choice([2, 3, 4, 5, 6, 7, 8, 9, 10])
        opts = r.choice(option_sets(v, bool(p.subs)))
        design = rejected_by_design(p.main) or any(rejected_by_design(s.body) for s in p.subs)
        res, cls = judge(p, v, opts, v >= need and not design, "random", shared=r.random() < 0.3)
        if not p.subs and cls in ("ok", "err"):
            # correspondence of outcome classes with the Lean model of code generation
            a = d.ask(f"prog pm {to_sexp(p)}")
            m = d.ask(f"genclass pm {v}") if a == "ok" else "perr"
            stats["model:" + m.split(" ")[0]] += 1
            if m.split(" ")[0] in ("ok", "err") and m.split(" ")[0] != cls and not (cls == "err" and v < need):
                rep.violation(f"outcome class differs: model {m[:120]} vs real {cls} {res[1:2]}",
                              {"recipe": to_sexp(p), "version": v, "mode": mode, "options": opts, "model": m, "real": list(res)[:3],
                               "correspondence": "Comp.genMain outcome class vs compileTeal"}, no_input=True)

    # ---- (c) long and deep programs
    sys.setrecursionlimit(max(sys.getrecursionlimit(), 1000))
    lengths = [10, 100, 300, 480, 520, 1000] if tier == "quick" else [10, 100, 200, 300, 400, 450, 480, 500, 520, 700, 1000, 2000, 5000]
    for n in lengths:
        prog = Program("app", ("seq", [("op", "PopU", [("int", k % 7)]) for k in range(n)] + [("approve",)]))
        judge(prog, 6, {}, True, "long", {"statements": n}, key_on_crash="C20-recursion-limit" if n >= 200 else None)
    depths = [10, 50, 150, 400] if tier == "quick" else [10, 50, 100, 150, 200, 300, 400, 800]
    for dpt in depths:
        e = ("op", "PopU", [("int", 1)])
        for _ in range(dpt):
            e = ("if", ("txn", "Fee"), e, None)
        prog = Program("app", ("seq", [e, ("approve",)]))
        judge(prog, 6, {}, True, "deep", {"depth": dpt}, key_on_crash="C20-recursion-limit" if dpt >= 100 else None)
    d.close()

    if st is not None and not st.ok:
        rep.violation("proof obligations no longer check: " + "; ".join(st.problems)[:600],
                      {"theorems": mods, "problems": st.problems, "log": st.log[-3000:]}, no_input=True)
    cov = {
        "evaluations": evaluations,
        "distinct_nontrivial": len(distinct),
        "rule": f"(a) ALL control skeletons with <= {maxn} control nodes over While/For/If/If-Else/Cond/Seq with leaves Pop/empty Seq/Break/Continue "
                "(Break/Continue only inside loops), each placed as first statement, in the middle, and as the first statement of a subroutine, "
                "x versions x option sets; (b) random well-typed programs with predicted acceptability; (c) straight-line programs of "
                "10..5000 statements and If-nests of depth 10..800; distinct = distinct emitted TEAL texts",
        "exhaustive": True,
        "samples": samples or [{"note": "none"}],
        "distribution": dict(sorted(stats.items())),
    }
    if st is not None:
        cov.update(proof_coverage(st, "cd lean && lake build " + " ".join(mods), TRUSTED))
    rep.coverage.update(cov)
    rep.assumptions += TRUSTED + ["compile time is not part of the property: a compilation exceeding the harness timeout is counted, not alarmed on"]
    return rep.finish()


def replay(path: str) -> int:
    import json
    body = json.loads(open(path).read())
    print(json.dumps({k: body[k] for k in body if k != "recipe"}, indent=1)[:3000])
    print("recipe:", body.get("recipe", "")[:3000])
    if body.get("kind") == "constants":
        import pyteal as _pt
        os.environ["VERIF_SEED"] = str(body.get("seed", 0))
        stmts, v, mode_c = constants_case(body["index"])
        try:
            t_ = _pt.compileTeal(_pt.Seq(*stmts, _pt.Int(1)), _pt.Mode.Application if mode_c == "app" else _pt.Mode.Signature, version=v, assembleConstants=True)
            print("compiles now:", len(t_.splitlines()), "lines")
        except Exception as e:  # noqa: BLE001
            print("still fails:", type(e).__name__, str(e)[:300])
    if "program_pickle" in body:
        res = compile_real(unpack(body["program_pickle"]), body["version"], **body.get("options", {}))
        print("recompiled with the current /repo:", res[0], res[1:] if res[0] != "ok" else f"{len(res[1].splitlines())} lines")
        if body.get("shared_options_object"):
            # the recorded compilation received an OptimizeOptions object that earlier compilations had been given: compile a program
            # with protected slots first, then this one, with one object
            import pyteal as _pt
            o = _pt.OptimizeOptions(**body.get("options", {}))
            a_, g_ = Var(U, 7), Var(U)
            f_ = Sub(0, "reader", [], U, None)
            f_.body = ("op", "Add2", [("load", g_), ("int", 1)])
            first = Program("app", ("seq", [("store", a_, ("int", 10)), ("op", "PopU", [("load", a_)]), ("store", g_, ("txn", "Fee")),
                                            ("op", "PopU", [("load", g_)]), ("op", "PopU", [("call", f_, [])]), ("approve",)]), [a_, g_], [f_])
            compile_real(first, body["version"], options_obj=o)
            res = compile_real(unpack(body["program_pickle"]), body["version"], options_obj=o)
            print("recompiled after another program with ONE options object:", res[0], res[1:] if res[0] != "ok" else f"{len(res[1].splitlines())} lines")
    return 0
