"""C10 - every variable is its own storage cell; slot limits are enforced.

proof          lean/PyTealV/Proofs/C10.lean on the model lean/PyTealV/Models/Slots.lean
correspondence random slot-reference layouts through the REAL assignScratchSlotsToSubroutines /
               collectScratchSlots / collect_unoptimized_slots / alloc_abstract_var and through the
               Lean model (driver commands c10-assign, c10-collect, c10-alloc)
oracle         (a) the property checked directly on what the real function returned for every layout
               (b) marker programs built through the public API, compiled by the real compileTeal
                   and executed by the Lean AVM; programs over the limits must be rejected
"""
from __future__ import annotations

import json
import sys
import time

from common import REPO, Driver, Report, check_proofs, hexs, proof_coverage, rng, seed

sys.path.insert(0, str(REPO))
import pyteal as pt  # noqa: E402  (the real code under $VERIF_REPO, default /repo)
from pyteal.ast.abstractvar import alloc_abstract_var  # noqa: E402
from pyteal.ast.frame import FrameVar, Proto, ProtoStackLayout  # noqa: E402
from pyteal.ast.subroutine import SubroutineEval  # noqa: E402
from pyteal.compiler.scratchslots import (  # noqa: E402
    assignScratchSlotsToSubroutines,
    collect_unoptimized_slots,
    collectScratchSlots,
)

import recipes  # noqa: E402

sys.setrecursionlimit(20000)  # 300-variable marker programs are ~1500 statements deep in the compiler (C20's subject, not ours)

TRUSTED = [
    "Lean 4 kernel + axioms propext/Classical.choice/Quot.sound",
    "model Models/Slots.lean mirrors scratchslots.py (tied to the code by the layout correspondence below)",
    "Lean AVM (Avm/Sem.lean) as the meaning of the emitted TEAL for the marker programs",
    "ScratchSlot objects are compared by identity (no __eq__/__hash__ override); checked at run time",
]

KIND_OP = {"l": pt.Op.load, "s": pt.Op.store, "i": pt.Op.int, "o": pt.Op.pop}

# ------------------------------------------------------------------------------------------------
# layouts: JSON-able description of a dict of block graphs
#   {"slots": [[id, reserved]...], "routines": [{"key": None|int, "blocks": [[ [kind, [arg...]] ...] ...]}]}
#   arg = ["S", obj] | ["N", n]
# ------------------------------------------------------------------------------------------------


def gen_layout(r) -> dict:
    c = r.random()
    if c < 0.35:
        n = r.randrange(1, 13)
    elif c < 0.55:
        n = r.randrange(13, 250)
    elif c < 0.90:
        n = r.randrange(250, 263)
    else:
        n = r.randrange(263, 301)
    nsub = r.choice([0, 1, 1, 2, 3, 4, 5])
    scheme = r.choice(["normal"] * 14 + ["reset0"] * 3 + ["ties"] * 3)
    p_auto = r.choice([0.0, 0.3, 0.5, 0.8, 0.9, 1.0])
    want_dup = r.random() < 0.18
    want_bad_load = r.random() < 0.10
    want_two_args = r.random() < 0.04
    free_ids = list(range(256))
    r.shuffle(free_ids)
    next_auto = r.choice([256, 256, 256, 257, 1000, 2 ** 20]) if scheme != "reset0" else 0
    slots = []
    for _ in range(n):
        if r.random() < p_auto or not free_ids:
            if scheme == "ties" and slots and r.random() < 0.3:
                autos = [s for s in slots if not s[1]]
                if autos:
                    slots.append([r.choice(autos)[0], False])
                    continue
            slots.append([next_auto, False])
            next_auto += r.choice([1, 1, 1, 1, 2, 7])
        else:
            slots.append([free_ids.pop(), True])
    if want_dup:
        req = [i for i, s in enumerate(slots) if s[1]]
        for _ in range(r.choice([1, 1, 2])):
            if req:
                victim = r.randrange(len(slots))
                slots[victim] = [slots[r.choice(req)][0], True]
                req = [i for i, s in enumerate(slots) if s[1]]
    nr = nsub + 1
    per_routine = [[] for _ in range(nr)]  # list of per-slot op sequences
    p_shared = r.choice([0.0, 0.05, 0.2, 0.5])
    for obj in range(n):
        if nr > 1 and r.random() < p_shared:
            where = r.sample(range(nr), r.randrange(2, nr + 1))
        else:
            where = [r.randrange(nr)]
        for w in where:
            pat = r.choice([["s", "l"], ["s", "l"], ["s", "l", "l"], ["s", "i", "l"], ["s"], ["i"], ["s", "l", "s", "l"], ["i", "s", "l"]])
            if len(where) > 1 and r.random() < 0.3:
                pat = r.choice([["l"], ["l", "s"], ["s"], ["i"]])  # global slots may be loaded before any store
            per_routine[w].append([[k, [["S", obj]]] for k in pat])
    if want_bad_load:
        w = r.randrange(nr)
        if per_routine[w]:
            seq = r.choice(per_routine[w])
            seq.insert(0, ["l", [seq[0][1][0]]])
    routines = []
    keys = [None] + list(range(nsub))
    order = list(range(nr))
    r.shuffle(order)  # main is not necessarily the first dict entry
    for w in order:
        seqs = [list(s) for s in per_routine[w]]
        ops = []
        while seqs:
            i = r.randrange(len(seqs)) if r.random() < 0.7 else 0
            ops.append(seqs[i].pop(0))
            if not seqs[i]:
                seqs.pop(i)
            if r.random() < 0.08:
                ops.append(r.choice([["o", []], ["i", [["N", r.randrange(300)]]]]))
        if want_two_args and ops:
            a, b = r.randrange(n), r.randrange(n)
            ops.append(["s", [["S", a], ["S", b]]])
            ops.append(["l", [["S", b], ["N", 3], ["S", a]]])
        nb = r.choice([1, 1, 2, 3])
        cuts = sorted(r.randrange(len(ops) + 1) for _ in range(nb - 1))
        blocks, prev = [], 0
        for cpos in cuts + [len(ops)]:
            blocks.append(ops[prev:cpos])
            prev = cpos
        routines.append({"key": keys[w], "blocks": blocks})
    return {"slots": slots, "routines": routines}


def _impl():
    return None


class RealLayout:
    """the layout as real objects"""

    def __init__(self, lay: dict):
        saved = pt.ScratchSlot.nextSlotId
        try:
            self.slots = []
            for sid, res in lay["slots"]:
                if res:
                    s = pt.ScratchSlot(sid)
                else:
                    pt.ScratchSlot.reset_slot_numbering(sid)
                    s = pt.ScratchSlot()
                assert s.id == sid and s.isReservedSlot == res
                self.slots.append(s)
        finally:
            pt.ScratchSlot.reset_slot_numbering(saved)
        self.index = {id(s): i for i, s in enumerate(self.slots)}
        self.blocks = {}
        self.keys = []
        self.all_blocks = []
        for rt in lay["routines"]:
            key = None if rt["key"] is None else pt.SubroutineDefinition(_impl, pt.TealType.none)
            chain = []
            for b in rt["blocks"]:
                ops = []
                for kind, args in b:
                    ops.append(pt.TealOp(None, KIND_OP[kind], *[self.slots[a[1]] if a[0] == "S" else a[1] for a in args]))
                chain.append(pt.TealSimpleBlock(ops))
            for x, y in zip(chain, chain[1:]):
                x.setNextBlock(y)
            self.blocks[key] = chain[0]
            self.keys.append(key)
            self.all_blocks.append(chain)

    def obj(self, s) -> int:
        return self.index[id(s)]


def classify_error(e: Exception) -> str:
    m = str(e)
    if isinstance(e, pt.TealInternalError):
        if "has been assigned multiple times" in m:
            return "err dup"
        if "Too many slots in use" in m:
            return "err toomany " + m.split("in use: ")[1].split(",")[0]
        if "when assigning slots to subroutine" in m:
            return "err validate"
    return f"exc {type(e).__name__}: {m[:120]}"


def show_key(k):
    return "m" if k is None else str(k)


def encode_layout(lay: dict) -> str:
    words = []
    for rt in lay["routines"]:
        ops = []
        for b in rt["blocks"]:
            for kind, args in b:
                parts = [kind]
                for a in args:
                    if a[0] == "S":
                        sid, res = lay["slots"][a[1]]
                        parts.append(f"S{a[1]}.{sid}.{1 if res else 0}")
                    else:
                        parts.append(f"N{a[1]}")
                ops.append(",".join(parts))
        words.append(show_key(rt["key"]) + "=" + ";".join(ops))
    return " ".join(words)


def real_collect(lay: dict) -> str:
    R = RealLayout(lay)
    g, loc = collectScratchSlots(R.blocks)
    un = collect_unoptimized_slots(R.blocks)
    dots = lambda xs: ".".join(str(x) for x in sorted(xs))  # noqa: E731
    return ("global=" + dots(R.obj(s) for s in g) + " locals=" +
            "|".join(show_key(rt["key"]) + ":" + dots(R.obj(s) for s in loc[k]) for rt, k in zip(lay["routines"], R.keys)) +
            " unopt=" + dots(R.obj(s) for s in un))


def real_assign(lay: dict):
    """returns (answer string in the c10-assign format, details dict or None)"""
    R = RealLayout(lay)
    try:
        ret = assignScratchSlotsToSubroutines(R.blocks)
    except Exception as e:  # noqa: BLE001
        return classify_error(e), None
    asg = {}
    incoherent = []
    words = []
    for rt, chain in zip(lay["routines"], R.all_blocks):
        ops = []
        for b, blk in zip(rt["blocks"], chain):
            for (kind, args), op in zip(b, blk.ops):
                parts = [kind]
                for a, real in zip(args, op.args):
                    if not isinstance(real, int) or isinstance(real, bool):
                        incoherent.append(f"argument not rewritten: {real!r}")
                        parts.append("?")
                        continue
                    parts.append(f"N{real}")
                    if a[0] == "S":
                        if asg.setdefault(a[1], real) != real:
                            incoherent.append(f"slot object {a[1]} rewritten to {asg[a[1]]} and {real}")
                ops.append(",".join(parts))
        words.append(show_key(rt["key"]) + "=" + ";".join(ops))
    if list(ret.keys()) != R.keys:
        incoherent.append("returned dict keys differ from subroutineBlocks keys")
    locs = "|".join(show_key(rt["key"]) + ":" + ".".join(str(x) for x in sorted(ret.get(k, ()))) for rt, k in zip(lay["routines"], R.keys))
    ans = "ok asg=" + ",".join(f"{o}:{n}" for o, n in sorted(asg.items())) + " locals=" + locs + " prog=" + " ".join(words)
    return ans, {"asg": asg, "locals": {show_key(rt["key"]): set(ret.get(k, ())) for rt, k in zip(lay["routines"], R.keys)}, "incoherent": incoherent}


def layout_facts(lay: dict) -> dict:
    """the property's own vocabulary, computed directly from the layout (independent of model and code)"""
    refs = {}  # obj -> set of routine positions
    for pos, rt in enumerate(lay["routines"]):
        for b in rt["blocks"]:
            for _k, args in b:
                for a in args:
                    if a[0] == "S":
                        refs.setdefault(a[1], set()).add(pos)
    used = sorted(refs)
    req = [lay["slots"][o][0] for o in used if lay["slots"][o][1]]
    glob = {o for o in used if len(refs[o]) > 1}
    bad_load = False
    for rt in lay["routines"]:
        stored = set(glob)
        for b in rt["blocks"]:
            for k, args in b:
                ss = [a[1] for a in args if a[0] == "S"]
                if k == "s":
                    stored.update(ss)
                if k == "l" and any(o not in stored for o in ss):
                    bad_load = True
    autos = {}
    for o in used:
        if not lay["slots"][o][1]:
            autos.setdefault(lay["slots"][o][0], []).append(o)
    return {"used": used, "refs": refs, "dup": len(req) != len(set(req)), "count": len(used), "bad_load": bad_load,
            "ties": [g for g in autos.values() if len(g) > 1], "global": glob}


def parse_ok(ans: str):
    head, asg, locs, prog = ans.split(" ", 3)
    a = dict((int(x.split(":")[0]), int(x.split(":")[1])) for x in asg[4:].split(",") if x)
    return a, locs, prog


def compare_assign(lay: dict, real: str, model: str, facts: dict) -> str | None:
    """None when they agree; numbering compared literally except inside groups of automatic slots with the
    same id (their relative order in sorted() is CPython set order) where only the set of numbers must agree"""
    if real == model:
        return None
    if not (real.startswith("ok ") and model.startswith("ok ")) or not facts["ties"]:
        return f"real={real[:300]} model={model[:300]}"
    ra, rl, _ = parse_ok(real)
    ma, ml, _ = parse_ok(model)
    tied = {o for g in facts["ties"] for o in g}
    if set(ra) != set(ma):
        return "different slot objects numbered"
    for o in ra:
        if o not in tied and ra[o] != ma[o]:
            return f"slot object {o}: real {ra[o]} model {ma[o]}"
    for g in facts["ties"]:
        if sorted(ra[o] for o in g) != sorted(ma[o] for o in g):
            return f"tie group {g}: real {[ra[o] for o in g]} model {[ma[o] for o in g]}"
    return None


def property_on_real(lay: dict, real: str, det, facts: dict) -> str | None:
    """C10 at the level of the assignment, judged on the real function's outcome only"""
    must_fail = facts["dup"] or facts["count"] > 256 or facts["bad_load"]
    if not real.startswith("ok "):
        if real.startswith("exc "):
            return "unexpected exception " + real
        if not must_fail:
            return "rejected although <= 256 slots, no duplicate requested id, no load before store: " + real
        if real == "err dup" and not facts["dup"]:
            return "duplicate-id error without duplicate"
        if real.startswith("err toomany") and (facts["count"] <= 256 or real != f"err toomany {facts['count']}"):
            return "too-many error with wrong count: " + real
        return None
    if facts["dup"]:
        return "two slot objects request the same id but the program was accepted"
    if facts["count"] > 256:
        return f"{facts['count']} slots accepted"
    if facts["bad_load"]:
        return "load before store accepted"
    if det["incoherent"]:
        return det["incoherent"][0]
    asg = det["asg"]
    if sorted(asg) != facts["used"]:
        return "not every referenced slot object was numbered"
    if len(set(asg.values())) != len(asg):
        return "two slot objects share a number"
    for o, n in asg.items():
        sid, res = lay["slots"][o]
        if res and n != sid:
            return f"requested id {sid} got {n}"
        if not 0 <= n < 256:
            return f"number {n} out of range"
    for pos, rt in enumerate(lay["routines"]):
        want = {asg[o] for o in facts["used"] if facts["refs"][o] == {pos}}
        if det["locals"][show_key(rt["key"])] != want:
            return f"local set of routine {show_key(rt['key'])}: {sorted(det['locals'][show_key(rt['key'])])} expected {sorted(want)}"
    return None


def real_alloc(m: int, proto):
    saved = SubroutineEval._current_proto
    try:
        if proto is None:
            SubroutineEval._current_proto = None
        else:
            SubroutineEval._current_proto = Proto(0, 1, mem_layout=ProtoStackLayout([], [pt.TealType.uint64] * proto, 0))
        out = []
        for _ in range(m):
            v = alloc_abstract_var(pt.TealType.uint64)
            if isinstance(v, FrameVar):
                out.append(f"f{v.frame_index}")
            elif isinstance(v, pt.ScratchVar):
                out.append("s")
            else:
                out.append("?" + type(v).__name__)
        return ",".join(out)
    finally:
        SubroutineEval._current_proto = saved


# ------------------------------------------------------------------------------------------------
# end-to-end oracle: marker programs through the public API, real compileTeal, Lean AVM
#   spec = {"version", "scratch_opt", "fp", "nsub", "chain", "vars": [...], "shared": [...], "expect"}
#   var  = {"kind": auto|req|dyn|dyn2|abi|mv, "home": routine (0 = main), "slot": k|None, "slot2": k|None,
#           "m1": marker, "m2": marker|None}
# ------------------------------------------------------------------------------------------------
SLOT_COST = {"auto": 1, "req": 1, "dyn": 2, "dyn2": 3, "abi": 1, "mv": 2, "dynonly": 2}
PYTEAL_ERRORS = (pt.TealInternalError, pt.TealInputError, pt.TealCompileError, pt.TealTypeError)


def gen_spec(r, scenario: str, big: bool) -> dict:
    version = r.choice([2, 3, 4, 5, 6, 7, 8, 8, 9, 9, 10, 10])
    fp = r.choice([None, False, True]) if version >= 8 else r.choice([None, False])
    scratch_opt = r.choice([None, True, False])
    nsub = 0 if version < 4 else r.choice([0, 1, 2, 3, 4, 5])
    chain = r.random() < 0.75
    kinds = ["auto", "auto", "auto", "req", "req", "mv"]
    if scenario == "fits":
        kinds += ["abi", "abi"]
    if version >= 5:
        kinds += ["dyn", "dyn2", "dynonly"]
    free = list(range(256))
    r.shuffle(free)
    if scenario == "toomany":
        target = r.choice([257, 257, 257, 258, 260, 300])
    elif scenario == "fpcap":
        target = r.choice([3, 10, 40])
    elif big:
        target = r.choice([256, 256, 256, 255, 250, 200])
    else:
        target = r.choice([1, 2, 3, 5, 8, 13, 30, 60])
    abi_out = []
    vars_, shared, used = [], [], 0
    nshared = r.choice([0, 0, 1, 2, 3]) if nsub else 0
    for _ in range(nshared):
        if used + 1 > target:
            break
        req = r.random() < 0.5
        shared.append({"slot": free.pop() if req else None, "sub": r.randrange(1, nsub + 1), "m1": 0, "m2": 0})
        used += 1
    p_main = r.choice([0.3, 0.6, 1.0]) if nsub else 1.0
    while used < target:
        k = r.choice(kinds)
        if used + SLOT_COST[k] > target:
            k = r.choice(["auto", "req"])
        if k == "req" and not free:
            k = "auto"
        v = {"kind": k, "home": 0 if r.random() < p_main else r.randrange(1, nsub + 1), "slot": None, "slot2": None, "m1": 0, "m2": None}
        if k == "req" or (k in ("dyn", "dyn2", "dynonly") and r.random() < 0.7 and len(free) > 2):
            v["slot"] = free.pop()
            if k == "dyn2":
                v["slot2"] = free.pop()
        vars_.append(v)
        used += SLOT_COST[k]
    if scenario == "fpcap":
        # > 128 frame locals in one subroutine: they must fall back to scratch slots
        version, fp = r.choice([8, 9, 10]), r.choice([True, None])
        nsub = max(nsub, 1) if version >= 4 else 1
        sub = r.randrange(1, nsub + 1)
        for _ in range(r.choice([126, 127, 128, 129, 130, 140, 200])):
            vars_.append({"kind": "abi", "home": sub, "slot": None, "slot2": None, "m1": 0, "m2": None})
        if r.random() < 0.5:
            abi_out = [sub]      # the crowded routine returns through an ABI output cell (frame entry 0 counts against the 128)
    # a routine with exactly one variable would have its store/load pair cancelled by the optimiser: keep counts exact
    for rt in range(1, nsub + 1):
        mine = [v for v in vars_ if v["home"] == rt]
        if len(mine) == 1:
            mine[0]["home"] = 0
    if scenario == "dup":
        # two different variables requesting one id
        cands = [v for v in vars_ if v["kind"] == "req"]
        if not cands:
            vars_.append({"kind": "req", "home": 0, "slot": free.pop(), "slot2": None, "m1": 0, "m2": None})
            cands = [vars_[-1]]
        orig = r.choice(cands)
        clone = {"kind": r.choice(["req", "req", "dyn", "dynonly"] if version >= 5 else ["req"]), "home": r.randrange(0, nsub + 1),
                 "slot": orig["slot"], "slot2": None, "m1": 0, "m2": None}
        vars_.insert(r.randrange(len(vars_) + 1), clone)
        for rt in range(1, nsub + 1):
            mine = [v for v in vars_ if v["home"] == rt]
            if len(mine) == 1:
                mine[0]["home"] = 0
    first_of = {}
    for i, v in enumerate(vars_):
        v["m1"] = 1000 + 4 * i
        first = v["home"] not in first_of
        first_of.setdefault(v["home"], i)
        if not first and v["kind"] != "mv" and r.random() < 0.3:
            v["m2"] = 1001 + 4 * i  # overwritten: "the value LAST stored"
    for j, s in enumerate(shared):
        s["m1"], s["m2"] = 900000 + 2 * j, 900001 + 2 * j
        s["echo"] = r.random() < 0.4
    for v in vars_:
        if v["kind"] == "dynonly":
            v["echo"] = r.random() < 0.5
    byref = False
    if scenario == "fits" and version >= 5 and used <= 200 and r.random() < 0.35:
        # a variable handed to a routine BY REFERENCE (followed by a by-value parameter): the routine's store must land in that variable
        cands = [v for v in vars_ if v["kind"] in ("auto", "req") and v["home"] == 0]
        for v in r.sample(cands, min(len(cands), r.choice([1, 2]))):
            v["bump"] = r.randrange(1, 9)
            byref = True
    expect = {"fits": "approve", "fpcap": "approve", "toomany": "toomany", "dup": "dup"}[scenario]
    return {"version": version, "scratch_opt": scratch_opt, "fp": fp, "nsub": nsub, "chain": chain, "vars": vars_,
            "shared": shared, "expect": expect, "scenario": scenario, "shared_options": r.random() < 0.5,
            "abi_out": [j for j in abi_out if j <= nsub] if version >= 6 else [], "byref": byref}


_SHARED_OPTIONS: dict = {}


def build_and_compile(spec: dict):
    """returns (teal text, gstate) ; raises whatever the real compiler raises"""
    T = pt.TealType.uint64
    V, S, nsub = spec["vars"], spec["shared"], spec["nsub"]
    gstate = {}
    shared_objs = [pt.ScratchVar(T, s["slot"]) if s["slot"] is not None else pt.ScratchVar(T) for s in S]
    subs = {}

    def code(rt):
        return 70 + rt

    def mk(i, v):
        k = v["kind"]
        if k == "auto":
            return (pt.ScratchVar(T),)
        if k == "req":
            return (pt.ScratchVar(T, v["slot"]),)
        if k == "dyn":
            return (pt.DynamicScratchVar(T), pt.ScratchVar(T, v["slot"]) if v["slot"] is not None else pt.ScratchVar(T))
        if k == "dynonly":
            # the target is reached ONLY through the cursor (its own load/store never appear in the program)
            return (pt.DynamicScratchVar(T), pt.ScratchVar(T, v["slot"]) if v["slot"] is not None else pt.ScratchVar(T))
        if k == "dyn2":
            a = pt.ScratchVar(T, v["slot"]) if v["slot"] is not None else pt.ScratchVar(T)
            b = pt.ScratchVar(T, v["slot2"]) if v["slot2"] is not None else pt.ScratchVar(T)
            return (pt.DynamicScratchVar(T), a, b)
        if k == "abi":
            return (pt.abi.Uint64(),)
        key = f"k{i}".encode()
        gstate[key] = v["m1"]
        return (pt.App.globalGetEx(pt.Int(0), pt.Bytes(key)),)

    def store1(v, o):
        k, m = v["kind"], pt.Int(v["m1"])
        if k in ("auto", "req"):
            return [o[0].store(m)]
        # (validateSlots wants a direct store before the direct load of the target, so the targets are initialised)
        if k == "dyn":
            return [o[1].store(pt.Int(v["m1"] + 3)), o[0].set_index(o[1]), o[0].store(m)]
        if k == "dynonly":
            if v.get("echo"):
                # the target is stored and read back at once (a pair the optimiser would cancel on an unprotected slot); the value is
                # then observed through the cursor only
                return [o[1].store(pt.Int(v["m1"] + 3)), pt.Pop(o[1].load()), o[0].set_index(o[1]),
                        pt.Assert(o[0].load() == pt.Int(v["m1"] + 3)), o[0].store(m)]
            return [o[0].set_index(o[1]), o[0].store(m)]
        if k == "dyn2":
            return [o[1].store(pt.Int(v["m1"] + 3)), o[2].store(pt.Int(v["m1"] + 3)),
                    o[0].set_index(o[1]), o[0].store(m), o[0].set_index(o[2]), o[0].store(pt.Int(v["m1"] + 2))]
        if k == "abi":
            return [o[0].set(m)]
        return [o[0]]

    def store2(v, o):
        if v["m2"] is None:
            return []
        k, m = v["kind"], pt.Int(v["m2"])
        if k in ("auto", "req"):
            return [o[0].store(m)]
        if k in ("dyn", "dyn2", "dynonly"):
            return [o[0].store(m)]  # through the index: overwrites the slot currently pointed at
        return [o[0].set(m)]

    def _bump(x, amount):
        return x.store(x.load() + amount)
    _bump.__annotations__ = {"x": pt.ScratchVar, "amount": pt.Expr, "return": pt.Expr}
    bump = pt.Subroutine(pt.TealType.none, name="bump")(_bump) if spec.get("byref") else None

    def checks(v, o):
        k = v["kind"]
        last = pt.Int((v["m2"] if v["m2"] is not None else v["m1"]) + (v.get("bump") or 0))
        A = pt.Assert
        if k == "auto":
            return [A(o[0].load() == last)]
        if k == "req":
            return [A(o[0].load() == last), A(o[0].index() == pt.Int(v["slot"]))]
        if k == "abi":
            return [A(o[0].get() == last)]
        if k == "mv":
            return [A(o[0].hasValue()), A(o[0].value() == last)]
        if k == "dynonly":
            out = [A(o[0].load() == last)]
            if v["slot"] is not None:
                out.append(A(o[0].index() == pt.Int(v["slot"])))
            return out
        if k == "dyn":
            out = [A(o[1].load() == last), A(o[0].load() == last), A(o[0].index() == o[1].index())]
            if v["slot"] is not None:
                out.append(A(o[0].index() == pt.Int(v["slot"])))
            return out
        # dyn2: first target keeps m1, second target holds the last value stored through the index
        second = pt.Int(v["m2"] if v["m2"] is not None else v["m1"] + 2)
        out = [A(o[1].load() == pt.Int(v["m1"])), A(o[2].load() == second), A(o[0].load() == second), A(o[0].index() == o[2].index())]
        if v["slot"] is not None:
            out += [A(o[1].index() == pt.Int(v["slot"])), A(o[0].index() == pt.Int(v["slot2"]))]
        return out

    def body(rt):
        mine = [(i, v) for i, v in enumerate(V) if v["home"] == rt]
        objs = {i: mk(i, v) for i, v in mine}
        seq = []
        for so, s in zip(shared_objs, S):
            if rt == 0:
                seq.append(so.store(pt.Int(s["m1"])))
                if s.get("echo"):
                    seq.append(pt.Pop(so.load()))      # main's only load of it: what the subroutine reads is main's store
            elif s["sub"] == rt:
                seq += [pt.Assert(so.load() == pt.Int(s["m1"])), so.store(pt.Int(s["m2"]))]
        for i, v in mine:
            seq += store1(v, objs[i])
        for i, v in mine:
            seq += store2(v, objs[i])
        for i, v in mine:
            if v.get("bump") and bump is not None:
                seq.append(bump(objs[i][0], pt.Int(v["bump"])))
        def call(j):
            if j in abi_out:
                return subs[j]().use(lambda v: pt.Assert(v.get() == pt.Int(code(j))))
            return pt.Assert(subs[j]() == pt.Int(code(j)))
        if spec["chain"]:
            if rt < nsub:
                seq.append(call(rt + 1))
        elif rt == 0:
            for j in range(1, nsub + 1):
                seq.append(call(j))
        for i, v in mine:
            seq += checks(v, objs[i])
        if rt != 0 and rt in abi_out:
            return pt.Seq(*seq, out_cell[rt].set(pt.Int(code(rt))))
        if rt == 0:
            for so, s in zip(shared_objs, S):
                if not s.get("echo"):
                    seq.append(pt.Assert(so.load() == pt.Int(s["m2"])))
                if s["slot"] is not None:
                    seq.append(pt.Assert(so.index() == pt.Int(s["slot"])))
            seq.append(pt.Approve())
        else:
            seq.append(pt.Int(code(rt)))
        return pt.Seq(*seq)

    abi_out = spec.get("abi_out") or []
    out_cell = {}

    def make_sub(j):
        if j in abi_out:
            def impl_abi(*, output):
                out_cell[j] = output
                return body(j)
            impl_abi.__annotations__ = {"output": pt.abi.Uint64, "return": pt.Expr}
            impl_abi.__name__ = f"sub{j}"
            return pt.ABIReturnSubroutine(impl_abi)

        def impl():
            return body(j)
        impl.__name__ = f"sub{j}"
        return pt.Subroutine(T)(impl)

    for j in range(1, nsub + 1):
        subs[j] = make_sub(j)
    # every second marker program is compiled with ONE long-lived OptimizeOptions object per setting (the options say how to
    # compile; whatever a compilation notes on them must not reach the next program)
    okey = (spec["scratch_opt"], spec["fp"])
    if spec.get("shared_options"):
        opt = _SHARED_OPTIONS.setdefault(okey, pt.OptimizeOptions(scratch_slots=spec["scratch_opt"], frame_pointers=spec["fp"]))
    else:
        opt = pt.OptimizeOptions(scratch_slots=spec["scratch_opt"], frame_pointers=spec["fp"])
    teal = pt.compileTeal(body(0), pt.Mode.Application, version=spec["version"], optimize=opt)
    return teal, gstate


def distinct_scratch_numbers(teal: str) -> set:
    out = set()
    for line in teal.splitlines():
        w = line.split("//")[0].split()
        if len(w) == 2 and w[0] in ("load", "store") and w[1].isdigit():
            out.add(int(w[1]))
    return out


def run_spec(spec: dict, d: Driver, r) -> dict:
    """compile with the real compiler, execute on the Lean AVM; returns an outcome record"""
    saved = (pt.ScratchSlot.nextSlotId, SubroutineEval._current_proto)
    try:
        try:
            teal, gstate = build_and_compile(spec)
        except PYTEAL_ERRORS as e:
            return {"compiled": False, "error": classify_error(e), "pyteal_error": True}
        except Exception as e:  # noqa: BLE001
            return {"compiled": False, "error": f"exc {type(e).__name__}: {str(e)[:200]}", "pyteal_error": False}
    finally:
        pt.ScratchSlot.nextSlotId, SubroutineEval._current_proto = saved
    ctx = recipes.gen_ctx(r, "app", spec["version"])
    ctx["gstate"] = dict(gstate)
    a1 = d.ask("teal c10t " + hexs(teal.encode()))
    a2 = d.ask("ctx c10c " + recipes.render_ctx(ctx))
    if not a1.startswith("ok") or not a2.startswith("ok"):
        return {"compiled": True, "exec": f"driver: {a1[:200]} / {a2[:100]}", "teal": teal}
    out = d.ask("exec c10t c10c 2000000")
    return {"compiled": True, "exec": out, "teal": teal, "slots_used": len(distinct_scratch_numbers(teal)), "lines": len(teal.splitlines())}


def judge_spec(spec: dict, res: dict) -> str | None:
    exp = spec["expect"]
    if exp == "approve":
        if not res["compiled"]:
            return "a program within the limits was rejected: " + res["error"]
        if not res["exec"].startswith("done u1 "):
            return "marker program does not approve on the AVM: " + res["exec"][:200]
        return None
    if res["compiled"]:
        what = "more than 256 slots" if exp == "toomany" else "two variables requesting the same slot id"
        return f"a program with {what} compiled ({res.get('slots_used')} distinct slot numbers in the TEAL); AVM outcome: " + res["exec"][:120]
    if not res["pyteal_error"]:
        return "rejected, but not with a PyTeal error: " + res["error"]
    if exp == "toomany" and not res["error"].startswith("err toomany"):
        return "rejected with another error than the slot limit: " + res["error"]
    if exp == "dup" and res["error"] != "err dup":
        return "rejected with another error than the duplicate id: " + res["error"]
    return None


# ------------------------------------------------------------------------------------------------
# fixed cases (the Lean examples and the boundaries), the check itself, replay
# ------------------------------------------------------------------------------------------------


def simple_layout(slots, uses) -> dict:
    """uses: list of (key, [(kind, obj)...])"""
    return {"slots": [list(s) for s in slots],
            "routines": [{"key": k, "blocks": [[[kind, [["S", o]]] for kind, o in ops]]} for k, ops in uses]}


def fixed_layouts() -> list:
    out = []
    # Proofs/C10.lean exProg
    out.append({"slots": [[256, False], [5, True], [300, False], [0, True], [257, False], [1, False], [1, False]],
                "routines": [
                    {"key": 0, "blocks": [[["s", [["S", 2]]], ["l", [["S", 2]]], ["s", [["S", 3]]], ["s", [["S", 4]]]]]},
                    {"key": None, "blocks": [[["s", [["S", 0]]], ["o", []], ["l", [["S", 0]]], ["s", [["S", 1]]], ["i", [["S", 1]]],
                                             ["i", [["N", 7]]], ["l", [["S", 2]]]]]},
                    {"key": 1, "blocks": [[["s", [["S", 5], ["S", 6]]]]]}]})
    out.append(simple_layout([(5, True), (5, True)], [(None, [("s", 0)]), (0, [("s", 1)])]))
    out.append(simple_layout([(5, True)], [(None, [("s", 0)]), (0, [("l", 0)])]))
    out.append(simple_layout([(256, False)], [(None, [("l", 0)])]))
    for n in (255, 256, 257, 300):
        out.append(simple_layout([(256 + i, False) for i in range(n)], [(None, [("s", i) for i in range(n)])]))
    # 256 with every id requested; 257 = 256 requested + 1 automatic (no room); requested + automatic exactly full
    out.append(simple_layout([(i, True) for i in range(256)], [(None, [("s", i) for i in range(256)])]))
    out.append(simple_layout([(i, True) for i in range(256)] + [(999, False)], [(None, [("s", i) for i in range(257)])]))
    out.append(simple_layout([(2 * i + 1, True) for i in range(128)] + [(256 + i, False) for i in range(128)],
                             [(None, [("s", i) for i in range(128)]), (0, [("s", 128 + i) for i in range(128)])]))
    # duplicate id together with too many slots: the duplicate is reported
    out.append(simple_layout([(256 + i, False) for i in range(256)] + [(9, True), (9, True)], [(None, [("s", i) for i in range(258)])]))
    # automatic ids below 256 (after reset_slot_numbering(0)) next to requested ones with the same ids
    out.append(simple_layout([(0, False), (1, False), (0, True), (1, True)], [(None, [("s", 0), ("s", 2)]), (0, [("s", 1), ("s", 3)])]))
    return out


def check_preconditions() -> list:
    """facts about the real classes that the model and the theorems' hypotheses rely on"""
    bad = []
    from pyteal.config import NUM_SLOTS
    from pyteal.ast.frame import MAX_FRAME_LOCAL_VARS
    if NUM_SLOTS != 256:
        bad.append(f"NUM_SLOTS is {NUM_SLOTS}, the AVM has 256 scratch slots (model constant NUM_SLOTS)")
    if MAX_FRAME_LOCAL_VARS != 128:
        bad.append(f"MAX_FRAME_LOCAL_VARS is {MAX_FRAME_LOCAL_VARS} (model constant 128)")
    a, b = pt.ScratchSlot(5), pt.ScratchSlot(5)
    if a == b or hash(a) == hash(b) or not (a == a) or len({a, b}) != 2:
        bad.append("ScratchSlot objects are no longer compared by identity")
    for k in (-1, 256, 1000):
        try:
            pt.ScratchSlot(k)
            bad.append(f"ScratchSlot({k}) accepted: hypothesis of assign_in_range (requested ids < 256) not enforced")
        except pt.TealInputError:
            pass
    saved = pt.ScratchSlot.nextSlotId
    try:
        pt.ScratchSlot.reset_slot_numbering()
        s = pt.ScratchSlot()
        if s.id != 256 or s.isReservedSlot:
            bad.append("automatic ids no longer start at 256 / are flagged reserved")
        if not pt.ScratchSlot(0).isReservedSlot:
            bad.append("requested slots are not flagged isReservedSlot")
    finally:
        pt.ScratchSlot.nextSlotId = saved
    return bad


def expected_scratch_count(spec: dict, d: Driver):
    """number of distinct scratch slots the TEAL must use, None when the optimiser may cancel a pair"""
    v = spec["version"]
    fp_on = spec["fp"] if spec["fp"] is not None else v >= 8
    opt_on = spec["scratch_opt"] if spec["scratch_opt"] is not None else v >= 9
    if opt_on and spec["nsub"] == 0 and len(spec["vars"]) <= 1:
        return None
    n = len(spec["shared"])
    per_sub_abi = {}
    for x in spec["vars"]:
        if x["kind"] == "abi" and x["home"] != 0 and fp_on:
            per_sub_abi[x["home"]] = per_sub_abi.get(x["home"], 0) + 1
        elif x["kind"] == "dynonly" and not x.get("echo"):
            n += 1      # the target never appears in a load/store line (only as `int k`); its cell is checked by execution
        else:
            n += SLOT_COST[x["kind"]]
    if spec.get("byref") and any(x.get("bump") for x in spec["vars"]):
        # the cursor holding the passed slot index is a scratch cell under either convention; the by-value parameter is one only
        # under the scratch convention (a frame cell under frame pointers)
        n += 1 if fp_on else 2
    ao = spec.get("abi_out") or []
    for j in ao:
        # the result of an ABI routine is received in a fresh ABI value of the caller (`.use`); the output cell itself is frame
        # entry 0 under frame pointers and a scratch slot otherwise
        caller = (j - 1) if spec["chain"] else 0
        if caller != 0 and fp_on:
            per_sub_abi[caller] = per_sub_abi.get(caller, 0) + 1
        elif not opt_on:
            n += 1      # (with the optimiser on, the receiving cell's `store k; load k` is the one pair it cancels)
        if not fp_on:
            n += 1
    for j, m in per_sub_abi.items():
        n += d.ask(f"c10-alloc {m} {1 if j in ao else 0}").split(",").count("s")
    return n


def run(tier: str) -> int:
    t_start = time.time()
    rep = Report("C10", tier, level="proof")
    st = check_proofs(["PyTealV.Proofs.C10", "PyTealV.Proofs.FrameImm"])
    rep.coverage.update(proof_coverage(st, "cd lean && lake build PyTealV.Proofs.C10 PyTealV.Proofs.FrameImm", TRUSTED))
    rep.assumptions += [
        "slot objects are identified by Python object identity; the model's `obj` field stands for it",
        "requested slot ids are < 256 (enforced by ScratchSlot.__init__, re-checked on the real class each run)",
        "validateSlots is modelled for straight-line routines (chains of simple blocks); its path-sensitive behaviour on branching graphs is not part of C10",
        "CPython's iteration order over a set of slot objects only influences the relative numbering of automatic slots with equal ids (possible after reset_slot_numbering); "
        "all theorems hold for every such order (assignWith_* with IsReorder), the correspondence compares those groups as sets",
        "marker programs need sys.setrecursionlimit(20000): the real compiler recurses once per statement (C20's subject)",
    ]
    d = Driver()
    broken = []  # proof / correspondence problems: (what, replay)
    real_failures = 0
    if not st.ok:
        broken.append(("proof module PyTealV.Proofs.C10 is not accepted: " + "; ".join(st.problems)[:400] + " " + st.log[-600:],
                       {"kind": "proof", "problems": st.problems}))
    for b in check_preconditions():
        broken.append(("precondition of the model does not hold on the real code: " + b, {"kind": "precondition", "case": b}))

    # ---- layouts -------------------------------------------------------------------------------
    n_layouts = 500 if tier == "quick" else 7000
    r = rng("c10-layouts")
    lays = fixed_layouts() + [gen_layout(r) for _ in range(n_layouts)]
    dist = {"outcome": {}, "slots": {}, "routines": {}, "flavour": {}}
    seen, nontrivial, samples = set(), 0, []
    B = 25
    t_lay, lay_budget, lay_min = time.time(), (15 if tier == "quick" else 200), (150 if tier == "quick" else 2000)
    n_done = 0
    for off in range(0, len(lays), B):
        if n_done >= lay_min and time.time() - t_lay > lay_budget:
            rep.notes.append(f"layouts stopped after {n_done} of {len(lays)} (time budget)")
            break
        chunk = lays[off:off + B]
        n_done += len(chunk)
        encs = [encode_layout(l) for l in chunk]
        # one line at a time: a 300-slot layout is tens of kilobytes, pipelining would fill the pipe
        models = [d.ask("c10-assign " + e) for e in encs]
        mcolls = [d.ask("c10-collect " + e) for e in encs]
        for lay, enc, model, mcoll in zip(chunk, encs, models, mcolls):
            facts = layout_facts(lay)
            real, det = real_assign(lay)
            rcoll = real_collect(lay)
            if enc not in seen:
                seen.add(enc)
                if facts["count"] >= 2:
                    nontrivial += 1
            cls = real.split(" ")[0] + (" " + real.split(" ")[1] if real.startswith("err") else "")
            dist["outcome"][cls] = dist["outcome"].get(cls, 0) + 1
            bucket = "1-12" if facts["count"] <= 12 else "13-249" if facts["count"] < 250 else "250-256" if facts["count"] <= 256 else "257-262" if facts["count"] <= 262 else "263-300"
            dist["slots"][bucket] = dist["slots"].get(bucket, 0) + 1
            dist["routines"][len(lay["routines"])] = dist["routines"].get(len(lay["routines"]), 0) + 1
            for name, on in (("requested", any(lay["slots"][o][1] for o in facts["used"])), ("shared", bool(facts["global"])),
                             ("tied-auto-ids", bool(facts["ties"])), ("duplicate-request", facts["dup"]),
                             ("auto-id<256", any((not lay["slots"][o][1]) and lay["slots"][o][0] < 256 for o in facts["used"])),
                             ("load-before-store", facts["bad_load"])):
                if on:
                    dist["flavour"][name] = dist["flavour"].get(name, 0) + 1
            if len(samples) < 4 and 2 <= facts["count"] <= 6:
                samples.append({"layout": enc, "real": real[:160]})
            why = property_on_real(lay, real, det, facts)
            if why is not None:
                real_failures += 1
                rep.violation("C10 fails on the real assignScratchSlotsToSubroutines: " + why,
                              {"kind": "layout", "layout": lay, "real": real[:2000], "model": model[:2000]})
            mm = compare_assign(lay, real, model, facts)
            if mm is None and rcoll != mcoll:
                mm = f"collectScratchSlots/collect_unoptimized_slots: real={rcoll[:200]} model={mcoll[:200]}"
            if mm is not None:
                broken.append(("model and real code disagree on a slot layout: " + mm, {"kind": "layout", "layout": lay, "real": real[:2000], "model": model[:2000]}))
    # ---- alloc_abstract_var -----------------------------------------------------------------------
    n_alloc = 0
    for m, proto in [(5, None), (1, 0), (5, 0), (130, 0), (5, 126), (3, 127), (3, 128), (2, 200), (300, 0), (129, 1)]:
        real, model = real_alloc(m, proto), d.ask(f"c10-alloc {m} {'-' if proto is None else proto}")
        n_alloc += 1
        if real != model:
            broken.append((f"alloc_abstract_var: {m} allocations with {proto} frame locals: real {real[:200]} model {model[:200]}",
                           {"kind": "alloc", "m": m, "proto": proto}))
    # ---- marker programs ----------------------------------------------------------------------------
    n_specs = 96 if tier == "quick" else 900
    budget = 38 if tier == "quick" else 470
    spec_min = 24 if tier == "quick" else 150
    r2 = rng("c10-markers")
    pattern = ["fits", "fits", "toomany", "fits", "dup", "fpcap", "fits", "fits"]
    mdist = {"scenario": {}, "version": {}, "options": {}, "outcome": {}, "kinds": {}}
    n_run, max_slots_run = 0, 0
    for i in range(n_specs):
        if n_run >= spec_min and time.time() - t_start > budget:
            rep.notes.append(f"marker programs stopped after {n_run} of {n_specs} (time budget)")
            break
        sc = pattern[i % len(pattern)]
        spec = gen_spec(r2, sc, big=(i % 3 == 0))
        spec["ctx_tag"] = f"c10-ctx-{i}"
        res = run_spec(spec, d, rng(spec["ctx_tag"]))
        n_run += 1
        mdist["scenario"][sc] = mdist["scenario"].get(sc, 0) + 1
        mdist["version"][spec["version"]] = mdist["version"].get(spec["version"], 0) + 1
        ok_ = f"opt={spec['scratch_opt']} fp={spec['fp']}"
        mdist["options"][ok_] = mdist["options"].get(ok_, 0) + 1
        oc = (res.get("exec") or res.get("error") or "")[:12]
        mdist["outcome"][oc] = mdist["outcome"].get(oc, 0) + 1
        for x in spec["vars"]:
            mdist["kinds"][x["kind"]] = mdist["kinds"].get(x["kind"], 0) + 1
        max_slots_run = max(max_slots_run, res.get("slots_used") or 0)
        why = judge_spec(spec, res)
        if why is not None:
            real_failures += 1
            rep.violation("C10 fails on a marker program: " + why, {"kind": "spec", "spec": spec, "outcome": {k: v for k, v in res.items() if k != "teal"}})
        elif res["compiled"]:
            want = expected_scratch_count(spec, d)
            if want is not None and want != res["slots_used"]:
                broken.append((f"marker program uses {res['slots_used']} scratch slots, the model of alloc_abstract_var / slot counting predicts {want}",
                               {"kind": "spec", "spec": spec, "outcome": {k: v for k, v in res.items() if k != "teal"}}))
    d.close()
    # a broken proof or a model/code mismatch without a failing input of the property itself
    if broken and real_failures == 0:
        for what, replay_ in broken[:3]:
            rep.violation(what + " -- no input on which the property itself fails was found in this run", replay_, no_input=True)
    elif broken:
        rep.notes.append(f"{len(broken)} model/code disagreements accompany the violations, first: {broken[0][0][:300]}")
    rep.coverage.update({
        "evaluations": n_done + n_alloc + n_run,
        "distinct_nontrivial": nontrivial + n_run,
        "rule": "layout: distinct encoded layouts with >= 2 referenced slot objects; marker program: every compiled-or-rejected program counts",
        "layouts": n_done, "marker_programs": n_run, "max_scratch_slots_in_executed_program": max_slots_run,
        "samples": samples,
        "distribution": {"layouts": dist, "marker_programs": mdist},
    })
    return rep.finish()


def replay(path: str) -> int:
    body = json.loads(open(path).read())
    kind = body.get("kind")
    d = Driver()
    print("what:", body.get("what"))
    if kind == "layout":
        lay = body["layout"]
        enc = encode_layout(lay)
        facts = layout_facts(lay)
        real, det = real_assign(lay)
        model = d.ask("c10-assign " + enc)
        print("layout:", enc[:3000])
        print("facts: slots=%d duplicate_request=%s load_before_store=%s shared=%s" % (facts["count"], facts["dup"], facts["bad_load"], sorted(facts["global"])))
        print("real :", real[:3000])
        print("model:", model[:3000])
        print("real collect :", real_collect(lay)[:1500])
        print("model collect:", d.ask("c10-collect " + enc)[:1500])
        why = property_on_real(lay, real, det, facts)
        print("property on real outcome:", why or "holds")
        return 1 if (why or compare_assign(lay, real, model, facts)) else 0
    if kind == "spec":
        spec = body["spec"]
        res = run_spec(spec, d, rng(spec.get("ctx_tag", "c10-ctx")))
        print("spec: version=%s scratch_opt=%s fp=%s nsub=%s chain=%s expect=%s vars=%d shared=%d" % (
            spec["version"], spec["scratch_opt"], spec["fp"], spec["nsub"], spec["chain"], spec["expect"], len(spec["vars"]), len(spec["shared"])))
        print("real compile:", "ok, %s lines, %s distinct scratch slots" % (res.get("lines"), res.get("slots_used")) if res["compiled"] else res["error"])
        print("AVM:", res.get("exec"))
        print("expected scratch slots (model):", expected_scratch_count(spec, d))
        why = judge_spec(spec, res)
        print("judgement:", why or "as expected")
        if res.get("teal") and why:
            print(res["teal"][:4000])
        return 1 if why else 0
    if kind == "alloc":
        m, proto = body["m"], body["proto"]
        a, b = real_alloc(m, proto), d.ask(f"c10-alloc {m} {'-' if proto is None else proto}")
        print("real :", a, "\nmodel:", b)
        return 0 if a == b else 1
    if kind == "precondition":
        bad = check_preconditions()
        print("preconditions failing now:", bad)
        return 1 if bad else 0
    st = check_proofs(["PyTealV.Proofs.C10", "PyTealV.Proofs.FrameImm"])
    print("proof status:", "ok" if st.ok else st.problems, st.log[-1500:] if not st.ok else "")
    return 0 if st.ok else 1
