"""C09 - routed methods receive their ARC-4 arguments and log their ARC-4 result; the contract
description lists exactly the registered methods.

Parts (see DESIGN.md, section C09):

1. proofs   lean/PyTealV/Proofs/C09.lean over lean/PyTealV/Models/RouterArgs.lean:
              arg_binding              the decoding instructions `__decode_constructions_and_args` builds bind every
                                       parameter of every signature to the place ARC-4 prescribes (all lengths,
                                       transaction / reference parameters anywhere)
              txn_index_arith / txn_consecutive / txn_missing_fails / txn_wrong_type_fails / missing_arg_fails
              tuple_cutoff             15th.. parameter = component (p-14) of application argument 15, decoding to the
                                       value the caller packed (Arc4.split / decode_encode)
              direct_arg, caller_agrees the other parameters: own argument p+1; C14's caller-side packing puts slot p there
              run_eq, ref_resolution   evaluation on every call = the callee-side spec
              return_logged_once / return_log_is_last / void_adds_no_log, frame_cells
              contract_selectors / contract_shape / contract_selectors_old_counterexample (regression witness)
2. tie      constants (METHOD_ARG_NUM_CUTOFF, RETURN_HASH_PREFIX) and, for every generated signature, the decoding
            events found in the REAL approval TEAL (which application argument / group offset / type assertion goes to
            which parameter cell, in program order; frame cells of the frame-pointer flavour) = the model's `glue`.
3. oracle   on the REAL code end to end: generated method signatures (0..22 parameters; plain / reference / transaction
            kinds in any position; void and non-void results) whose handlers echo what they received; real `pt.Router`,
            real `compile_program` (versions 6..10 x frame pointers x scratch-slot optimisation); the calling group is
            built by an independent ARC-4 client encoder (algosdk) and the approval TEAL is executed on the Lean AVM:
            every echoed log = what the client passed, last log = 151f7c75 ++ algosdk encoding of the result, exactly
            once; wrong transaction type / missing preceding transaction / too few arguments / reference index outside
            its array must fail.  Three-way: real TEAL = client expectation = Lean model (`c09-run`, `c09-wrap`).
4. contract the real `compile_program()[2]` / `contract_construct()` lists exactly the registered methods, with the
            signatures found in the `method "..."` lines of the real approval TEAL (and the model `c09-contract`).
   add_method_handler(overriding_name=...) is part of every run (the contract once kept the subroutine's own name:
   repaired in /repo commit caa13a5; a relapse is a VIOLATION with the router as replay).
"""
from __future__ import annotations

import json
import linecache
import re
import sys
import time

import common
from common import Report, check_proofs, proof_coverage, Driver, rng, hexs, ToolFailure

sys.path.insert(0, str(common.REPO))

PROOF_MODULES = ["PyTealV.Proofs.C09"]
REQUIRED_THEOREMS = ["PyTealV.Proofs.C09." + t for t in [
    "arg_binding", "txn_index_arith", "txn_consecutive", "ref_resolution", "tuple_types", "tuple_cutoff", "direct_arg",
    "caller_agrees", "run_eq",
    "txn_missing_fails", "txn_wrong_type_fails", "missing_arg_fails", "frame_cells", "prefix_const",
    "return_logged_once", "return_log_is_last", "void_adds_no_log", "contract_selectors", "contract_shape",
    "contract_selectors_old_counterexample"]]
TRUSTED = [
    "Lean 4 kernel; axioms propext, Classical.choice, Quot.sound only",
    "callee side of the ARC-4 calling convention as written in Models/RouterArgs.lean Part A (specBinding, specTupleTypes, "
    "specResolve, evalBinding, specEffects); cross-checked on every run against an independent client encoder on top of "
    "algosdk.abi (selector, ABIType.encode per argument, tuple packing beyond 15, foreign arrays)",
    "ARC-4 codec specification PyTealV.Arc4 (validated against algosdk by C06/C07/C19) and its theorems split_assemble / decode_encode",
    "Models/RouterArgs.lean Part B is a hand-written transcription of router.py __decode_constructions_and_args / wrap_handler / "
    "add_method_handler, method_return.py, reference_type.py; tied to the code by comparing the decoding events of the real TEAL "
    "with the model's instruction list and by executing the real TEAL on generated calls",
    "decoding ONE ABI value from a byte string and extracting ONE tuple component (param.decode, tuple[i].store_into) are "
    "properties C07/C06; here the echoed encodings are compared on the real code only",
    "Lean AVM semantics (PyTealV.Avm.Sem) and TEAL grammar (PyTealV.Avm.Syntax) execute the real compiler output; the context "
    "presents Accounts[0] = Sender and Applications[0] = the called application, as the AVM does",
    "SHA-512/256 uninterpreted in Lean: selectors are opaque tokens (theorems) / supplied from algosdk (executions)",
]
FUEL = 400000
MAX_RECORDED = 12

SENDER = bytes([1]) * 32
CUR_APP = 7
TXN_TYPES = ["pay", "axfer", "appl", "txn", "keyreg", "acfg", "afrz"]
TXN_CODE = {"pay": 1, "keyreg": 2, "acfg": 3, "axfer": 4, "afrz": 5, "appl": 6}
TXN_CLASS = {"txn": "Transaction", "pay": "PaymentTransaction", "keyreg": "KeyRegisterTransaction",
             "acfg": "AssetConfigTransaction", "axfer": "AssetTransferTransaction", "afrz": "AssetFreezeTransaction",
             "appl": "ApplicationCallTransaction"}
REF_CLASS = {"account": "Account", "application": "Application", "asset": "Asset"}
PLAIN_TYPES = [
    "uint64", "uint64", "uint64", "uint8", "uint8", "uint16", "uint32", "byte", "bool", "bool", "bool", "string", "string",
    "address", "byte[]", "byte[]", "(uint64,bool)", "(string,uint16)", "(bool,bool,uint8)", "uint16[3]", "bool[3]", "bool[9]",
    "byte[4]", "uint64[]", "bool[]", "string[]", "(uint64,(bool,string))", "uint8[2][]", "(uint32,string,bool[2])",
    "(byte[],uint8)[2]", "()", "string[2]", "(bool,string,bool,uint64[],bool)",
]
RET_TYPES = ["void", "void", "uint64", "uint64", "uint64", "string", "bool", "uint8", "byte[]", "(uint64,string)", "uint16[3]",
             "address", "bool[]", "(bool,bool,uint8)", "string[]", "uint32"]


# ============================================================================ the code under test


class Real:
    """imported at run time from common.REPO"""

    def __init__(self):
        import pyteal as pt
        import pyteal.errors as pe
        import pyteal.config as cfg
        from algosdk import abi as sabi
        from families import quiet_traces
        import arc4util
        self.pt, self.sabi, self.quiet, self.cfg, self.a4 = pt, sabi, quiet_traces, cfg, arc4util
        self.own = (pe.TealInputError, pe.TealInternalError, pe.TealCompileError, pe.TealTypeError)


def annot(real: Real, t) -> str:
    """PyTeal annotation (source text) of an arc4util type"""
    k = t[0]
    if k == "bool":
        return "pt.abi.Bool"
    if k == "byte":
        return "pt.abi.Byte"
    if k == "uint":
        return f"pt.abi.Uint{t[1]}"
    if k == "address":
        return "pt.abi.Address"
    if k == "string":
        return "pt.abi.String"
    if k == "sarray":
        return f"pt.abi.StaticArray[{annot(real, t[1])}, Literal[{t[2]}]]"
    if k == "darray":
        return f"pt.abi.DynamicArray[{annot(real, t[1])}]"
    if k == "tuple":
        n = len(t[1])
        if n == 0:
            return "pt.abi.Tuple0"
        if n > 5:
            raise ValueError("tuple arity > 5 has no annotation")
        return f"pt.abi.Tuple{n}[{', '.join(annot(real, x) for x in t[1])}]"
    raise ValueError(t)


def param_annot(real: Real, p) -> str:
    if p["kind"] == "plain":
        return annot(real, real.a4.parse_sig(p["type"]))
    if p["kind"] == "txn":
        return "pt.abi." + TXN_CLASS[p["type"]]
    return "pt.abi." + REF_CLASS[p["kind"]]


def param_text(p) -> str:
    return p["type"] if p["kind"] in ("plain", "txn") else p["kind"]


def sig_text(case, name="hnd") -> str:
    return f"{name}({','.join(param_text(p) for p in case['params'])}){case['ret']}"


def marker(j: int) -> bytes:
    return b"P" + bytes([j])


_fn_counter = [0]


def mk_handler(real: Real, case, name="hnd"):
    """the Python function of an echoing handler: parameter j -> Log(marker j ++ what it is bound to)"""
    pt = real.pt
    # (a void method may call its FIRST parameter `output`: an ordinary positional parameter, not the keyword-only result cell)
    pname = lambda j: "output" if (j == 0 and case.get("pos_output") and case["ret"] == "void") else f"a{j}"  # noqa: E731
    params = [f"{pname(j)}: {param_annot(real, p)}" for j, p in enumerate(case["params"])]
    if case["ret"] != "void":
        params.append(f"*, output: {annot(real, real.a4.parse_sig(case['ret']))}")

    def _body(loc):
        steps, terms = [], [pt.Int(1000)]
        for j, p in enumerate(case["params"]):
            a = loc[pname(j)]
            mk = pt.Bytes(marker(j))
            if p["kind"] == "plain":
                steps.append(pt.Log(pt.Concat(mk, a.encode())))
                terms.append(pt.Len(a.encode()))
            elif p["kind"] == "account":
                steps.append(pt.Log(pt.Concat(mk, a.address())))
                terms.append(pt.Len(a.address()))
            elif p["kind"] == "application":
                steps.append(pt.Log(pt.Concat(mk, pt.Itob(a.application_id()))))
                terms.append(a.application_id())
            elif p["kind"] == "asset":
                steps.append(pt.Log(pt.Concat(mk, pt.Itob(a.asset_id()))))
                terms.append(a.asset_id())
            else:
                t = a.get()
                steps.append(pt.Log(pt.Concat(mk, pt.Itob(t.type_enum()), t.sender(), pt.Itob(t.group_index()))))
                terms.append(t.type_enum() * pt.Int(100) + t.group_index())
        if case["ret"] != "void":
            out, mode = loc["output"], case["ret_mode"]
            if mode.startswith("echo:"):
                src = loc[f"a{int(mode[5:])}"]
                # (Tuple.set takes the components, not a tuple: copy through the encoding)
                steps.append(out.decode(src.encode()) if case["ret"].startswith("(") and case["ret"].endswith(")") else out.set(src))
            elif mode == "sum":
                e = terms[0]
                for x in terms[1:]:
                    e = e + x
                steps.append(out.set(e))
            else:
                steps.append(out.decode(pt.Bytes(bytes.fromhex(mode[6:]))))
        return pt.Seq(*steps) if steps else pt.Seq(pt.Pop(pt.Int(0)))

    src = f"def {name}({', '.join(params)}):\n    return _body(locals())\n"
    _fn_counter[0] += 1
    fname = f"<c09-{name}-{_fn_counter[0]}>"
    linecache.cache[fname] = (len(src), None, src.splitlines(True), fname)
    import typing
    g = {"pt": pt, "_body": _body, "Literal": typing.Literal}
    exec(compile(src, fname, "exec", dont_inherit=True), g)
    return g[name]


def variants():
    vs = []
    for v in range(6, 11):
        for fp in ([False] if v < 8 else [False, True]):
            for ss in [False, True]:
                vs.append({"version": v, "frame_pointers": fp, "scratch_slots": ss})
    return vs


def vkey(var) -> str:
    return f"v{var['version']}{'fp' if var['frame_pointers'] else ''}{'ss' if var['scratch_slots'] else ''}"


def compile_case(real: Real, case, var, extra=(), stage_after=None, refused=False):
    """("ok", approval, clear, contract) | ("err", type, message); `extra` = further registrations
    [(case, name, how)] added BEFORE / AFTER the main method (how: add | override | decorator)"""
    pt = real.pt
    try:
        with real.quiet():
            router = pt.Router("c09", pt.BareCallActions(no_op=pt.OnCompleteAction.create_only(pt.Approve())))
            regs = [(case, "hnd", "add")] + list(extra)
            main_obj = None
            fp0 = var["frame_pointers"] if var["version"] >= 8 else None
            for ri, (cs, name, how) in enumerate(regs):
                if stage_after is not None and ri == stage_after:
                    # the router is compiled once (same settings) while only the first registrations exist; its result is not looked at
                    router.compile_program(version=var["version"], optimize=pt.OptimizeOptions(frame_pointers=fp0, scratch_slots=var["scratch_slots"]))
                if how == "add":
                    obj = pt.ABIReturnSubroutine(mk_handler(real, cs, name))
                    main_obj = main_obj or obj
                    router.add_method_handler(obj)
                elif how == "alias":         # the SAME handler object registered once more under another name
                    router.add_method_handler(main_obj, overriding_name=name)
                elif how == "override":      # the subroutine is called `<name>_impl`, registered under `name`
                    router.add_method_handler(pt.ABIReturnSubroutine(mk_handler(real, cs, name + "_impl")), overriding_name=name)
                elif how == "decorator":     # Router.method(name=...)
                    router.method(mk_handler(real, cs, name + "_fn"), name=name)
                else:
                    raise ValueError(how)
            if refused:
                # registrations the router REFUSES (the same signature once more; a configuration under which the method can never
                # run): the caller catches the error and goes on -- nothing of them may remain in the contract or the program
                for bad in (lambda: router.add_method_handler(pt.ABIReturnSubroutine(mk_handler(real, case, "hnd"))),
                            lambda: router.add_method_handler(pt.ABIReturnSubroutine(mk_handler(real, case, "never")),
                                                              method_config=pt.MethodConfig(no_op=pt.CallConfig.NEVER))):
                    try:
                        bad()
                    except real.own:
                        pass
            fp = var["frame_pointers"] if var["version"] >= 8 else None
            ap, cl, contract = router.compile_program(
                version=var["version"], optimize=pt.OptimizeOptions(frame_pointers=fp, scratch_slots=var["scratch_slots"]))
            built = router.contract_construct()
        return ("ok", ap, cl, contract, built)
    except real.own as e:
        return ("err", type(e).__name__, str(e)[:300])


# ============================================================================ generators


def gen_params(r, n):
    """n parameters; transaction / reference kinds anywhere"""
    style = r.random()
    p_txn = 0.0 if style < 0.25 else r.choice([0.1, 0.2, 0.35])
    p_ref = 0.0 if 0.15 < style < 0.3 else r.choice([0.1, 0.2, 0.3])
    ps = []
    for _ in range(n):
        c = r.random()
        if c < p_txn and sum(1 for p in ps if p["kind"] == "txn") < 6:
            ps.append({"kind": "txn", "type": r.choice(TXN_TYPES)})
        elif c < p_txn + p_ref:
            ps.append({"kind": r.choice(["account", "application", "asset"])})
        else:
            ps.append({"kind": "plain", "type": r.choice(PLAIN_TYPES)})
    return ps


def gen_case(real: Real, r, n):
    ps = gen_params(r, n)
    ret = r.choice(RET_TYPES)
    case = {"params": ps, "ret": ret, "ret_mode": "-"}
    if ret == "void" and ps and r.random() < 0.25:
        case["pos_output"] = True
    if ret != "void":
        same = [j for j, p in enumerate(ps) if p["kind"] == "plain" and p["type"] == ret]
        if same and r.random() < 0.7:
            case["ret_mode"] = f"echo:{r.choice(same)}"
        elif ret == "uint64" and r.random() < 0.8:
            case["ret_mode"] = "sum"
        else:
            t = real.a4.parse_sig(ret)
            case["ret_mode"] = "const:" + real.a4.sdk_type(t).encode(real.a4.gen_value(r, t)).hex()
    return case


def gen_call(real: Real, r, case):
    """an ARC-4 client call of the method: values, group, application arguments (independent of PyTeal and of Lean)"""
    a4, sabi = real.a4, real.sabi
    lead = r.choice([0, 0, 1, 2])             # unrelated transactions before the method's transaction arguments
    trail = r.choice([0, 0, 1])               # and after the call
    group = []
    for i in range(lead):
        group.append({"type": r.choice([1, 4, 6, 2]), "sender": bytes([0x20 + i]) * 32})
    accounts, apps, assets = [], [], []
    slots, echoes, sumv = [], [], 1000        # slots: (arc4 type string, value) of the non-transaction arguments
    ntx = 0
    for j, p in enumerate(case["params"]):
        if p["kind"] == "txn":
            ty = TXN_CODE[p["type"]] if p["type"] != "txn" else r.choice([1, 2, 3, 4, 5, 6])
            snd = bytes([0x60 + ntx]) * 32
            ntx += 1
            gidx = len(group)
            group.append({"type": ty, "sender": snd})
            echoes.append(marker(j) + ty.to_bytes(8, "big") + snd + gidx.to_bytes(8, "big"))
            sumv += ty * 100 + gidx
        elif p["kind"] == "plain":
            t = a4.parse_sig(p["type"])
            v = a4.gen_value(r, t)
            enc = a4.sdk_type(t).encode(v)
            slots.append((p["type"], v))
            echoes.append(marker(j) + enc)
            sumv += len(enc)
        elif p["kind"] == "account":
            if r.random() < 0.25:
                idx, addr = 0, SENDER
            else:
                addr = bytes([0x40 + len(accounts)]) * 32
                accounts.append(addr)
                idx = len(accounts)
            slots.append(("uint8", idx))
            echoes.append(marker(j) + addr)
            sumv += 32
        elif p["kind"] == "application":
            if r.random() < 0.25:
                idx, aid = 0, CUR_APP
            else:
                aid = 900 + len(apps)
                apps.append(aid)
                idx = len(apps)
            slots.append(("uint8", idx))
            echoes.append(marker(j) + aid.to_bytes(8, "big"))
            sumv += aid
        else:
            aid = 500 + len(assets)
            assets.append(aid)
            slots.append(("uint8", len(assets) - 1))
            echoes.append(marker(j) + aid.to_bytes(8, "big"))
            sumv += aid
    gi = len(group)
    group.append({"type": 6, "sender": SENDER})
    for i in range(trail):
        group.append({"type": 1, "sender": bytes([0x30 + i]) * 32})
    # ARC-4 client encoding of the application arguments
    selector = sabi.Method.from_signature(sig_text(case)).get_selector()
    encs = [sabi.ABIType.from_string(ts).encode(v) for ts, v in slots]
    if len(slots) > 15:
        tup = sabi.TupleType([sabi.ABIType.from_string(ts) for ts, _ in slots[14:]])
        encs = encs[:14] + [tup.encode([v for _, v in slots[14:]])]
    args = [selector] + encs
    # the result
    result = None
    if case["ret"] != "void":
        mode = case["ret_mode"]
        if mode.startswith("echo:"):
            result = echoes[int(mode[5:])][2:]
        elif mode == "sum":
            result = sumv.to_bytes(8, "big")
        else:
            result = bytes.fromhex(mode[6:])
    call = {"group": [{"type": g["type"], "sender": g["sender"].hex()} for g in group], "gi": gi,
            "args": [a.hex() for a in args], "accounts": [a.hex() for a in accounts], "apps": apps, "assets": assets,
            "label": "ok"}
    expect = {"logs": [e.hex() for e in echoes], "result": None if result is None else result.hex()}
    return call, expect


def negative_calls(r, case, call):
    """calls ARC-4 does not allow for this signature: each must fail"""
    out = []
    ps = case["params"]
    tx = [j for j, p in enumerate(ps) if p["kind"] == "txn"]
    k = len(tx)
    nargs = sum(1 for p in ps if p["kind"] != "txn")
    specific = [(i, j) for i, j in enumerate(tx) if ps[j]["type"] != "txn"]
    if specific:
        i, j = r.choice(specific)
        c = json.loads(json.dumps(call))
        pos = c["gi"] - (k - i)
        want = TXN_CODE[ps[j]["type"]]
        c["group"][pos]["type"] = r.choice([x for x in (1, 2, 3, 4, 5, 6) if x != want])
        c["label"] = "wrongtype"
        out.append(c)
    if k > 0:
        c = json.loads(json.dumps(call))
        drop = c["gi"] - k + r.choice([1, k])          # keep fewer than k transactions before the call
        c["group"] = c["group"][drop:]
        c["gi"] -= drop
        c["label"] = "missingtxn"
        out.append(c)
    if nargs > 0:
        c = json.loads(json.dumps(call))
        c["args"] = c["args"][:-1]
        c["label"] = "fewargs"
        out.append(c)
    refs = [p["kind"] for p in ps if p["kind"] in ("account", "application", "asset")]
    if refs and nargs <= 15:
        # the LAST reference argument gets an index outside its foreign array
        pos, kind = [(q, p["kind"]) for q, p in enumerate([p for p in ps if p["kind"] != "txn"]) if p["kind"] in REF_CLASS][-1]
        c = json.loads(json.dumps(call))
        size = {"account": len(c["accounts"]) + 1, "application": len(c["apps"]) + 1, "asset": len(c["assets"])}[kind]
        c["args"][pos + 1] = bytes([size + r.choice([0, 3])]).hex()
        c["label"] = "badref"
        out.append(c)
    return out


# ============================================================================ execution


def mk_ctx(call, version):
    from recipes import render_ctx
    group = []
    n = len(call["group"])
    for i, g in enumerate(call["group"]):
        t = {"Sender": bytes.fromhex(g["sender"]), "Fee": 1000, "FirstValid": 5, "Note": b"", "Amount": 100 + i,
             "TypeEnum": g["type"], "GroupIndex": i, "RekeyTo": bytes(32), "Receiver": bytes(32),
             "ApplicationID": 0, "OnCompletion": 0, "NumAppArgs": 0, "ApplicationArgs": [], "Accounts": [bytes.fromhex(g["sender"])],
             "Applications": [0], "Assets": [], "NumAccounts": 0, "NumApplications": 0, "NumAssets": 0}
        if i == call["gi"]:
            args = [bytes.fromhex(a) for a in call["args"]]
            t.update({"ApplicationID": CUR_APP, "NumAppArgs": len(args), "ApplicationArgs": args,
                      "Accounts": [SENDER] + [bytes.fromhex(a) for a in call["accounts"]], "NumAccounts": len(call["accounts"]),
                      "Applications": [CUR_APP] + list(call["apps"]), "NumApplications": len(call["apps"]),
                      "Assets": list(call["assets"]), "NumAssets": len(call["assets"])})
        group.append(t)
    glob = {"MinTxnFee": 1000, "GroupSize": n, "Round": 10, "LatestTimestamp": 100, "CurrentApplicationID": CUR_APP,
            "ZeroAddress": bytes(32), "CreatorAddress": b"\xc0" * 32, "CurrentApplicationAddress": b"\xa0" * 32}
    return render_ctx({"mode": "app", "version": version, "args": [], "group": group, "gi": call["gi"], "global": glob,
                       "salt": 0, "gstate": {}})


LOG_RE = re.compile(r"log:b([0-9a-f]*|-)")


def observe(ans: str):
    """AVM outcome -> ("approved", [log hex]) | ("rejected",) | ("failed", why) | ("other", text)"""
    if ans.startswith("done "):
        verdict = ans.split(" ")[1]
        logs = ["" if x == "-" else x for x in LOG_RE.findall(ans)]
        if verdict == "u0":
            return ("rejected", logs)
        return ("approved", logs)
    if ans.startswith("fail logic("):
        return ("failed", ans[5:90])
    return ("other", ans[:160])


def lean_sig(case) -> str:
    items = []
    for p in case["params"]:
        if p["kind"] == "plain":
            items.append("p:" + p["type"])
        elif p["kind"] == "txn":
            items.append("t:" + p["type"])
        else:
            items.append(p["kind"])
    return ";".join(items) if items else "-"


def lst(xs) -> str:
    return ",".join(xs) if xs else "-"


def hx(h: str) -> str:
    return h if h else "_"


def ask_run(drv: Driver, case, call):
    """model and spec values of the parameters in this call (`None` = the call must fail)"""
    line = " ".join(["c09-run", lean_sig(case), lst([str(g["type"]) for g in call["group"]]), str(call["gi"]),
                     lst([hx(a) for a in call["args"]]), SENDER.hex(), lst(call["accounts"]), str(CUR_APP),
                     lst([str(a) for a in call["apps"]]), lst([str(a) for a in call["assets"]])])
    ans = drv.ask(line)
    m = re.fullmatch(r"model=(\S+) spec=(\S+)", ans)
    if not m:
        raise ToolFailure("c09-run: " + ans[:300])
    return [None if x == "fail" else ([] if x == "-" else x.split(",")) for x in m.groups()]


def echo_of_bound(j, b, call):
    """what the echoing handler logs for parameter j when it is bound to the model value b"""
    if b.startswith("v"):
        body = bytes.fromhex(b[1:]) if b[1:] != "_" else b""
    elif b.startswith("acct"):
        body = bytes.fromhex(b[4:])
    elif b.startswith("app"):
        body = int(b[3:]).to_bytes(8, "big")
    elif b.startswith("asset"):
        body = int(b[5:]).to_bytes(8, "big")
    elif b.startswith("txn"):
        n = int(b[3:])
        g = call["group"][n]
        body = g["type"].to_bytes(8, "big") + bytes.fromhex(g["sender"]) + n.to_bytes(8, "big")
    else:
        raise ToolFailure("bound value: " + b)
    return (marker(j) + body).hex()


def ask_wrap(drv: Driver, fp: bool, ok: bool, result, logs):
    r = "void" if result is None else hx(result)
    ans = drv.ask(f"c09-wrap {1 if fp else 0} {1 if ok else 0} {r} {lst([hx(x) for x in logs])}")
    m = re.fullmatch(r"model=(\S+) spec=(\S+)", ans)
    if not m:
        raise ToolFailure("c09-wrap: " + ans[:300])

    def dec(s):
        if s == "failed":
            return None
        body = s[len("approved:"):]
        return [] if body == "-" else ["" if x == "_" else x for x in body.split(",")]
    return dec(m.group(1)), dec(m.group(2))


# ============================================================================ static tie: decoding events in the TEAL


def teal_events(teal: str, fp: bool, name="hnd"):
    """decoding events of the generated glue, in program order:
    (["A1>p0", "G2>p1", "Tpay>p1", "E0>p14", ...], {"params": [cells], "tuple": cell | None}) or None when the text has
    not the expected overall shape"""
    lines = [ln.strip() for ln in teal.splitlines()]
    lines = [ln for ln in lines if ln and not ln.startswith("//")]
    call_re = re.compile(rf"callsub {name}_\d+$")
    try:
        end = next(i for i, ln in enumerate(lines) if call_re.match(ln))
    except StopIteration:
        return None
    start = 0
    if fp:
        cands = [i for i, ln in enumerate(lines[:end]) if re.match(rf"{name}caster_\d+:$", ln)]
        if not cands:
            return None
        start = cands[-1]
    region = lines[start:end]
    cell_re = re.compile(r"(?:store|frame_bury) (\d+)$")
    load_re = re.compile(r"(?:load|frame_dig) (-?\d+)$")
    raw, pending, last_loaded, i = [], None, None, 0
    while i < len(region):
        ln = region[i]
        m = re.match(r"txna ApplicationArgs (\d+)$", ln)
        if m and int(m.group(1)) >= 1:
            pending = f"A{m.group(1)}"
        elif ln == "txn GroupIndex" and i + 2 < len(region) and region[i + 2] == "-" and region[i + 1].startswith("int "):
            pending = f"G{region[i + 1][4:]}"
            i += 2
        elif ln == "gtxns TypeEnum" and i + 3 < len(region) and region[i + 2] == "==" and region[i + 3] == "assert":
            raw.append((f"T{region[i + 1][4:]}", last_loaded))
            i += 3
        elif load_re.match(ln):
            last_loaded = int(load_re.match(ln).group(1))
        elif cell_re.match(ln):
            c = int(cell_re.match(ln).group(1))
            raw.append((pending if pending else "E", c))
            pending = None
        i += 1
    # the argument pushes just before the call give the cell of every parameter
    params = []
    j = len(region) - 1
    while j >= 0 and load_re.match(region[j]):
        params.append(int(load_re.match(region[j]).group(1)))
        j -= 1
    params.reverse()
    names = {c: f"p{q}" for q, c in enumerate(params)}
    events, e, tuple_cell = [], 0, None
    for what, c in raw:
        tgt = names.get(c, "T")
        if tgt == "T":
            tuple_cell = c
        if what == "E":
            events.append(f"E{e}>{tgt}")
            e += 1
        else:
            events.append(f"{what}>{tgt}")
    return events, {"params": params, "tuple": tuple_cell}


def ask_glue(drv: Driver, case):
    ans = drv.ask(f"c09-glue {lean_sig(case)} {0 if case['ret'] == 'void' else 1}")
    m = re.fullmatch(r"ok instrs=(\S+) frame=(\d+)\|(\S+)\|(\S+)\|(\S+)", ans)
    if not m:
        raise ToolFailure("c09-glue: " + ans[:300])
    instrs = [] if m.group(1) == "-" else m.group(1).split(",")
    cells = [] if m.group(3) == "-" else [int(x) for x in m.group(3).split(".")]
    return instrs, {"n": int(m.group(2)), "params": cells, "tuple": None if m.group(4) == "-" else int(m.group(4)),
                    "out": None if m.group(5) == "-" else int(m.group(5))}


def ask_binding(drv: Driver, case):
    ans = drv.ask(f"c09-binding {lean_sig(case)}")
    m = re.fullmatch(r"ok model=(\S+) spec=(\S+) mtuple=(\S+) stuple=(\S+) beyond=(\S+)", ans)
    if not m:
        raise ToolFailure("c09-binding: " + ans[:300])
    return m.groups()


def client_binding(case):
    """the ARC-4 placement of every parameter, computed here from the text of the standard (third implementation)"""
    ps = case["params"]
    k = sum(1 for p in ps if p["kind"] == "txn")
    n = len(ps) - k
    out, pos, ti = [], 0, 0
    for p in ps:
        if p["kind"] == "txn":
            out.append(f"g{k - ti}:{p['type'] if p['type'] != 'txn' else '-'}")
            ti += 1
        else:
            out.append(f"a{pos + 1}" if (n <= 15 or pos < 14) else f"t15.{pos - 14}")
            pos += 1
    return ",".join(out) if out else "-"


# ============================================================================ the check of one signature


class Ctx:
    def __init__(self, rep: Report):
        self.rep = rep
        self.real = Real()
        self.drv = Driver()
        self.known_sels = set()
        self.execs = 0
        self.compiles = 0
        self.static_ties = 0
        self.contract_checks = 0
        self.mismatch = 0
        self.suppressed = 0
        self.teal_perr = []
        self.dist = {}
        self.distinct = set()
        self.samples = []
        self.rejected_by_pyteal = {}

    def count(self, key, n=1):
        self.dist[key] = self.dist.get(key, 0) + n

    def violate(self, what, replay, key=None, no_input=False):
        if key is None and len(self.rep.violations) >= MAX_RECORDED:
            self.suppressed += 1
            return
        self.rep.violation(what, replay, key=key, no_input=no_input)

    def load_teal(self, tid, text, contract):
        for m in contract.methods:
            sg = m.get_signature()
            if sg not in self.known_sels:
                self.drv.ask(f"sel {hexs(sg.encode())} {hexs(m.get_selector())}")
                self.known_sels.add(sg)
        for sg in re.findall(r'^method "(.*)"$', text, flags=re.M):
            if sg not in self.known_sels:
                self.drv.ask(f"sel {hexs(sg.encode())} {hexs(self.real.sabi.Method.from_signature(sg).get_selector())}")
                self.known_sels.add(sg)
        a = self.drv.ask(f"teal {tid} {hexs(text.encode())}")
        if not a.startswith("ok"):
            self.teal_perr.append(a[:200])
            return False
        return True


def run_call(cx: Ctx, case, var, call, expect, replay_base):
    """execute one call on the loaded approval program `A`; three-way comparison"""
    drv = cx.drv
    drv.ask("ctx X " + mk_ctx(call, var["version"]))
    obs = observe(drv.ask(f"exec A X {FUEL}"))
    cx.execs += 1
    replay = dict(replay_base, kind="call", call=call, expect=expect)
    model, spec = ask_run(drv, case, call)
    label = call["label"]
    cx.count("call/" + label)
    if obs[0] == "other":
        if cx.rejected_by_pyteal:
            # a compilation raised earlier in this process (already reported): should PyTeal keep state from it, what it
            # emits for later programs is not what this check is about
            cx.violate(f"{sig_text(case)} [{vkey(var)}]: {obs[1]} after an earlier compilation raised ({list(cx.rejected_by_pyteal)[:2]})",
                       replay, no_input=True)
            return obs
        raise ToolFailure(f"Lean AVM cannot run the router program: {obs[1]}")
    if label == "ok":
        want_logs = list(expect["logs"]) + ([] if expect["result"] is None else ["151f7c75" + expect["result"]])
        # (1) property on the real code: echoes = what the client passed; result logged once, last, with the prefix
        if obs != ("approved", want_logs):
            got = obs[1] if obs[0] == "approved" else obs
            cx.violate(f"{sig_text(case)} [{vkey(var)}]: real approval program -> {str(got)[:300]}, ARC-4 client expects logs "
                       f"{str(want_logs)[:300]}", replay)
        n_ret = sum(1 for x in (obs[1] if obs[0] == "approved" else []) if x.startswith("151f7c75"))
        if obs[0] == "approved" and n_ret != (0 if expect["result"] is None else 1):
            cx.violate(f"{sig_text(case)}: {n_ret} logs carry the return prefix", replay)
        # (2) model <-> client expectation (spec validation) and model <-> real
        if model is None or spec is None or model != spec:
            cx.mismatch += 1
            cx.violate(f"{sig_text(case)}: Lean model/spec say {model} / {spec} on a well-formed ARC-4 call", replay, no_input=True)
        else:
            m_echo = [echo_of_bound(j, b, call) for j, b in enumerate(model)]
            if m_echo != expect["logs"]:
                cx.mismatch += 1
                cx.violate(f"{sig_text(case)}: values bound by the Lean model {m_echo} differ from the client's {expect['logs']}",
                           replay, no_input=(obs == ("approved", want_logs)))
            w_model, w_spec = ask_wrap(drv, var["frame_pointers"], True, expect["result"], m_echo)
            if w_model != want_logs or w_spec != want_logs:
                cx.mismatch += 1
                cx.violate(f"{sig_text(case)}: wrap_handler model {w_model} / spec {w_spec} vs expected {want_logs}", replay,
                           no_input=(obs == ("approved", want_logs)))
    else:
        # a call ARC-4 does not allow: the program must not approve
        if obs[0] == "approved":
            cx.violate(f"{sig_text(case)} [{vkey(var)}]: malformed call ({label}) approved with logs {str(obs[1])[:200]}", replay)
        if model is not None or spec is not None:
            cx.mismatch += 1
            cx.violate(f"{sig_text(case)}: malformed call ({label}) — Lean model/spec bind {model} / {spec}", replay,
                       no_input=(obs[0] != "approved"))
        cx.count("malformed/" + obs[0])
    return obs


def static_tie(cx: Ctx, case, var, ap, replay_base):
    """decoding events of the real TEAL = the model's instruction list (scratch-slot optimisation off)"""
    got = teal_events(ap, var["frame_pointers"])
    instrs, frame = ask_glue(cx.drv, case)
    cx.static_ties += 1
    replay = dict(replay_base, kind="glue")
    if got is None:
        cx.mismatch += 1
        cx.violate(f"{sig_text(case)} [{vkey(var)}]: glue region not found in the real TEAL", replay, no_input=True)
        return
    events, cells = got
    if events != instrs:
        cx.mismatch += 1
        cx.violate(f"{sig_text(case)} [{vkey(var)}]: decoding events of the real TEAL {events} != model {instrs}", replay, no_input=True)
    if var["frame_pointers"]:
        if cells["params"] != frame["params"] or cells["tuple"] != frame["tuple"]:
            cx.mismatch += 1
            cx.violate(f"{sig_text(case)} [{vkey(var)}]: frame cells of the real TEAL {cells} != model {frame}", replay, no_input=True)
        m = re.search(r"callsub hnd_\d+\n((?:frame_bury|store) (\d+)\n)?", ap)
        out_cell = int(m.group(2)) if (m and m.group(2) is not None) else None
        if case["ret"] != "void" and out_cell != frame["out"]:
            cx.mismatch += 1
            cx.violate(f"{sig_text(case)} [{vkey(var)}]: output stored in frame cell {out_cell}, model {frame['out']}", replay, no_input=True)


def check_contract(cx: Ctx, regs, ap, contract, built, replay_base):
    """contract = registered methods = `method "..."` lines of the approval program (and the model)"""
    real = cx.real
    cx.contract_checks += 1
    replay = dict(replay_base, kind="contract", regs=[[sig_text(cs, nm), how] for cs, nm, how in regs])
    registered = [sig_text(cs, nm) for cs, nm, how in regs]           # what the user registered, in order
    listed = [m.get_signature() for m in contract.methods]
    dispatched = re.findall(r'^method "(.*)"$', ap, flags=re.M)
    words = []
    for cs, nm, how in regs:
        fn = {"add": nm, "override": nm + "_impl", "decorator": nm, "alias": "hnd"}[how]
        ov = {"add": "-", "override": hexs(nm.encode()), "decorator": hexs(nm.encode()), "alias": hexs(nm.encode())}[how]
        args = ".".join(hexs(param_text(p).encode()) for p in cs["params"]) or "-"
        words.append(f"{hexs(fn.encode())}:{ov}:{args}:{hexs(cs['ret'].encode())}")
    ans = cx.drv.ask("c09-contract " + ";".join(words))
    m = re.fullmatch(r"ok contract=(\S+) dispatch=(\S+)", ans)
    if not m:
        raise ToolFailure("c09-contract: " + ans[:300])
    m_contract, m_dispatch = [[bytes.fromhex(x).decode() for x in g.split(",")] for g in m.groups()]
    if [x.get_signature() for x in built.methods] != listed:
        cx.violate(f"contract_construct() {[x.get_signature() for x in built.methods]} != compile_program()[2] {listed}", replay)
    if sorted(dispatched) != sorted(registered):
        cx.violate(f"approval program dispatches on {dispatched}, registered {registered}", replay)
    sel = lambda s: real.sabi.Method.from_signature(s).get_selector()  # noqa: E731
    if [x.get_selector() for x in contract.methods] != [sel(s) for s in listed]:
        cx.violate("contract selectors are not the selectors of its signatures", replay)
    if listed != registered or sorted(sel(s) for s in listed) != sorted(sel(s) for s in dispatched):
        cx.violate(f"contract lists {listed}; the approval program dispatches on {dispatched} (registered: {registered})", replay)
    cx.count("registration/" + "+".join(sorted({how for _, _, how in regs})))
    if m_contract != listed or sorted(m_dispatch) != sorted(dispatched):
        cx.mismatch += 1
        cx.violate(f"model contract {m_contract} / dispatch {m_dispatch} vs real {listed} / {dispatched}", replay, no_input=True)
    for mth, (cs, nm, how) in zip(contract.methods, regs):
        if [str(a.type) for a in mth.args] != [param_text(p) for p in cs["params"]] or str(mth.returns.type) != cs["ret"]:
            cx.violate(f"contract entry {mth.get_signature()} has other argument/return types than registered {sig_text(cs, nm)}", replay)


def check_case(cx: Ctx, case, vs, r, n_calls=1, extra=()):
    real = cx.real
    extra = [((case if how == "alias" else cs), nm, how) for cs, nm, how in extra]   # an alias re-registers the main handler
    # binding level: model = spec = the placement computed here
    mb, sb, mt, stt, beyond = ask_binding(cx.drv, case)
    cb = client_binding(case)
    if not (mb == sb == cb) or beyond != "none/none":
        cx.mismatch += 1
        cx.violate(f"{sig_text(case)}: bindings model {mb} / spec {sb} / standard {cb} / beyond {beyond}",
                   {"kind": "binding", "case": case}, no_input=True)
    nn = sum(1 for p in case["params"] if p["kind"] != "txn")
    if nn > 15:
        want_t = "(" + ",".join("uint8" if p["kind"] != "plain" else real.a4.sig(real.a4.parse_sig(p["type"]))
                                for p in [p for p in case["params"] if p["kind"] != "txn"][14:]) + ")"
        if mt != want_t.replace("byte", "byte") or stt != mt:
            cx.mismatch += 1
            cx.violate(f"{sig_text(case)}: tuple type model {mt} / spec {stt} / standard {want_t}", {"kind": "binding", "case": case}, no_input=True)
    for var in vs:
        # with further registrations: sometimes the router has been compiled once before they were made
        stage = 1 if (extra and r.random() < 0.5) else None
        if stage is not None:
            cx.count("registration/staged (compiled once before the later registrations)")
        refused = r.random() < 0.3
        if refused:
            cx.count("registration/with refused registrations in between")
        res = compile_case(real, case, var, extra, stage_after=stage, refused=refused)
        cx.compiles += 1
        cx.count("variant/" + vkey(var))
        base = {"case": case, "variant": var, "extra": [[cs, nm, how] for cs, nm, how in extra], "stage_after": stage, "refused": refused}
        if res[0] == "err":
            cls = res[2][:60]
            cx.rejected_by_pyteal[cls] = cx.rejected_by_pyteal.get(cls, 0) + 1
            cx.violate(f"{sig_text(case)} [{vkey(var)}]: PyTeal refuses a routable ARC-4 signature: {res[1]}: {res[2][:160]}",
                       dict(base, kind="compile"))
            continue
        _, ap, cl, contract, built = res
        if not cx.load_teal("A", ap, contract):
            continue
        if not var["scratch_slots"] and not extra:
            static_tie(cx, case, var, ap, base)
        check_contract(cx, [(case, "hnd", "add")] + list(extra), ap, contract, built, base)
        for _ in range(n_calls):
            call, expect = gen_call(real, r, case)
            obs = run_call(cx, case, var, call, expect, base)
            for bad in negative_calls(r, case, call):
                run_call(cx, case, var, bad, expect, base)
            kinds = [p["kind"] if p["kind"] != "plain" else "plain" for p in case["params"]]
            cx.distinct.add((sig_text(case), vkey(var), obs[0]))
            if len(cx.samples) < 10 and (cx.execs % 211 < 6):
                cx.samples.append({"signature": sig_text(case), "variant": vkey(var), "group_types": [g["type"] for g in call["group"]],
                                   "gi": call["gi"], "n_app_args": len(call["args"]), "observed": obs[0],
                                   "logs": [x[:40] for x in (obs[1] if obs[0] == "approved" else [])][:6], "kinds": kinds[:8]})
    # distribution of the generated signature
    ps = case["params"]
    cx.count(f"params/{len(ps):02d}")
    cx.count("nonTxnArgs/" + ("0-14" if nn <= 14 else "15" if nn == 15 else "16+"))
    for j, p in enumerate(ps):
        cx.count("kind/" + (p["kind"] if p["kind"] != "txn" else "txn:" + p["type"]))
        if p["kind"] == "txn":
            cx.count("txnPosition/" + ("first" if j == 0 else "last" if j == len(ps) - 1 else "middle"))
        if p["kind"] in REF_CLASS:
            pos = sum(1 for q in ps[:j] if q["kind"] != "txn")
            cx.count("refPlacement/" + ("tuple" if (nn > 15 and pos >= 14) else "own-argument"))
        if p["kind"] == "plain" and nn > 15 and sum(1 for q in ps[:j] if q["kind"] != "txn") >= 14:
            cx.count("tupledPlain/" + ("bool" if p["type"] == "bool" else "dynamic" if real.a4.is_dynamic(real.a4.parse_sig(p["type"])) else "static"))
    cx.count("txnParams/" + str(sum(1 for p in ps if p["kind"] == "txn")))
    cx.count("result/" + ("void" if case["ret"] == "void" else case["ret_mode"].split(":")[0]))


def check_constants(cx: Ctx):
    ans = cx.drv.ask("c09-const")
    m = re.fullmatch(r"cutoff=(\d+) prefix=([0-9a-f]+)", ans)
    if not m:
        raise ToolFailure("c09-const: " + ans)
    cfg = cx.real.cfg
    import pyteal.ast.router as rmod
    import pyteal.ast.abi.method_return as mr
    vals = {"config.METHOD_ARG_NUM_CUTOFF": cfg.METHOD_ARG_NUM_CUTOFF, "router.METHOD_ARG_NUM_CUTOFF": rmod.METHOD_ARG_NUM_CUTOFF}
    for k, v in vals.items():
        if v != int(m.group(1)):
            cx.mismatch += 1
            cx.violate(f"{k} = {v}, model/ARC-4: {m.group(1)}", {"kind": "const", "name": k, "value": v}, no_input=True)
    for k, v in {"config.RETURN_HASH_PREFIX": cfg.RETURN_HASH_PREFIX, "method_return.RETURN_HASH_PREFIX": mr.RETURN_HASH_PREFIX}.items():
        if bytes(v).hex() != m.group(2):
            cx.mismatch += 1
            cx.violate(f"{k} = {bytes(v).hex()}, model/ARC-4: {m.group(2)}", {"kind": "const", "name": k, "value": bytes(v).hex()}, no_input=True)


def replay_regression(cx: Ctx):
    """the input of `contract_selectors_old_counterexample` on the real code: add_method_handler(m, overriding_name="foo")
    must list `foo()void` in the contract (repaired defect; a relapse is reported by check_contract)"""
    case = {"params": [], "ret": "void", "ret_mode": "-"}
    other = {"params": [], "ret": "void", "ret_mode": "-"}
    for var in [{"version": 8, "frame_pointers": True, "scratch_slots": False}, {"version": 6, "frame_pointers": False, "scratch_slots": True}]:
        res = compile_case(cx.real, case, var, [(other, "foo", "override")])
        cx.compiles += 1
        if res[0] != "ok":
            raise ToolFailure("regression router does not compile: " + str(res))
        _, ap, cl, contract, built = res
        check_contract(cx, [(case, "hnd", "add"), (other, "foo", "override")], ap, contract, built,
                       {"case": case, "variant": var, "extra": [[other, "foo", "override"]]})


def fixed_cases(real: Real):
    """boundary signatures: 14 / 15 / 16 non-transaction parameters, references and bools inside the tuple, every
    transaction type, transactions first / last / adjacent"""
    P = lambda t: {"kind": "plain", "type": t}  # noqa: E731
    T = lambda t: {"kind": "txn", "type": t}  # noqa: E731
    R = lambda k: {"kind": k}  # noqa: E731
    out = []
    for n in (14, 15, 16, 17):
        out.append({"params": [P("uint64")] * n, "ret": "uint64", "ret_mode": "sum"})
    out.append({"params": [P("uint8")] * 13 + [T("pay"), P("string"), P("bool"), P("bool"), R("account"), P("string"), R("asset"),
                                               P("(uint64,bool)"), R("application")], "ret": "string", "ret_mode": "echo:14"})
    out.append({"params": [T(t) for t in TXN_TYPES], "ret": "void", "ret_mode": "-"})
    out.append({"params": [T("pay"), P("uint64"), T("axfer"), T("txn"), P("bool"), T("appl")], "ret": "bool", "ret_mode": "echo:4"})
    out.append({"params": [R("account"), R("account"), R("application"), R("asset"), R("asset"), R("application")], "ret": "uint64", "ret_mode": "sum"})
    out.append({"params": [P("bool")] * 22, "ret": "bool", "ret_mode": "echo:21"})
    out.append({"params": [P("string")] * 15 + [T("pay")] + [P("byte[]")] * 3, "ret": "byte[]", "ret_mode": "echo:18"})
    out.append({"params": [], "ret": "void", "ret_mode": "-"})
    out.append({"params": [], "ret": "(uint64,string)", "ret_mode": "const:" + real.a4.sdk_type(real.a4.parse_sig("(uint64,string)")).encode([7, "seven"]).hex()})
    return out


def gen_extra(real: Real, r):
    """further methods registered next to the main one (contract listing)"""
    out = []
    for i in range(r.choice([0, 0, 1, 2, 3])):
        cs = gen_case(real, r, r.choice([0, 1, 2, 3]))
        how = r.choice(["add", "add", "decorator", "override", "alias"])
        out.append((cs, f"x{i}", how))
    return out


def run(tier: str) -> int:
    rep = Report("C09", tier, level="proof")
    st = check_proofs(PROOF_MODULES, extra_files=[common.LEAN / "PyTealV" / "Models" / "RouterArgs.lean"])
    rep.coverage.update(proof_coverage(st, "cd lean && lake build PyTealV.Proofs.C09", TRUSTED))
    if not st.ok:
        rep.violation("proof module does not build / audit: " + "; ".join(st.problems)[:400] + st.log[-600:],
                      {"kind": "proof", "modules": PROOF_MODULES}, no_input=True)
    missing = [t for t in REQUIRED_THEOREMS if t not in st.theorems]
    if st.ok and missing:
        rep.violation("required theorems missing: " + ", ".join(missing), {"kind": "proof", "missing": missing}, no_input=True)

    cx = Ctx(rep)
    t0 = time.time()
    vs = variants()
    try:
        check_constants(cx)
        replay_regression(cx)
        r = rng("c09-cases")
        fixed = fixed_cases(cx.real)
        if tier == "quick":
            for i, case in enumerate(fixed):
                check_case(cx, case, [vs[(3 * i) % len(vs)], vs[(3 * i + 7) % len(vs)]], r)
            sizes = list(range(0, 23)) * 2 + [14, 15, 15, 16, 16, 17, 18, 20, 21, 22]
            for i, n in enumerate(sizes):
                case = gen_case(cx.real, r, n)
                extra = gen_extra(cx.real, r) if i % 4 == 3 else ()
                check_case(cx, case, [vs[(2 * i + 1) % len(vs)], vs[(2 * i + 8) % len(vs)], vs[(2 * i + 12) % len(vs)]], r, n_calls=2, extra=extra)
        else:
            for case in fixed:
                check_case(cx, case, vs, r, n_calls=2)
            for i in range(3000):
                n = r.choice(list(range(0, 23)) + [15, 16, 17, 19, 22])
                case = gen_case(cx.real, r, n)
                extra = gen_extra(cx.real, r) if i % 4 == 3 else ()
                pick = [vs[(i + 5 * q) % len(vs)] for q in range(3)]
                check_case(cx, case, pick, r, n_calls=2, extra=extra)
    finally:
        cx.drv.close()
    if cx.teal_perr:
        raise ToolFailure("Lean TEAL grammar rejected real router output: " + cx.teal_perr[0])
    rep.assumptions += [
        "handlers echo their parameters (Log(marker ++ param.encode()) / account.address() / application_id() / asset_id() / "
        "type_enum, sender, group_index of the bound transaction); an ABI value is identified with its encoding",
        "well-formed calls carry canonical ARC-4 encodings (algosdk); malformed calls: wrong transaction type, fewer preceding "
        "transactions than transaction parameters, one application argument missing, reference index outside its array",
        "PyTeal's per-expression stack-trace formatting is stubbed during router construction/compilation (families.quiet_traces); "
        "diagnostics only, no influence on the generated TEAL",
        "static comparison of decoding events uses the compile variants without scratch-slot optimisation (the optimiser may "
        "remove store/load pairs); the executions cover all variants",
        "tuple parameter types are limited to arity <= 5 (PyTeal has annotations Tuple0..Tuple5 only)",
    ]
    rep.coverage.update({
        "evaluations": cx.execs,
        "approval_executions": cx.execs, "router_compilations": cx.compiles, "static_glue_comparisons": cx.static_ties,
        "contract_comparisons": cx.contract_checks,
        "distinct_nontrivial": len(cx.distinct),
        "rule": "distinct (method signature, compile variant, outcome of the well-formed call) triples executed on real TEAL",
        "distribution": dict(sorted(cx.dist.items())),
        "model_code_mismatches": cx.mismatch,
        "signatures_refused_by_pyteal": cx.rejected_by_pyteal,
        "violations_not_recorded": cx.suppressed,
        "samples": cx.samples,
        "oracle_wall_s": round(time.time() - t0, 1),
    })
    return rep.finish()


def replay(path: str) -> int:
    body = json.loads(open(path).read())
    print("replay:", {k: body[k] for k in body if k not in ("what", "case", "call", "expect", "extra")})
    print("what  :", body.get("what"))
    kind = body.get("kind")
    if kind not in ("call", "glue", "contract", "compile", "binding"):
        print("nothing to re-run for kind", kind)
        return 0
    real, drv = Real(), Driver()
    try:
        case = body["case"]
        print("method:", sig_text(case), "result mode:", case["ret_mode"])
        if kind == "binding":
            print("lean  :", ask_binding(drv, case))
            print("client:", client_binding(case))
            return 0
        var = body["variant"]
        extra = [tuple(x) for x in body.get("extra", [])]
        res = compile_case(real, case, var, extra, stage_after=body.get("stage_after"), refused=bool(body.get("refused")))
        print("variant:", var)
        if res[0] == "err":
            print("real  : rejected", res[1], res[2])
            return 0
        _, ap, cl, contract, built = res
        if kind == "compile":
            print("real  : compiles;", len(ap.splitlines()), "lines of approval TEAL, contract", [m.get_signature() for m in contract.methods])
            return 0
        if kind == "contract":
            print("registered :", body.get("regs"))
            print("contract   :", [m.get_signature() for m in contract.methods])
            print("dispatched :", re.findall(r'^method "(.*)"$', ap, flags=re.M))
            return 0
        if kind == "glue":
            print("real events :", teal_events(ap, var["frame_pointers"]))
            print("model       :", ask_glue(drv, case))
            print("---- real TEAL ----")
            print(ap)
            return 0
        call, expect = body["call"], body["expect"]
        for m in contract.methods:
            drv.ask(f"sel {hexs(m.get_signature().encode())} {hexs(m.get_selector())}")
        print(drv.ask(f"teal A {hexs(ap.encode())}"))
        drv.ask("ctx X " + mk_ctx(call, var["version"]))
        ans = drv.ask(f"exec A X {FUEL}")
        print("call  :", json.dumps(call))
        print("real  :", ans[:1500])
        print("client:", expect if call["label"] == "ok" else "must fail (" + call["label"] + ")")
        print("model/spec:", ask_run(drv, case, call))
        print("---- real TEAL ----")
        print(ap)
        return 0
    finally:
        drv.close()
