"""C07 - ABI decoding and element access return the encoded components.

Proof level: `PyTealV.Proofs.C07` (theorems about the Lean model `PyTealV.Models.AbiDecode` of the
index computation the emitted code performs, over the ARC-4 specification `PyTealV.Arc4`):
`indexTuple_correct`, `arrayElem_inrange_correct`, `length_correct`, `substring_choice_equiv`,
`arrayElem_oob_fails_partial`, and the counterexamples to the full out-of-bounds statement
(`oob_bool_counterexample`, `oob_dynamic_element_counterexample`, `oob_zero_width_counterexample`).

What this check does at run time
  1. builds the proofs, greps for escape hatches, audits axioms;
  2. descriptors: the model's `is_dynamic / byte_length_static / _stride` against the real TypeSpec
     methods on every sampled type;
  3. end to end on the REAL code: for (type, value) pairs the algosdk encoding is handed to a PyTeal
     program as application argument 0; the program `decode()`s it, follows paths of element
     accesses (tuple index, named-tuple field, array index as Python int, array index computed
     from another application argument), applies a leaf (`encode()`, `get()`, `length()`), logs the
     result and approves. The program is compiled by the real compiler for versions 5..10 in the
     main routine (scratch slots) and inside a subroutine for versions 8..10 (frame variables),
     and the real TEAL is executed on the Lean AVM. Each log is compared with
        (a) the component computed from the Python value (algosdk encoding of the component),
        (b) Lean `Arc4.decode` of the logged bytes (must give the component back),
        (c) the Lean model `c07-path` run on the same bytes (model <-> code, including the
            out-of-range cases, where both must fail or return the same bytes);
  4. out of range: positions len, len+1, 2^16-1, 2^64-1 as run-time index (must FAIL), Python-int
     indices >= length (static arrays: must be rejected when the program is built; dynamic arrays:
     must FAIL at run time). A surviving program is a violation unless it is one of the
     confirmed known findings (bool elements, dynamic elements, zero-width elements).
"""
from __future__ import annotations

import json
import random
import re
import sys
import time

import common
from common import Report, check_proofs, proof_coverage, Driver, rng, hexs

import arc4util as U
import recipes
from families import quiet_traces

PROOF_MODULES = ["PyTealV.Proofs.Arc4", "PyTealV.Proofs.Arc4Decode", "PyTealV.Proofs.C07Lemmas", "PyTealV.Proofs.C07"]
TRUSTED = [
    "Lean 4 kernel; axioms propext, Classical.choice, Quot.sound only",
    "lean/PyTealV/Arc4.lean: the ARC-4 codec specification (validated against algosdk.abi on every run of C19 and, on the sampled values, here)",
    "lean/PyTealV/Avm/Sem.lean: AVM opcode semantics (sliceB, getBitB, extract_uintN, btoi, overflow checks) - used both by the model and to execute the real TEAL",
    "lean/PyTealV/Models/AbiDecode.lean: hand-written model of _index_tuple / ArrayElement.store_into / decode / length / get (tied to /repo by executing the real TEAL of every case and comparing with the model's answer)",
    "lean/PyTealV/Comp/Gen.lean lowerSubstring/lowerExtract: model of the opcode choice in substring.py (tied to /repo by C01/C18)",
    "harness/props/c07.py + harness/arc4util.py: program construction, oracle navigation of Python values, comparison",
    "algosdk.abi as the reference codec",
]

COMBOS = [("main", v) for v in range(5, 11)] + [("sub", v) for v in (8, 9, 10)]
MAX_INPUT = 2048     # application arguments: 2048 bytes in total
MAX_LOGGED = 1000    # a transaction may log 1024 bytes in total; keep every case realistic
U64 = 2 ** 64

KEY_BOOL = "C07-bool-array-oob"
KEY_DYN = "C07-dynamic-element-oob"
KEY_ZERO = "C07-zero-width-element-oob"


# ------------------------------------------------------------------ real code


def load_pyteal():
    sys.path.insert(0, str(common.REPO))
    import pyteal as pt  # noqa: E402
    from pyteal import abi  # noqa: E402
    return pt, abi


class Specs:
    """PyTeal TypeSpecs for codec types, with the class variants that share an ARC-4 signature:
    NamedTuple subclasses for tuples, StaticBytes / DynamicBytes for byte arrays."""

    def __init__(self, abi):
        self.abi = abi
        self.n = 0

    def spec(self, t, r: random.Random, variants=True):
        abi = self.abi
        k = t[0]
        if k == "tuple":
            kids = [self.spec(x, r, variants) for x in t[1]]
            if variants and kids and r.random() < 0.4:
                try:
                    # field names in a random order: classes of one process share names at different positions
                    names = [f"f{i}" for i in range(len(kids))]
                    r.shuffle(names)
                    anns = {nm: abi.Field[c.annotation_type()] for nm, c in zip(names, kids)}
                    self.n += 1
                    cls = type(f"C07NT{self.n}", (abi.NamedTuple,), {"__annotations__": anns})
                    return cls().type_spec()
                except Exception:  # noqa: BLE001 - tuples of arity > 5 have no annotation type
                    pass
            return abi.TupleTypeSpec(*kids)
        if k == "sarray":
            if variants and t[1] == U.BYTE and r.random() < 0.5:
                return abi.StaticBytesTypeSpec(t[2])
            return abi.StaticArrayTypeSpec(self.spec(t[1], r, variants), t[2])
        if k == "darray":
            if variants and t[1] == U.BYTE and r.random() < 0.5:
                return abi.DynamicBytesTypeSpec()
            return abi.DynamicArrayTypeSpec(self.spec(t[1], r, variants))
        return U.to_pyteal(abi, t)


# ------------------------------------------------------------------ oracle on Python values


def elem_type(t):
    k = t[0]
    if k in ("sarray", "darray"):
        return t[1]
    if k in ("string", "address"):
        return U.BYTE
    return None


def as_seq(t, v):
    k = t[0]
    if k == "string":
        return list(v.encode("utf-8") if isinstance(v, str) else bytes(v))
    if k == "address":
        return list(bytes(v))
    if k in ("sarray", "darray"):
        return list(v)
    if k == "tuple":
        return list(v)
    return None


def static_len(t):
    k = t[0]
    if k == "sarray":
        return t[2]
    if k == "address":
        return 32
    return None


def step_value(t, v, step):
    """(type, value) reached by one step; IndexError when out of range"""
    kind, i = step
    if kind == "t":
        return t[1][i], v[i]
    seq = as_seq(t, v)
    if i >= len(seq):
        raise IndexError(i)
    return elem_type(t), seq[i]


def itob(n):
    return int(n).to_bytes(8, "big")


def leaf_expected(t, v, leaf):
    """the bytes the program must log"""
    k = t[0]
    if leaf == "encode":
        return U.sdk_encode(t, v)
    if leaf == "length":
        return itob(len(t[1]) if k == "tuple" else len(as_seq(t, v)))
    if leaf == "get":
        if k == "bool":
            return itob(1 if v else 0)
        if k in ("byte", "uint"):
            return itob(v)
        if k == "address":
            return bytes(v)
        if k == "string":
            return v.encode("utf-8") if isinstance(v, str) else bytes(v)
        if k in ("sarray", "darray"):
            return bytes(v)
    raise ValueError((t, leaf))


def zero_width(t):
    """static type whose encoding is always empty"""
    k = t[0]
    if k == "tuple":
        return all(zero_width(x) for x in t[1])
    if k == "sarray":
        return t[2] == 0 or zero_width(t[1])
    return False


# ------------------------------------------------------------------ program construction


class Probe:
    """one logged observation: steps = [(kind, i)], kind in t (tuple index) / c (array index as
    Python int) / e (array index from an application argument); styles[i] in store_into/set/use;
    named[i]: use the named-tuple attribute when the current value is a NamedTuple."""

    def __init__(self, steps, leaf, styles=None, named=None):
        self.steps = [tuple(s) for s in steps]
        self.leaf = leaf
        self.styles = styles or ["store_into"] * len(steps)
        self.named = named or [False] * len(steps)

    def to_json(self):
        return {"steps": [list(s) for s in self.steps], "leaf": self.leaf, "styles": self.styles, "named": self.named}

    @staticmethod
    def from_json(d):
        return Probe(d["steps"], d["leaf"], d["styles"], d["named"])

    def steps_text(self):
        return ",".join(f"{k}{i}" for k, i in self.steps) or "-"


class BuildError(Exception):
    pass


def build_program(pt, abi, specs: Specs, t, vseed, probes, backend):
    """-> (expr, number of index arguments). Raises BuildError(pyteal exception) on rejection."""
    state = {"arg": 1}

    def leaf_expr(cur, leaf):
        if leaf == "encode":
            e = cur.encode()
        elif leaf == "get":
            e = cur.get()
        elif leaf == "length":
            e = cur.length()
        else:
            raise ValueError(leaf)
        if e.type_of() == pt.TealType.uint64:
            e = pt.Itob(e)
        return pt.Log(e)

    def nav(cur, p: Probe, j):
        if j == len(p.steps):
            return leaf_expr(cur, p.leaf)
        kind, i = p.steps[j]
        if kind == "t":
            if p.named[j] and isinstance(cur, abi.NamedTuple):
                elem = getattr(cur, list(type(cur).__annotations__)[i])      # the name of the field at position i
            else:
                elem = cur[i]
        elif kind == "c":
            elem = cur[i]
        else:
            a = state["arg"]
            state["arg"] += 1
            elem = cur[pt.Btoi(pt.Txn.application_args[a])]
        style = p.styles[j]
        if style == "use2" and j == len(p.steps) - 1:
            # ONE element object consumed at two places that do not run one after the other: both arms of an If whose condition is
            # false at run time (the arm built first never runs)
            return pt.If(pt.Txn.application_args.length() == pt.Int(77)).Then(elem.use(lambda x: nav(x, p, j + 1))).Else(elem.use(lambda x: nav(x, p, j + 1)))
        if style in ("use", "use2"):
            return elem.use(lambda x: nav(x, p, j + 1))
        out = elem.produced_type_spec().new_instance()
        first = elem.store_into(out) if style == "store_into" else out.set(elem)
        return pt.Seq(first, nav(out, p, j + 1))

    def body():
        state["arg"] = 1
        spec = specs.spec(t, random.Random(vseed))
        v = spec.new_instance()
        stmts = [v.decode(pt.Txn.application_args[0])]
        for p in probes:
            stmts.append(nav(v, p, 0))
        return pt.Seq(*stmts)

    own = (pt.TealInputError, pt.TealTypeError, pt.TealCompileError, pt.TealInternalError)
    try:
        if backend == "sub":
            holder = {}

            def c07_body():
                try:
                    return body()
                except own as e:  # evaluated lazily by the compiler
                    holder["e"] = e
                    raise
            sub = pt.Subroutine(pt.TealType.none)(c07_body)
            return pt.Seq(sub(), pt.Approve()), state
        return pt.Seq(body(), pt.Approve()), state
    except own as e:
        raise BuildError(f"{type(e).__name__}: {e}") from e


def compile_program(pt, abi, specs, t, vseed, probes, backend, version):
    """-> ('ok', teal) | ('builderr', text)"""
    own = (pt.TealInputError, pt.TealTypeError, pt.TealCompileError, pt.TealInternalError)
    # a compile that fails inside a subroutine body leaves SubroutineEval._current_proto set (known
    # finding of C11); every build here starts from a clean state so that cases stay independent
    from pyteal.ast.subroutine import SubroutineEval
    SubroutineEval._current_proto = None
    try:
        with quiet_traces():
            expr, _ = build_program(pt, abi, specs, t, vseed, probes, backend)
            return "ok", pt.compileTeal(expr, pt.Mode.Application, version=version)
    except BuildError as e:
        return "builderr", str(e)[:300]
    except own as e:
        return "builderr", f"{type(e).__name__}: {e}"[:300]
    except Exception as e:  # noqa: BLE001 - the library itself crashed while the access was built (not one of its own errors)
        return "builderr", f"crash {type(e).__name__}: {e}"[:300]


def base_ctx(version, args):
    txn = {"Sender": bytes([1]) * 32, "Fee": 1000, "FirstValid": 5, "Note": b"", "Amount": 0, "TypeEnum": 6, "GroupIndex": 0,
           "ApplicationID": 7, "OnCompletion": 0, "NumAppArgs": len(args), "ApplicationArgs": list(args), "NumAccounts": 0,
           "Accounts": [bytes([1]) * 32], "RekeyTo": bytes(32), "Receiver": bytes(32)}
    glob = {"MinTxnFee": 1000, "GroupSize": 1, "Round": 10, "LatestTimestamp": 100, "CurrentApplicationID": 7, "ZeroAddress": bytes(32),
            "CreatorAddress": bytes([0xC0]) * 32, "CurrentApplicationAddress": bytes([0xA0]) * 32}
    return {"mode": "app", "version": version, "args": [], "group": [txn], "gi": 0, "global": glob, "salt": 0, "gstate": {}}


_OUT = re.compile(r"done (\S+) \[(.*)\]$")


def parse_outcome(ans: str):
    """-> ('approve', [logs]) | ('reject', [logs]) | ('fail', text) | ('other', text)"""
    m = _OUT.match(ans)
    if m:
        logs = []
        for x in m.group(2).split():
            if x.startswith("log:b"):
                logs.append(b"" if x[5:] == "-" else bytes.fromhex(x[5:]))
        return ("approve" if m.group(1) != "u0" else "reject"), logs
    if ans.startswith("fail "):
        return "fail", ans[5:]
    return "other", ans


class Machine:
    def __init__(self, drv):
        self.drv = drv
        self.teal_id = 0
        self.execs = 0

    def load(self, teal: str):
        self.teal_id += 1
        a = self.drv.ask("teal c07t " + teal.encode("utf-8").hex())
        if not a.startswith("ok"):
            raise common.ToolFailure("Lean TEAL parser rejects real TEAL: " + a[:300] + "\n" + teal[:2000])

    def run(self, version, args):
        c = self.drv.ask("ctx c07c " + recipes.render_ctx(base_ctx(version, args)))
        if c != "ok":
            raise common.ToolFailure("ctx rejected: " + c[:300])
        self.execs += 1
        return parse_outcome(self.drv.ask("exec c07t c07c 200000"))


# ------------------------------------------------------------------ model side


def unhexmsg(h):
    try:
        return "" if h == "-" else bytes.fromhex(h).decode("utf-8", "replace")
    except ValueError:
        return h


def model_path(drv, t, enc, probe: Probe):
    """-> ('ok', bytes-as-logged) | ('fail', msg) | ('builderr', msg) | ('perr', text)"""
    a = drv.ask(f"c07-path {U.sig(t)} {hexs(enc)} {probe.steps_text()} {probe.leaf}")
    w = a.split()
    if not w:
        return "perr", a
    if w[0] == "ok" and len(w) == 4:
        if w[2] == "u":
            return "ok", itob(int(w[3]))
        return "ok", (b"" if w[3] == "-" else bytes.fromhex(w[3]))
    if w[0] in ("fail", "builderr") and len(w) == 2:
        return w[0], unhexmsg(w[1])
    return "perr", a


# ------------------------------------------------------------------ case generation


def gen_value_bounded(r, t, limit=MAX_LOGGED):
    for _ in range(12):
        v = U.gen_value(r, t)
        enc = U.sdk_encode(t, v)
        if enc is not None and len(enc) <= limit:
            return v, enc
    return None, None


def leaves_for(t, spec_has_get):
    out = ["encode"]
    k = t[0]
    if k in ("bool", "byte", "uint", "address", "string") or spec_has_get:
        out.append("get")
    if k in ("tuple", "sarray", "darray", "string", "address"):
        out.append("length")
    return out


def has_get(spec) -> bool:
    return callable(getattr(type(spec.new_instance()), "get", None))


def reach_spec(abi, spec, t, steps):
    """the PyTeal spec reached by the steps (to know which leaves exist)"""
    for kind, i in steps:
        if kind == "t":
            spec = spec.value_type_specs()[i]
        else:
            spec = spec.value_type_spec()
    return spec


def reach_type(t, steps):
    for kind, i in steps:
        t = t[1][i] if kind == "t" else elem_type(t)
    return t


def min_len_at(t, values, steps):
    """smallest length of the array reached by `steps` over the given values (None = not an array)"""
    best = None
    for v in values:
        tt, vv = t, v
        try:
            for s in steps:
                tt, vv = step_value(tt, vv, s)
        except IndexError:
            return 0
        if elem_type(tt) is None:
            return None
        n = len(as_seq(tt, vv))
        best = n if best is None else min(best, n)
    return best


STYLES = ["store_into", "store_into", "set", "use", "use2"]


def gen_probes(r, abi, spec, t, values, exhaustive_first_level: bool, n_random: int, max_depth=4):
    """In-range probes valid for every value in `values` (run-time indices are drawn per value
    later: an 'e' step carries the position modulo the actual length)."""
    probes = []

    def mk(steps, leaf=None):
        tt = reach_type(t, steps)
        sp = reach_spec(abi, spec, t, steps)
        leaf = leaf or r.choice(leaves_for(tt, has_get(sp)))
        return Probe(steps, leaf, [r.choice(STYLES) for _ in steps], [r.random() < 0.5 for _ in steps])

    # the root itself
    for leaf in leaves_for(t, has_get(spec)):
        probes.append(Probe([], leaf))
    if exhaustive_first_level:
        if t[0] == "tuple":
            for i in range(len(t[1])):
                probes.append(mk([("t", i)], "encode"))
                probes.append(mk([("t", i)]))
        elif elem_type(t) is not None:
            n = min_len_at(t, values, [])
            for i in range(min(n, 20)):
                probes.append(mk([("c", i)], "encode"))
                probes.append(mk([("e", i)]))
    for _ in range(n_random):
        steps = []
        tt = t
        for _d in range(r.choice([1, 1, 2, 2, 3, max_depth])):
            if tt[0] == "tuple":
                if not tt[1]:
                    break
                i = r.randrange(len(tt[1]))
                steps.append(("t", i))
            elif elem_type(tt) is not None:
                n = min_len_at(t, values, steps)
                if not n:
                    break
                steps.append((r.choice("ce"), r.randrange(n)))
            else:
                break
            tt = reach_type(t, steps)
        if steps:
            probes.append(mk(steps))
    return probes


# ------------------------------------------------------------------ the run


class Stats:
    def __init__(self):
        self.d = {}

    def inc(self, group, key, n=1):
        g = self.d.setdefault(group, {})
        g[key] = g.get(key, 0) + n


def shape_class(t):
    s = U.sig(t)
    tags = [t[0]]
    tags.append("dynamic" if U.is_dynamic(t) else "static")
    if "bool,bool" in s or "bool[" in s:
        tags.append("boolpack")
    return "/".join(tags)


def index_args(probes, overrides=None):
    """application arguments 1.. for the 'e' steps of the probes, in program order"""
    out = []
    for p in probes:
        for kind, i in p.steps:
            if kind == "e":
                out.append(itob(i))
    return out


def check_case(ctx, t, vseed, values, probes, combos, expect_mode, note):
    """Compile the probe program under each combo, run it on every value, compare.

    expect_mode: 'inrange' (all probes must log the expected component) or 'oob' (the single
    probe indexes out of range with its last step: the program must fail).
    Returns number of executed comparisons."""
    pt, abi, specs, mach, drv, rep, st = ctx["pt"], ctx["abi"], ctx["specs"], ctx["mach"], ctx["drv"], ctx["rep"], ctx["st"]
    n = 0
    # expected values and model answers do not depend on the combo
    per_value = []
    for v, enc in values:
        exp, mod = [], []
        for p in probes:
            try:
                tt, vv = t, v
                for s in p.steps:
                    tt, vv = step_value(tt, vv, s)
                exp.append(("ok", leaf_expected(tt, vv, p.leaf), tt, vv))
            except IndexError:
                exp.append(("oob", None, None, None))
            mod.append(model_path(drv, t, enc, p))
        per_value.append((v, enc, exp, mod))
    for backend, version in combos:
        kind, teal = compile_program(pt, abi, specs, t, vseed, probes, backend, version)
        st.inc("backend", f"{backend}")
        st.inc("version", str(version))
        replay_base = {"type": U.sig(t), "vseed": vseed, "probes": [p.to_json() for p in probes], "backend": backend,
                       "version": version, "mode": expect_mode, "note": note}
        if kind == "builderr":
            ctx["builderrs"] += 1
            # an in-range program must build; the model must agree
            mods = [m for _, _, _, mod in per_value for m in mod]
            if not any(m[0] == "builderr" for m in mods):
                rep.violation(f"the real code refuses to build an element access the model accepts: {teal}",
                              dict(replay_base, builderr=teal, value_hex=hexs(values[0][1])), no_input=(expect_mode != "inrange"))
            continue
        mach.load(teal)
        ctx["programs"] += 1
        for v, enc, exp, mod in per_value:
            args = [enc] + index_args(probes)
            out = mach.run(version, args)
            n += 1
            replay = dict(replay_base, value_hex=hexs(enc), value=U.value_sexp(t, v)[:800], real=str(out)[:600],
                          model=[str(m)[:200] for m in mod][:12])
            if expect_mode == "inrange":
                want = [e[1] for e in exp]
                if out[0] != "approve" or out[1] != want:
                    # which probe differs?
                    bad = None
                    if out[0] == "approve":
                        for j, (a, b) in enumerate(zip(out[1], want)):
                            if a != b:
                                bad = j
                                break
                    replay["expected"] = [hexs(x) for x in want][:12]
                    replay["first_bad_probe"] = bad
                    if bad is not None:
                        what = (f"decode + element access returns the wrong component: type {U.sig(t)}, value {U.value_sexp(t, v)[:100]}, "
                                f"probe {probes[bad].steps_text()} {probes[bad].leaf}: logged {hexs(out[1][bad])[:80]}, "
                                f"component is {hexs(want[bad])[:80]} ({backend}, v{version})")
                    else:
                        what = (f"decode + in-range element access does not produce the components: type {U.sig(t)}, value {U.value_sexp(t, v)[:100]}, "
                                f"probes {[p.steps_text() + ' ' + p.leaf for p in probes][:8]}: program outcome {str(out)[:160]} ({backend}, v{version})")
                    rep.violation(what[:600], replay)
                    ctx["wrong"] += 1
                # (b) Lean Arc4.decode of the logged bytes gives the component back (first combo only)
                if (backend, version) == combos[0] and out[0] == "approve" and len(out[1]) == len(probes):
                    for j, p in enumerate(probes):
                        if p.leaf != "encode" or exp[j][0] != "ok" or j % 3:
                            continue
                        tt, vv = exp[j][2], exp[j][3]
                        a = drv.ask(f"arc4-decode {U.sig(tt)} {hexs(out[1][j])}")
                        ctx["lean_dec_logged"] += 1
                        if not (a.startswith("ok ") and U.parse_value(tt, a[3:]) == U.canonical(tt, vv)):
                            ctx["lean_dec_logged_bad"] += 1
                            if ctx["lean_dec_logged_bad"] <= 3:
                                rep.violation(f"Lean Arc4.decode of the logged component is not the component: type {U.sig(tt)}, logged {hexs(out[1][j])[:80]}, lean {a[:120]}",
                                              dict(replay, first_bad_probe=j))
                # model <-> code
                mwant = [m[1] if m[0] == "ok" else None for m in mod]
                if out[0] == "approve" and mwant != out[1]:
                    ctx["model_mismatch"] += 1
                    if out[1] == want:
                        ctx["deferred"].append(("Lean model of the index computation disagrees with the real program (real program is right): "
                                                + json.dumps(replay["model"])[:300], replay))
            else:
                p = probes[0]
                et = reach_type(t, p.steps)
                m = mod[0]
                if out[0] == "fail":
                    ctx["oob_failed"] += 1
                    if m[0] != "fail":
                        ctx["model_mismatch"] += 1
                        ctx["deferred"].append((f"Lean model does not fail on an out-of-range index where the real program does: model {m}", replay))
                else:
                    got = out[1][0] if out[0] == "approve" and out[1] else None
                    if m[0] != "ok" or m[1] != got:
                        ctx["model_mismatch"] += 1
                        ctx["deferred"].append((f"Lean model disagrees with the real program on an out-of-range index: model {m}, real {out}", replay))
                    if et == U.BOOL:
                        key, cls = KEY_BOOL, "bool"
                    elif U.is_dynamic(et):
                        key, cls = KEY_DYN, "dynamic_element"
                    elif zero_width(et):
                        key, cls = KEY_ZERO, "zero_width_element"
                    else:
                        key, cls = None, "static_element"
                    st.inc("oob_survivors", cls)
                    rep.violation(f"array index out of range does not fail: type {U.sig(t)} value {U.value_sexp(t, v)[:120]} path {p.steps_text()} "
                                  f"returns {hexs(got) if got is not None else out} ({backend}, v{version})", replay, key=key)
    return n


def run(tier: str) -> int:
    rep = Report("C07", tier, level="proof")
    t0 = time.time()
    st_proofs = check_proofs(PROOF_MODULES)
    rep.coverage.update(proof_coverage(st_proofs, "cd lean && lake build " + " ".join(PROOF_MODULES), TRUSTED))
    if not st_proofs.ok:
        rep.notes.append("proof problems: " + "; ".join(st_proofs.problems)[:2000] + " | " + st_proofs.log[-1500:])
    t_proofs = time.time() - t0
    thorough = tier == "thorough"
    pt, abi = load_pyteal()
    drv = Driver()
    specs = Specs(abi)
    mach = Machine(drv)
    st = Stats()
    ctx = {"pt": pt, "abi": abi, "specs": specs, "mach": mach, "drv": drv, "rep": rep, "st": st,
           "programs": 0, "builderrs": 0, "wrong": 0, "model_mismatch": 0, "oob_failed": 0, "deferred": [],
           "lean_dec_logged": 0, "lean_dec_logged_bad": 0}

    # ---- types
    r = rng("c07-types")
    types = []
    for n in ((1, 2, 3) if thorough else (1, 2)):
        types += [(t, "exhaustive") for t in U.enum_types(n)]
    pool = U.enum_types(4 if thorough else 3)
    rr = rng("c07-sample")
    types += [(t, "sampled") for t in rr.sample(pool, min(len(pool), 1500 if thorough else 150))]
    for _ in range(1200 if thorough else 150):
        types.append((U.gen_type(r, r.choice([2, 3, 3, 4]), max_arity=6, max_len=10), "random"))
    # hand-picked layouts: bool runs around dynamic members, >8 bools, nested dynamics, large offsets
    B, S, A = U.BOOL, U.STRING, U.ADDRESS
    types += [(t, "handpicked") for t in [
        U.tup(B, B, U.uint(16), S, U.sarray(B, 9), S),
        U.tup(*([B] * 9), S, B, B, S, *([B] * 8), U.uint(64)),
        U.tup(S, B, S), U.tup(S, *([B] * 17), S, U.uint(8)),
        # SEPARATE bool runs (bools split by a non-bool static member) between two dynamic members: only adjacent bools share a byte
        U.tup(S, B, U.uint(8), B, U.uint(8), S), U.tup(S, B, B, U.uint(16), B, S, B, U.uint(8), B, B, U.darray(U.uint(8))),
        U.tup(U.darray(U.uint(16)), B, A, B, B, B, U.uint(64), B, S, U.uint(8)), U.sarray(U.tup(S, B, U.uint(8), B, S), 2),
        U.tup(U.uint(64)), U.tup(B), U.tup(S), U.tup(U.tup(), U.uint(8)), U.tup(U.sarray(U.uint(8), 0), U.uint(64)),
        U.tup(A, A, A, A, A, A, A, A, S, U.uint(32), S),          # head offsets >= 256
        U.tup(U.sarray(U.BYTE, 300), U.uint(16), U.sarray(U.BYTE, 256), B),
        # all-static tuples whose LAST member is a byte range starting at / around offset 256 (the suffix form of the slice)
        U.tup(U.sarray(U.BYTE, 256), U.sarray(U.BYTE, 4)), U.tup(U.sarray(U.BYTE, 255), U.sarray(U.BYTE, 4)),
        U.tup(A, A, A, A, A, A, A, A, A), U.tup(U.sarray(U.uint(64), 40), U.tup(U.uint(8), A)),
        # tuples WITH a dynamic member whose LAST member is a static byte range (address, byte[n], T[n], static tuple) behind a static
        # member: the slice must stop at the end of the head, not run on into the tail section
        U.tup(S, U.uint(8), A), U.tup(S, U.uint(64), U.sarray(U.BYTE, 4)), U.tup(U.darray(U.uint(8)), U.uint(16), U.tup(U.uint(8), U.uint(8))),
        U.tup(U.uint(8), S, U.uint(16), U.sarray(U.uint(16), 3)), U.tup(S, U.uint(8), B, A), U.tup(S, S, U.sarray(U.BYTE, 2), U.tup(A, U.uint(8))),
        U.tup(U.sarray(U.BYTE, 1000), U.uint(64), A), U.sarray(U.tup(A, A, A, A, A, A, A, A, A), 2),
        U.sarray(U.tup(B, S), 3), U.darray(U.tup(B, U.darray(U.uint(16)))), U.darray(U.darray(S)),
        U.sarray(B, 17), U.darray(B), U.sarray(U.sarray(B, 3), 3), U.darray(U.sarray(B, 9)),
        U.sarray(S, 2), U.darray(S), U.sarray(U.tup(), 3), U.darray(U.sarray(U.uint(8), 0)),
        U.sarray(U.uint(64), 4), U.darray(U.uint(32)), U.darray(A), U.sarray(U.tup(U.uint(8), B, B), 5),
    ]]

    # the hand-picked layouts first: under load the time budget of the end-to-end part must cut random shapes, not these
    types.sort(key=lambda ts: 0 if ts[1] == "handpicked" else 1)

    # ---- descriptors: model vs real
    descr_n, descr_bad = 0, 0
    for t, _src in types:
        spec = U.to_pyteal(abi, t)
        a = drv.ask(f"c07-descr {U.sig(t)}")
        dyn = spec.is_dynamic()
        try:
            bl = str(spec.byte_length_static())
        except ValueError:
            bl = "err"
        sd = "-"
        if hasattr(spec, "_stride"):
            try:
                sd = str(spec._stride())
            except ValueError:
                sd = "err"
        w = a.split()
        got = (w[1], "err" if w[2].startswith("err.") else w[2], "err" if w[3].startswith("err.") else w[3]) if len(w) == 4 and w[0] == "ok" else None
        descr_n += 1
        if got != ("1" if dyn else "0", bl, sd):
            descr_bad += 1
            if descr_bad <= 3:
                rep.violation(f"descriptor model differs from the real TypeSpec for {U.sig(t)}: real (is_dynamic, byte_length_static, _stride) = {(dyn, bl, sd)}, model {a}",
                              {"kind": "descr", "type": U.sig(t), "model": a, "real": [dyn, bl, sd]}, no_input=True)

    # ---- end to end
    rv = rng("c07-values")
    rp = rng("c07-probes")
    evals, distinct = 0, set()
    samples = []
    lean_dec_n, lean_dec_bad = 0, 0
    all_combos = COMBOS
    ci = 0
    # budget of the end-to-end part, counted from the end of the proof stage (whose duration depends on machine load)
    deadline = time.time() + (520 if thorough else 40)
    skipped_time = 0
    for ti, (t, src) in enumerate(types):
        if time.time() > deadline:
            skipped_time = len(types) - ti
            break
        vals = []
        for _ in range(3 if thorough else 2):
            v, enc = gen_value_bounded(rv, t)
            if v is not None:
                vals.append((v, enc))
        if not vals:
            st.inc("skipped", "value_too_long")
            continue
        vseed = rp.randrange(1 << 30)
        spec = specs.spec(t, random.Random(vseed))
        st.inc("type_source", src)
        st.inc("shape", shape_class(t))
        st.inc("spec_class", type(spec).__name__)
        # combos: exhaustive + handpicked shapes under all nine, the rest under three (rotating)
        if thorough or src in ("handpicked",) or ti % 7 == 0:
            combos = all_combos
        else:
            combos = [all_combos[(ci + k * 4) % 9] for k in range(3)]
            ci += 1
        probes = gen_probes(rp, abi, spec, t, [v for v, _ in vals], True, 6 if thorough else 3)
        # at most 30 logs per program
        for k in range(0, len(probes), 30):
            chunk = probes[k:k + 30]
            # keep the logged volume realistic
            evals += check_case(ctx, t, vseed, vals, chunk, combos, "inrange", src)
            for p in chunk:
                st.inc("leaf", p.leaf)
                st.inc("path_depth", str(len(p.steps)))
                for (kd, _i), sty, nm in zip(p.steps, p.styles, p.named):
                    st.inc("step_kind", {"t": "tuple_index", "c": "array_index_python_int", "e": "array_index_runtime"}[kd])
                    st.inc("materialisation", sty)
                distinct.add((U.sig(t), p.steps_text(), p.leaf))
        # Lean Arc4.decode as second oracle: decode the whole input and compare with the value
        for v, enc in vals[:1]:
            a = drv.ask(f"arc4-decode {U.sig(t)} {hexs(enc)}")
            lean_dec_n += 1
            ok = a.startswith("ok ") and U.parse_value(t, a[3:]) == U.canonical(t, v)
            if not ok:
                lean_dec_bad += 1
                if lean_dec_bad <= 3:
                    rep.violation(f"Lean Arc4.decode disagrees with the value algosdk encoded ({U.sig(t)})",
                                  {"kind": "arc4-decode", "type": U.sig(t), "hex": hexs(enc), "lean": a[:300]}, no_input=True)
        # plan shapes (distribution of the decode call shapes exercised)
        if t[0] == "tuple":
            for i in range(len(t[1])):
                a = drv.ask(f"c07-plan {U.sig(t)} {i}")
                w = a.split()
                if len(w) == 2 and w[0] == "ok":
                    parts = w[1].split(":")
                    shape = parts[0] if parts[0] == "bit" else "dec(" + ",".join(x.split(".")[0] for x in parts[1:]) + ")"
                    st.inc("tuple_call_shape", shape)
        # out of range
        arr_paths = [[]] if elem_type(t) is not None else []
        if t[0] == "tuple":
            arr_paths += [[("t", i)] for i, x in enumerate(t[1]) if elem_type(x) is not None][:3]
        for ap in arr_paths:
            at = reach_type(t, ap)
            for v, enc in vals[:1]:
                tt, vv = t, v
                for s in ap:
                    tt, vv = step_value(tt, vv, s)
                ln = len(as_seq(tt, vv))
                oob_combos = combos if (thorough or src == "handpicked") else combos[:2]
                for pos in [ln, ln + 1, 2 ** 16 - 1, 2 ** 64 - 1]:
                    p = Probe(ap + [("e", pos)], "encode", [rp.choice(STYLES) for _ in range(len(ap) + 1)], [False] * (len(ap) + 1))
                    evals += check_case(ctx, t, vseed, [(v, enc)], [p], oob_combos, "oob", src)
                    st.inc("oob_index", {ln: "len", ln + 1: "len+1"}.get(pos, "2^16-1" if pos == 2 ** 16 - 1 else "2^64-1"))
                    st.inc("oob_kind", "runtime/" + ("bool" if elem_type(at) == U.BOOL else "dynamic" if U.is_dynamic(elem_type(at)) else "static"))
                for pos in [ln, ln + 1, 2 ** 16 - 1]:
                    p = Probe(ap + [("c", pos)], "encode", ["store_into"] * (len(ap) + 1), [False] * (len(ap) + 1))
                    if static_len(at) is not None:
                        # StaticArray.__getitem__ must reject at build time (and the model too)
                        kind, text = compile_program(pt, abi, specs, t, vseed, [p], combos[0][0], combos[0][1])
                        m = model_path(drv, t, enc, p)
                        evals += 1
                        st.inc("oob_kind", "python_int/static_array_rejected_at_build" if kind == "builderr" else "python_int/static_array_ACCEPTED")
                        if kind != "builderr":
                            rep.violation(f"Python-int index {pos} >= length {ln} into {U.sig(at)} is accepted at build time",
                                          {"type": U.sig(t), "vseed": vseed, "probes": [p.to_json()], "backend": combos[0][0], "version": combos[0][1],
                                           "mode": "oob", "value_hex": hexs(enc)})
                        if m[0] != "builderr":
                            rep.violation(f"Lean model accepts a Python-int index the real code rejects at build time: {m}",
                                          {"kind": "model", "type": U.sig(t), "probe": p.to_json()}, no_input=True)
                    else:
                        evals += check_case(ctx, t, vseed, [(v, enc)], [p], oob_combos[:1], "oob", src)
                        st.inc("oob_kind", "python_int/dynamic_array")
        if len(samples) < 6 and src == "random":
            samples.append({"type": U.sig(t), "value": U.value_sexp(t, vals[0][0])[:160], "probes": [p.steps_text() + " " + p.leaf for p in probes[:6]]})

    # ---- the Lean counterexamples replayed on the real code (always)
    cex = [
        (U.sarray(U.BOOL, 3), [True, True, True], 5),
        (U.sarray(U.STRING, 2), ["", ""], 2),
        (U.sarray(U.tup(), 3), [[], [], []], 100),
    ]
    for t, v, pos in cex:
        enc = U.sdk_encode(t, v)
        p = Probe([("e", pos)], "encode")
        evals += check_case(ctx, t, 0, [(v, enc)], [p], COMBOS, "oob", "lean-counterexample")

    # model <-> code differences that are not themselves failing inputs of the property: after the real ones
    for what, rpl in ctx["deferred"][:3]:
        rep.violation(what[:600], rpl, no_input=True)

    if not st_proofs.ok and not rep.violations:
        rep.violation("proofs of C07 do not check: " + "; ".join(st_proofs.problems)[:300],
                      {"theorem": "PyTealV.Proofs.C07", "problems": st_proofs.problems, "log": st_proofs.log[-3000:]}, no_input=True)

    rep.coverage.update({
        "evaluations": evals,
        "distinct_nontrivial": len(distinct),
        "types": len(types) - skipped_time,
        "types_not_reached_before_deadline": skipped_time,
        "programs_compiled_and_executed": ctx["programs"],
        "executions_on_lean_avm": mach.execs,
        "descriptor_comparisons": descr_n,
        "descriptor_mismatches": descr_bad,
        "wrong_component": ctx["wrong"],
        "model_vs_real_mismatches": ctx["model_mismatch"],
        "oob_runs_that_failed_as_required": ctx["oob_failed"],
        "unexpected_build_errors": ctx["builderrs"],
        "lean_arc4_decode_checks": lean_dec_n,
        "lean_arc4_decode_of_logged_components": ctx["lean_dec_logged"],
        "rule": "every log of the real program (real compiler, Lean AVM) == algosdk encoding / get() / length() of the component reached in the Python value "
                "== answer of the Lean model on the same bytes; out-of-range run-time indices and Python-int indices into dynamic arrays must fail, "
                "Python-int indices >= length into static arrays must be rejected at build time; Lean Arc4.decode of the input == the value",
        "distribution": st.d,
        "samples": samples,
        "named_tuple_classes": specs.n,
    })
    rep.assumptions += [
        "inputs are reference (algosdk) encodings of well-typed values, at most 1000 bytes so that the logged component fits the 1024-byte log budget of a transaction",
        "PyTeal's per-expression stack-trace formatting is stubbed while programs are built and compiled (families.quiet_traces); it is diagnostics only",
        "uint widths 8/16/32/64 (the only ones PyTeal has); ufixed is outside PyTeal",
        "execution on the Lean AVM (trusted opcode semantics), not on algod",
        "zero-width element types (`()`, `T[0]`): an out-of-range access returns the empty encoding - reported under its own known-finding key",
    ]
    rep.notes.append(f"wall split: proofs {round(t_proofs, 1)}s, total {round(time.time() - t0, 1)}s")
    drv.close()
    return rep.finish()


def replay(path: str) -> int:
    body = json.loads(open(path).read())
    if "probes" not in body:
        print(json.dumps(body, indent=1)[:4000])
        return 0
    pt, abi = load_pyteal()
    drv = Driver()
    specs = Specs(abi)
    mach = Machine(drv)
    t = U.parse_sig(body["type"])
    probes = [Probe.from_json(p) for p in body["probes"]]
    enc = b"" if body["value_hex"] == "-" else bytes.fromhex(body["value_hex"])
    kind, teal = compile_program(pt, abi, specs, t, body["vseed"], probes, body["backend"], body["version"])
    print("type", body["type"], "input", hexs(enc), "backend", body["backend"], "version", body["version"])
    print("probes", [p.steps_text() + " " + p.leaf for p in probes])
    if kind == "builderr":
        print("real: rejected at build time:", teal)
    else:
        print(teal)
        mach.load(teal)
        print("real outcome:", mach.run(body["version"], [enc] + index_args(probes)))
    try:
        v = U.sdk_type(t).decode(enc)
        for p in probes:
            try:
                tt, vv = t, v
                for s in p.steps:
                    tt, vv = step_value(tt, vv, s)
                print("expected", p.steps_text(), p.leaf, "->", hexs(leaf_expected(tt, vv, p.leaf)))
            except IndexError:
                print("expected", p.steps_text(), p.leaf, "-> index out of range: the program must fail")
    except Exception as e:  # noqa: BLE001
        print("algosdk cannot decode the input:", repr(e)[:200])
    for p in probes:
        print("model", p.steps_text(), p.leaf, "->", model_path(drv, t, enc, p))
    drv.close()
    return 0
