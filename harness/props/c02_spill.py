"""C02 (part) — recursion spill/restore: tie of the Lean model `PyTealV.Models.Spill` to the real
`pyteal.compiler.subroutines.spillLocalSlotsDuringRecursion` / `findRecursionPoints`, plus an
execution oracle on the REAL emitted ops.

Not a registered check of its own: the C02 check calls `run_spill_tie(rep, tier)`.  (A small
stand-alone driver is at the bottom: `./check c02_spill --tier quick` or
`python harness/props/c02_spill.py quick`.)

What is compared, for every point of the grid
    numArgs 0..8  x  nSlots 0..8 (several slot-number patterns)  x  caller kind {none, uint64, abi}
    x  callee kind {none, uint64, abi-output}  x  version {4, 5 (..10 thorough)}  x  shape
      shape "mutual":  caller -> callee -> caller      (two real SubroutineDefinitions)
      shape "self":    caller -> caller                (callee is the caller)
      shape "norec":   caller -> callee, callee does not call back (nothing may be emitted)
 1. TIE: the real function is run on the synthetic routine body
        [int 21, int 22, callsub other, pop, int 100, .., int 100+numArgs-1, callsub callee, retsub]
    (other: a routine that cannot re-enter) and its output is compared op for op with
    [.., callsub other, pop, int 100, ..] ++ spillBefore ++ [callsub callee] ++ spillAfter ++ [retsub]
    of the Lean model (`c02-spill`), the re-entry decision being the
    model's `recursionPoints` (`c02-recpoints`).
 2. ORACLE on the real code: the op list returned by the real function is assembled, as it is,
    into a TEAL program that first fills the caller's slots and pushes pending operands; the
    callee checks and pops its arguments, overwrites all the caller's slots and leaves 0/1 value;
    after the returned ops the program asserts that the stack is `rets ++ pending` and that every
    slot holds its old value.  The program is executed in the Lean AVM (driver `exec`).
    This is the failing-input search: a run that does not approve is a concrete failing input of
    the property on the unchanged code.
 3. `findRecursionPoints` / `graph_search` are compared with the model on all graphs with <= 3
    nodes and on random graphs with up to 7 nodes.
 4. END TO END: mutually recursive programs (f <-> g of all return-kind combinations) built with
    the real decorators, compiled with the real `compileTeal` and executed in the Lean AVM; each
    routine asserts that its parameters, locals and pending operand survive the call.
"""
from __future__ import annotations

import json
import sys
from collections import Counter
from pathlib import Path

_H = str(Path(__file__).resolve().parent.parent)
if _H not in sys.path:
    sys.path.insert(0, _H)

import common
from common import Driver, Report, rng

PROOF_MODULES = ["PyTealV.Proofs.C02Spill", "PyTealV.Proofs.C02RecPoints"]
TRUSTED = [
    "AVM opcode semantics lean/PyTealV/Avm/Sem.lean for load/store/swap/pop/dig/cover/uncover (execSimple, execPrim)",
    "spill tie: harness/props/c02_spill.py renders real TealOps as text and compares them with the model's op lists",
    "the callee is modelled as an arbitrary state transformer that pops numArgs values and pushes 0/1 value on an unchanged rest of the stack",
]
KEY_OLD = "spill-restore-uses-caller-return-type"

_pt = None


def pt():
    """the pyteal package of the tree under test (VERIF_REPO or /repo), imported at run time"""
    global _pt
    if _pt is None:
        if str(common.REPO) not in sys.path:
            sys.path.insert(0, str(common.REPO))
        import pyteal

        _pt = pyteal
    return _pt


# ----------------------------------------------------------------------------- real objects


def make_impl(n: int, abi_out: bool, name: str):
    P = pt()
    params = [f"a{i}" for i in range(n)]
    sig = ", ".join(params)
    if abi_out:
        sig += (", " if params else "") + "*, output: pt.abi.Uint64"
    src = f"def {name}({sig}):\n    return None\n"
    ns = {"pt": P}
    exec(compile(src, "<c02_spill>", "exec", dont_inherit=True), ns)
    return ns[name]


def make_sub(kind: str, n: int, name: str):
    """a real SubroutineDefinition of the given return kind with n (by-value) parameters"""
    P = pt()
    if kind == "none":
        return P.SubroutineDefinition(make_impl(n, False, name), P.TealType.none)
    if kind == "uint64":
        return P.SubroutineDefinition(make_impl(n, False, name), P.TealType.uint64)
    if kind == "abi":
        return P.ABIReturnSubroutine(make_impl(n, True, name)).subroutine
    raise ValueError(kind)


def leaves_value(kind: str) -> bool:
    return kind in ("uint64", "abi")


def render_op(op) -> str:
    """TealOp -> the model's text form (`load:3`, `swap`)"""
    return ":".join([str(op.getOp())] + [str(a) for a in op.args])


def real_spill(case: dict):
    """Build real definitions + synthetic body, run the real function.
    Returns (rendered ops of the caller with markers, untouched flag of the other routines)."""
    P = pt()
    from pyteal.compiler.subroutines import spillLocalSlotsDuringRecursion

    shape = case["shape"]
    caller_args = case["numArgs"] if shape == "self" else case["callerArgs"]
    caller = make_sub(case["caller"], caller_args, "caller")
    callee = caller if shape == "self" else make_sub(case["callee"], case["numArgs"], "callee")
    other = make_sub("uint64", 2, "other")
    call_other = P.TealOp(None, P.Op.callsub, other)
    call_callee = P.TealOp(None, P.Op.callsub, callee)
    ret = P.TealOp(None, P.Op.retsub)
    # a realistic straight-line body: push other's arguments, call it, drop its result, push the
    # callee's arguments, call it, return
    body = ([P.TealOp(None, P.Op.int, 21), P.TealOp(None, P.Op.int, 22), call_other, P.TealOp(None, P.Op.pop)]
            + [P.TealOp(None, P.Op.int, 100 + j) for j in range(case["numArgs"])] + [call_callee, ret])
    main_ops = [P.TealOp(None, P.Op.callsub, caller), P.TealOp(None, P.Op.int, 1), P.TealOp(None, P.Op.return_)]
    other_ops = [P.TealOp(None, P.Op.int, 0), P.TealOp(None, P.Op.retsub)]
    mapping = {None: main_ops, caller: body, other: other_ops}
    graph = {caller: {callee, other}, other: set()}
    local = {None: set(), caller: set(case["slots"]), other: {200}}
    ids = {caller: 0, other: 2}
    if shape != "self":
        callee_ops = [P.TealOp(None, P.Op.callsub, caller), P.TealOp(None, P.Op.retsub)] if shape == "mutual" else [P.TealOp(None, P.Op.retsub)]
        mapping[callee] = callee_ops
        graph[callee] = {caller} if shape == "mutual" else set()
        # the callee has no local slots: nothing is ever inserted into it
        local[callee] = set()
        ids[callee] = 1
    snapshot = {k: list(v) for k, v in mapping.items()}
    spillLocalSlotsDuringRecursion(case["version"], mapping, graph, local)
    out = []
    for op in mapping[caller]:
        if op is call_other:
            out.append("<other>")
        elif op is call_callee:
            out.append("<call>")
        elif op is ret:
            out.append("<ret>")
        else:
            out.append(render_op(op))
    untouched = all(len(mapping[k]) == len(snapshot[k]) and all(a is b for a, b in zip(mapping[k], snapshot[k])) for k in mapping if k is not caller)
    g = {ids[k]: sorted(ids[x] for x in v) for k, v in graph.items()}
    return out, untouched, g, (caller, callee)


# ----------------------------------------------------------------------------- model side


def graph_word(g: dict) -> str:
    if not g:
        return "-"
    return ";".join(f"{k}:{','.join(str(x) for x in g[k])}" for k in g)


def parse_graph_answer(ans: str):
    w = ans.split(" ")
    if w[0] != "ok":
        return None
    if w[1] == "-":
        return {}
    res = {}
    for e in w[1].split(";"):
        k, cs = e.split(":")
        res[int(k)] = [int(x) for x in cs.split(",")] if cs else []
    return res


def model_spill(d: Driver, slots, num_args, ret: bool, cover: bool):
    sl = ",".join(str(s) for s in sorted(slots)) if slots else "-"
    ans = d.ask(f"c02-spill {sl} {num_args} {int(ret)} {int(cover)}")
    w = ans.split(" ")
    if w[0] != "ok" or len(w) != 3:
        raise common.ToolFailure("c02-spill: " + ans)
    f = lambda x: [] if x == "-" else x.split(",")
    return f(w[1]), f(w[2])


def body_prefix(case: dict) -> list[str]:
    return ["int:21", "int:22", "<other>", "pop"] + [f"int:{100 + j}" for j in range(case["numArgs"])]


def model_expected(d: Driver, case: dict, g: dict):
    rp = parse_graph_answer(d.ask("c02-recpoints " + graph_word(g)))
    if rp is None:
        raise common.ToolFailure("c02-recpoints failed on " + graph_word(g))
    callee_id = 0 if case["shape"] == "self" else 1
    reenters = callee_id in rp.get(0, [])
    callee_kind = case["caller"] if case["shape"] == "self" else case["callee"]
    before, after = ([], [])
    if reenters:
        before, after = model_spill(d, case["slots"], case["numArgs"], leaves_value(callee_kind), case["version"] >= 5)
    return body_prefix(case) + before + ["<call>"] + after + ["<ret>"], reenters


# ----------------------------------------------------------------------------- execution oracle

PENDING = [7777, 8888]      # operands already computed at the call site (8888 on top)
RETVAL = 555
CLOBBER = 4242


def oracle_teal(case: dict, real_ops: list[str], callee_leaves: bool) -> str:
    """A TEAL program that executes exactly the op list the REAL function returned for the
    caller (markers replaced by the calls), after filling the caller's slots and pushing two
    pending operands.  Approves iff the stack and the slots are what they were."""
    n = case["numArgs"]
    slots = sorted(case["slots"])
    L = [f"#pragma version {case['version']}"]
    for i, s in enumerate(slots):
        L += [f"int {1000 + i}", f"store {s}"]
    for v in PENDING:
        L.append(f"int {v}")
    for o in real_ops:
        if o == "<other>":
            L.append("callsub other")
        elif o == "<call>":
            L.append("callsub callee")
        elif o == "<ret>":
            break
        else:
            L.append(o.replace(":", " "))
    if callee_leaves:
        L += [f"int {RETVAL}", "==", "assert"]
    for v in reversed(PENDING):
        L += [f"int {v}", "==", "assert"]
    for i, s in enumerate(slots):
        L += [f"load {s}", f"int {1000 + i}", "==", "assert"]
    L += ["int 1", "return", "callee:"]
    for j in reversed(range(n)):
        L += [f"int {100 + j}", "==", "assert"]
    for s in slots:
        L += [f"int {CLOBBER}", f"store {s}"]
    if callee_leaves:
        L.append(f"int {RETVAL}")
    # `other` cannot re-enter the caller, hence cannot touch its local slots
    L += ["retsub", "other:", "int 22", "==", "assert", "int 21", "==", "assert", "int 5", "retsub"]
    return "\n".join(L) + "\n"


_ctx_ready: set = set()


def exec_oracle(d: Driver, teal: str, version: int) -> str:
    from recipes import gen_ctx, render_ctx

    cid = f"c02s{version}"
    if (id(d), cid) not in _ctx_ready:
        ctx = gen_ctx(rng("c02-spill-ctx"), "app", max(version, 4))
        a = d.ask(f"ctx {cid} {render_ctx(ctx)}")
        if not a.startswith("ok"):
            raise common.ToolFailure("ctx: " + a)
        _ctx_ready.add((id(d), cid))
    a = d.ask(f"teal c02s {teal.encode('utf-8').hex()}")
    if not a.startswith("ok"):
        return "perr " + a
    return d.ask(f"exec c02s {cid} 20000")


# ----------------------------------------------------------------------------- the grid


def slot_patterns(k: int, r, extra: int):
    if k == 0:
        return [[]]
    pats = [list(range(k)), list(range(256 - k, 256))]
    for _ in range(extra):
        pats.append(sorted(r.sample(range(256), k)))
    # de-duplicate, keep order
    seen, out = set(), []
    for p in pats:
        if tuple(p) not in seen:
            seen.add(tuple(p))
            out.append(p)
    return out


def grid(tier: str):
    r = rng("c02-spill-grid")
    versions = [4, 5] if tier == "quick" else [4, 5, 6, 7, 8, 9, 10]
    extra = 1 if tier == "quick" else 4
    kinds = ["none", "uint64", "abi"]
    for n in range(0, 9):
        for k in range(0, 9):
            for slots in slot_patterns(k, r, extra):
                for ver in versions:
                    for caller in kinds:
                        for callee in kinds:
                            yield dict(shape="mutual", numArgs=n, slots=slots, caller=caller, callee=callee, version=ver, callerArgs=r.randrange(0, 5))
                        yield dict(shape="self", numArgs=n, slots=slots, caller=caller, callee=caller, version=ver, callerArgs=n)
                    if k in (1, 3) and n in (0, 2):
                        yield dict(shape="norec", numArgs=n, slots=slots, caller="none", callee="uint64", version=ver, callerArgs=1)


def flavour(case: dict, spilled: bool) -> str:
    if not spilled:
        return "nothing-emitted"
    k, n = len(case["slots"]), case["numArgs"]
    if case["version"] < 5:
        return "dig"
    if k < n:
        return "cover-per-slot"
    if n == 0:
        return "loads-only"
    return "swap" if k + n - 1 == 1 else "uncover-per-arg"


def run_spill_tie(rep: Report, tier: str) -> dict:
    d = Driver()
    stats = Counter()
    flav = Counter()
    restore = Counter()
    samples = []
    distinct = set()
    mismatches = 0
    oracle_fail = 0
    recorded = Counter()
    for case in grid(tier):
        stats["cases"] += 1
        try:
            real, untouched, g, _ = real_spill(case)
        except Exception as e:  # noqa: BLE001 - the real code must not raise on this grid
            stats["real-raised"] += 1
            rep.violation(f"spillLocalSlotsDuringRecursion raised {type(e).__name__}: {e}", {"kind": "c02-spill", "case": case})
            continue
        expected, reenters = model_expected(d, case, g)
        spilled = reenters and len(case["slots"]) > 0
        fl = flavour(case, spilled)
        flav[fl] += 1
        callee_kind = case["caller"] if case["shape"] == "self" else case["callee"]
        distinct.add((case["numArgs"], len(case["slots"]), case["version"] >= 5, leaves_value(callee_kind), leaves_value(case["caller"]), case["shape"]))
        if spilled:
            kk = len(case["slots"])
            restore["no-value" if not leaves_value(callee_kind) else "swap" if kk == 1 else "cover-n" if case["version"] >= 5 else "hide-in-slot0"] += 1
        if len(samples) < 6 and spilled and stats["cases"] % 37 == 0:
            samples.append({"case": case, "real": real})
        ok_tie = real == expected and untouched
        # ---- oracle on the real ops (independent of the model)
        verdict = None
        teal = None
        if case["shape"] != "norec" and real.count("<call>") == 1 and real.count("<other>") == 1 and real.count("<ret>") == 1:
            teal = oracle_teal(case, real, leaves_value(callee_kind))
            verdict = exec_oracle(d, teal, case["version"])
            stats["oracle-runs"] += 1
            if not verdict.startswith("done u1 "):
                oracle_fail += 1
        if ok_tie:
            stats["tie-agree"] += 1
        else:
            mismatches += 1
        if ok_tie and (verdict is None or verdict.startswith("done u1 ")):
            continue
        # ---- classify
        key = None
        if case["shape"] != "norec" and spilled:
            ob, oa = model_spill(d, case["slots"], case["numArgs"], case["caller"] == "uint64", case["version"] >= 5)
            if real == body_prefix(case) + ob + ["<call>"] + oa + ["<ret>"] and leaves_value(callee_kind) != (case["caller"] == "uint64"):
                key = KEY_OLD
        failing = verdict is not None and not verdict.startswith("done u1 ")
        # at most two replays per (tie, oracle, flavour, restore-relevant kinds) class; the rest is counted
        cls = (ok_tie, failing, fl, leaves_value(callee_kind), case["caller"] == "uint64", key)
        recorded[cls] += 1
        if recorded[cls] > 2:
            stats["further-deviations-not-recorded"] += 1
            continue
        what = ("spill/restore ops of the real code " + ("differ from the model" if not ok_tie else "agree with the model")
                + (f"; executing the real ops breaks the caller's state: {verdict}" if failing else "; executing them preserves stack and slots")
                + f" [numArgs={case['numArgs']} slots={case['slots']} caller={case['caller']} callee={callee_kind} v{case['version']} {case['shape']}]")
        rep.violation(what, {"kind": "c02-spill", "case": case, "real": real, "model": expected, "untouched_others": untouched,
                             "teal": teal, "avm": verdict}, key=key, no_input=not failing)
    rp = run_recpoints_tie(rep, tier, d)
    e2e = run_spill_e2e(rep, tier, d)
    d.close()
    cov = {
        "spill_grid_cases": stats["cases"],
        "spill_tie_agree": stats["tie-agree"],
        "spill_tie_mismatch": mismatches,
        "spill_oracle_runs": stats["oracle-runs"],
        "spill_oracle_failures": oracle_fail,
        "spill_deviations_not_recorded_individually": stats["further-deviations-not-recorded"],
        "spill_distinct_parameter_points": len(distinct),
        "spill_flavours": dict(flav),
        "spill_restore_variants": dict(restore),
        "spill_rule": "exhaustive: numArgs 0..8 x nSlots 0..8 x slot patterns x caller/callee kinds {none,uint64,abi} x versions x {mutual,self,norec}",
        "spill_samples": samples,
        "recpoints": rp,
        "spill_e2e": e2e,
    }
    return cov


# ----------------------------------------------------------------------------- compiled programs


def _wrap(P, name: str, params: list[str], abi_out: bool, body):
    """a python function with exactly the given positional parameters (and `output` for ABI)"""
    sig = ", ".join(params) + (", *, output: pt.abi.Uint64" if abi_out else "")
    call = ", ".join(params) + (", output=output" if abi_out else "")
    src = f"def {name}({sig}):\n    return body({call})\n"
    ns = {"pt": P, "body": body}
    exec(compile(src, "<c02_spill_e2e>", "exec", dont_inherit=True), ns)
    return ns[name]


def _decorate(P, kind: str, fn):
    if kind == "none":
        return P.Subroutine(P.TealType.none)(fn)
    if kind == "uint64":
        return P.Subroutine(P.TealType.uint64)(fn)
    return P.ABIReturnSubroutine(fn)


def e2e_program(fk: str, gk: str, gn: int, nloc: int):
    """f (kind fk, 1 parameter, nloc extra locals) and g (kind gk, gn parameters) call each other;
    every routine asserts after the call that its own parameters / locals / pending operand are
    what they were.  The program approves iff they all are."""
    P = pt()
    I = P.Int
    h = {}
    exp_acc = {"none": 7, "uint64": 7 + 99, "abi": 7 + 99}[gk]

    def f_body(d, output=None):
        xs = [P.ScratchVar(P.TealType.uint64) for _ in range(nloc)]
        acc = P.ScratchVar(P.TealType.uint64)
        extra = [I(40 + j) for j in range(gn - 1)]
        call = h["g"](d - I(1), *extra)
        if gk == "none":
            use = P.Seq(call, acc.store(I(7)))
        elif gk == "uint64":
            use = acc.store(I(7) + call)          # operand 7 is pending while g runs
        else:
            tmp = P.abi.Uint64()
            use = P.Seq(call.store_into(tmp), acc.store(I(7) + tmp.get()))
        st = [x.store(d * I(10) + I(i + 1)) for i, x in enumerate(xs)]
        st.append(P.If(d > I(0), use, acc.store(I(exp_acc))))
        st += [P.Assert(x.load() == d * I(10) + I(i + 1)) for i, x in enumerate(xs)]
        st.append(P.Assert(acc.load() == I(exp_acc)))
        if fk == "uint64":
            st.append(I(55) + d)
        elif fk == "abi":
            st.append(output.set(I(55) + d))
        return P.Seq(*st)

    def g_body(e, *extras, output=None):
        st = [P.Assert(x == I(40 + j)) for j, x in enumerate(extras)]
        call = h["f"](e)
        if fk == "none":
            st.append(call)
        elif fk == "uint64":
            st.append(P.Assert(I(3) + call == I(58) + e))
        else:
            tmp = P.abi.Uint64()
            st += [call.store_into(tmp), P.Assert(tmp.get() == I(55) + e)]
        st += [P.Assert(x == I(40 + j)) for j, x in enumerate(extras)]
        if gk == "uint64":
            st.append(I(99))
        elif gk == "abi":
            st.append(output.set(I(99)))
        return P.Seq(*st)

    h["f"] = _decorate(P, fk, _wrap(P, "f", ["d"], fk == "abi", f_body))
    h["g"] = _decorate(P, gk, _wrap(P, "g", ["e"] + [f"x{j}" for j in range(gn - 1)], gk == "abi", g_body))
    top = h["f"](I(2))
    if fk == "none":
        main = P.Seq(top, I(1))
    elif fk == "uint64":
        main = P.Seq(P.Assert(top == I(57)), I(1))
    else:
        tmp = P.abi.Uint64()
        main = P.Seq(top.store_into(tmp), P.Assert(tmp.get() == I(57)), I(1))
    return main


def run_spill_e2e(rep: Report, tier: str, d: Driver) -> dict:
    """Real compiled mutually recursive programs, executed in the Lean AVM."""
    P = pt()
    versions = [4, 5, 8] if tier == "quick" else [4, 5, 6, 7, 8, 9, 10]
    kinds = ["none", "uint64", "abi"]
    runs, bad, skipped = 0, 0, Counter()
    outcomes = Counter()
    for ver in versions:
        optsets = [None]
        if ver >= 8:
            optsets.append(P.OptimizeOptions(frame_pointers=False, scratch_slots=False))
        for opts in optsets:
            for fk in kinds:
                for gk in kinds:
                    if fk == "abi" and gk == "abi":
                        # not constructible: ReturnedValue.store_into evaluates the callee's declaration
                        # eagerly (pyteal/ast/abi/type.py "HANG NOTE"), an all-ABI cycle never terminates
                        skipped["abi<->abi cycle not constructible (store_into evaluates eagerly)"] += 6
                        continue
                    for gn in (1, 2, 3):
                        for nloc in (1, 2):
                            tag = dict(fk=fk, gk=gk, gn=gn, nloc=nloc, version=ver, frame_pointers=None if opts is None else False)
                            try:
                                prog = e2e_program(fk, gk, gn, nloc)
                                kw = {} if opts is None else {"optimize": opts}
                                teal = P.compileTeal(prog, P.Mode.Application, version=ver, **kw)
                            except Exception as e:  # noqa: BLE001
                                skipped[type(e).__name__ + ": " + str(e)[:80]] += 1
                                continue
                            v = exec_oracle(d, teal, ver)
                            runs += 1
                            outcomes[v.split(" [")[0][:40]] += 1
                            if not v.startswith("done u1 "):
                                bad += 1
                                if bad <= 4:
                                    key = KEY_OLD if (gk != "none") != (fk == "uint64") else None
                                    rep.violation(f"compiled mutually recursive program does not preserve the caller's locals/operands: {v} {tag}",
                                                  {"kind": "c02-spill-e2e", "case": tag, "teal": teal, "avm": v}, key=key)
    return {"programs_executed": runs, "not_approving": bad, "outcomes": dict(outcomes), "not_compiled": dict(skipped),
            "rule": "f(kind) <-> g(kind, 1..3 params), 1..2 extra locals, versions x {default, frame_pointers off}"}


# ----------------------------------------------------------------------------- findRecursionPoints


def graph_program_check(d: Driver, g: dict, version: int = 6):
    """A program whose call graph is `g` (nodes reachable from node 0): routine a computes
    f_a(n) = n * (a + 2) + [n > 0] * sum over callees c of f_c(n - 1), reading its parameter and a local AFTER the calls -
    wrong recursion points lose them.  Returns None when the real TEAL computes f_0(3), else a description."""
    P = pt()
    nodes = sorted(g)
    if not nodes:
        return None
    sys.setrecursionlimit(max(sys.getrecursionlimit(), 20000))
    memo = {}

    def f(a, n):
        if (a, n) not in memo:
            memo[(a, n)] = (n * (a + 2) + (sum(f(c, n - 1) for c in g[a]) if n > 0 else 0)) % 2 ** 64
        return memo[(a, n)]
    subs = {}

    def make(a):
        def impl(n):
            x = P.ScratchVar(P.TealType.uint64)
            acc = P.ScratchVar(P.TealType.uint64)
            calls = [acc.store(acc.load() + subs[c](n - P.Int(1))) for c in g[a]]
            return P.Seq(x.store(n * P.Int(a + 2)), acc.store(P.Int(0)), P.If(n > P.Int(0)).Then(P.Seq(*calls)) if calls else P.Seq(),
                         acc.load() + x.load() + n - n)
        impl.__name__ = f"r{a}"
        return P.Subroutine(P.TealType.uint64)(impl)
    for a in nodes:
        subs[a] = make(a)
    depth = min(len(nodes) + 1, 6) if sum(len(v) for v in g.values()) <= 8 else 3
    want = f(nodes[0], depth)
    try:
        from families import quiet_traces
        with quiet_traces():
            teal = P.compileTeal(P.Return(subs[nodes[0]](P.Int(depth)) == P.Int(want)), P.Mode.Application, version=version,
                                 optimize=P.OptimizeOptions(scratch_slots=False, frame_pointers=False if version >= 8 else None))
    except Exception as e:  # noqa: BLE001
        return None if "recursion" in str(e).lower() else f"does not compile: {type(e).__name__}: {str(e)[:120]}"
    d.ask("ctx cg (ctx app %d (args) (group (txn (Sender (b 00)))) 0 (global) 0 (gstate))" % version)
    a = d.ask(f"teal tg {teal.encode().hex()}")
    if not a.startswith("ok"):
        return "the reference AVM cannot parse the TEAL: " + a
    out = d.ask("exec tg cg 400000")
    if out.startswith("done u1"):
        return None
    if "budget" in out or out.startswith("outOfFuel") or "overflow" in out:
        return None
    return f"call graph {g}: f_0({depth}) should be {want}; the program (it approves iff its result equals that) gives `{out[:80]}`"


def run_recpoints_tie(rep: Report, tier: str, d: Driver) -> dict:
    pt()
    from pyteal.compiler.subroutines import findRecursionPoints
    try:
        from pyteal.compiler.subroutines import graph_search
    except ImportError:        # an internal helper: its absence is not a finding (findRecursionPoints is what matters)
        graph_search = None

    r = rng("c02-recpoints")
    graphs = []
    for n in range(0, 4):
        pairs = [(a, b) for a in range(n) for b in range(n)]
        for mask in range(2 ** len(pairs)):
            g = {a: [] for a in range(n)}
            for i, (a, b) in enumerate(pairs):
                if mask >> i & 1:
                    g[a].append(b)
            graphs.append(g)
    for _ in range(300 if tier == "quick" else 5000):
        n = r.randrange(2, 8)
        p = r.choice([0.1, 0.2, 0.35, 0.6])
        g = {a: [b for b in range(n) if r.random() < p] for a in range(n)}
        for a in g:
            r.shuffle(g[a])
        graphs.append(g)
    answers = d.ask_many(["c02-recpoints " + graph_word(g) for g in graphs])
    agree = 0
    cyc = 0
    bad = 0
    for g, a in zip(graphs, answers):
        real = findRecursionPoints({k: set(v) for k, v in g.items()})
        # graph_search directly as well
        realn0 = {k: sorted(v) for k, v in real.items()}
        direct = {k: sorted(c for c in g[k] if graph_search({x: set(y) for x, y in g.items()}, c, k)) for k in g} if graph_search else realn0
        m = parse_graph_answer(a)
        realn = {k: sorted(v) for k, v in real.items()}
        if any(realn.values()):
            cyc += 1
        if m is not None and {k: sorted(v) for k, v in m.items()} == realn == direct:
            agree += 1
        elif (bad := bad + 1) <= 3:
            # search for an input of the PROPERTY: a program with this call graph, executed
            gg = {k: list(v) for k, v in g.items()}
            why = None
            for start in sorted(gg):
                ren = {start: 0}
                for k in sorted(gg):
                    ren.setdefault(k, len(ren))
                why = graph_program_check(d, {ren[k]: [ren[c] for c in v] for k, v in gg.items()})
                if why:
                    break
            rep.violation("findRecursionPoints differs from the model" + (f"; {why}" if why else ""),
                          {"kind": "c02-recpoints", "graph": g, "real": realn, "direct": direct, "model": a, "program": why}, no_input=why is None)
    # graph_search itself, on (start, end) pairs: all pairs for the small graphs, sampled otherwise
    queries = []
    for g in graphs:
        nodes = list(g)
        if not nodes:
            continue
        pairs = [(a, b) for a in nodes for b in nodes]
        if len(nodes) > 3:
            pairs = [(a, a) for a in r.sample(nodes, 2)] + r.sample(pairs, 4)
        queries += [(g, a, b) for a, b in pairs]
    if graph_search is None:
        queries = []
    gs = d.ask_many([f"c02-gsearch {graph_word(g)} {a} {b}" for g, a, b in queries]) if queries else []
    gs_agree = 0
    gs_true = 0
    gs_bad = 0
    for (g, a, b), ans in zip(queries, gs):
        real = graph_search({x: set(y) for x, y in g.items()}, a, b)
        gs_true += bool(real)
        if ans == f"ok {int(real)}":
            gs_agree += 1
        elif (gs_bad := gs_bad + 1) <= 3:
            rep.violation("graph_search differs from the model", {"kind": "c02-gsearch", "graph": g, "start": a, "end": b, "real": real, "model": ans}, no_input=True)
    return {"graphs": len(graphs), "agree": agree, "graph_search_queries": len(queries), "graph_search_agree": gs_agree, "graph_search_true": gs_true, "with_recursion": cyc, "rule": "all digraphs on <= 3 nodes (1+2+16+512) + random digraphs on 2..7 nodes"}


# ----------------------------------------------------------------------------- stand-alone


def run(tier: str) -> int:
    from common import check_proofs, proof_coverage

    rep = Report("C02", tier, level="proof")
    st = check_proofs(PROOF_MODULES)
    rep.coverage.update(proof_coverage(st, "cd lean && lake build PyTealV.Proofs.C02Spill PyTealV.Proofs.C02RecPoints", TRUSTED))
    if not st.ok:
        rep.violation("proof module does not check: " + "; ".join(st.problems)[:500], {"kind": "proof", "modules": PROOF_MODULES}, no_input=True)
    cov = run_spill_tie(rep, tier)
    rep.coverage.update(cov)
    rep.coverage.update({"evaluations": cov["spill_grid_cases"] + cov["recpoints"]["graphs"], "distinct_nontrivial": cov["spill_distinct_parameter_points"]})
    # stand-alone: do not overwrite evidence/C02.json of the full check
    print(json.dumps({k: v for k, v in cov.items() if k != "spill_samples"}, indent=1))
    seen = set()
    for m in rep.known_hits:
        print(m)
    for v in rep.violations:
        line = f"VIOLATION property=C02 replay={v['replay']}" + (" no-failing-input-found" if v["no_input"] else "")
        if line not in seen:
            seen.add(line)
            print("# " + v["what"][:300])
            print(line)
    if rep.violations:
        return 1
    print(f"OK property=C02(spill part) tier={tier}")
    return 0


def replay(path: str) -> int:
    body = json.loads(open(path).read())
    print("what:", body.get("what"))
    if body.get("kind") == "c02-spill":
        case = body["case"]
        d = Driver()
        real, untouched, g, _ = real_spill(case)
        expected, _ = model_expected(d, case, g)
        print("case  :", case)
        print("real  :", " ".join(real))
        print("model :", " ".join(expected))
        callee_kind = case["caller"] if case["shape"] == "self" else case["callee"]
        if "<call>" in real:
            teal = oracle_teal(case, real, leaves_value(callee_kind))
            print(teal)
            print("avm   :", exec_oracle(d, teal, case["version"]))
        d.close()
    elif body.get("kind") == "c02-spill-e2e":
        P = pt()
        c = body["case"]
        kw = {} if c.get("frame_pointers") is None else {"optimize": P.OptimizeOptions(frame_pointers=False, scratch_slots=False)}
        teal = P.compileTeal(e2e_program(c["fk"], c["gk"], c["gn"], c["nloc"]), P.Mode.Application, version=c["version"], **kw)
        d = Driver()
        print("case  :", c)
        print(teal)
        print("recorded:", body.get("avm"))
        print("avm now :", exec_oracle(d, teal, c["version"]))
        d.close()
    elif body.get("kind") in ("c02-recpoints", "c02-gsearch"):
        pt()
        from pyteal.compiler.subroutines import findRecursionPoints, graph_search

        g = {int(k): v for k, v in body["graph"].items()}
        d = Driver()
        print("graph :", g)
        if body["kind"] == "c02-gsearch":
            print("real  :", graph_search({k: set(v) for k, v in g.items()}, body["start"], body["end"]))
            print("model :", d.ask(f"c02-gsearch {graph_word(g)} {body['start']} {body['end']}"))
        else:
            print("real  :", {k: sorted(v) for k, v in findRecursionPoints({k: set(v) for k, v in g.items()}).items()})
            print("model :", d.ask("c02-recpoints " + graph_word(g)))
        d.close()
    else:
        print(json.dumps(body, indent=1)[:4000])
    return 0


if __name__ == "__main__":
    import os

    os.environ.setdefault("ALGORAND_PYTEAL_VERIF", "1")
    if len(sys.argv) >= 3 and sys.argv[1] == "--replay":
        sys.exit(replay(sys.argv[2]))
    sys.exit(run(sys.argv[1] if len(sys.argv) > 1 else "quick"))
