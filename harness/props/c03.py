"""C03 — compile options change cost and shape, never behaviour.

Deciding method: (1) kernel-checked theorems on the model of the scratch-slot optimiser
(`slot_to_stack_sound_partial`, `optimizer_only_removes`, counterexample for the dead-store
case) tied to the real pass on generated routine graphs; (2) option-pair differential execution
of the REAL TEAL texts of one program on the AVM spec: verdict, return value, ordered effects and
user-numbered scratch slots for every pair of (scratch_slots, frame_pointers, version) settings
under which it compiles, and additionally the operand stack at every routine exit for pairs that
differ only in the scratch-slot optimisation.
"""
from __future__ import annotations

import importlib
import json
import itertools
from collections import Counter

from common import LEAN, Driver, Report, check_proofs, proof_coverage, rng
from gen import Cfg, G, required_version
from pipeline import Case
from recipes import gen_ctx, render_ctx
from shrink import prog_control_in_operand, shrink, children_paths

PROOF_MODULES = ["PyTealV.Proofs.C03OptFrameTac", "PyTealV.Proofs.C03OptFrame1", "PyTealV.Proofs.C03OptFrame2", "PyTealV.Proofs.C03OptFrame3",
                 "PyTealV.Proofs.C03OptFrame4", "PyTealV.Proofs.C03OptFrame5", "PyTealV.Proofs.C03OptFrame", "PyTealV.Proofs.C03OptLemmas", "PyTealV.Proofs.C03Opt",
                 # option independence as a theorem for the fragment of the composed compilation theorems (scratch-slot optimiser off)
                 "PyTealV.Proofs.C03Options"]
TRUSTED = [
    "Lean 4 kernel; axioms propext, Classical.choice, Quot.sound only",
    "AVM spec lean/PyTealV/Avm (both programs of a pair run on the same spec, so opcode semantics cancel out except for control and stack)",
    "harness recipe builders",
]


def existing(mods):
    return [m for m in mods if (LEAN / (m.replace(".", "/") + ".lean")).exists()]


SHARED_OPTIONS: dict = {}


def settings_for(p, need, r, tier):
    """(version, options) tuples under which the program should compile"""
    vs = [v for v in range(2, 11) if v >= need]
    if tier == "quick":
        vs = sorted(set(r.sample(vs, min(3, len(vs)))))
    out = []
    for v in vs:
        for ss in (False, True):
            fps = [None] if v < 8 else [True, False]
            if not p.subs:
                fps = [None]
            for fp in fps:
                o = {"scratch_slots": ss}
                if fp is not None:
                    o["frame_pointers"] = fp
                out.append((v, o))
    return out


def directed_programs():
    """user-numbered slots next to the compiler's own numbering: a variable with a requested low slot id, a subroutine with
    k by-value parameters (k compiler slots under the scratch convention, none under frame pointers) and m automatic locals.
    The requested slot must keep its value under every setting."""
    from recipes import U, Program, Sub, Var
    out = []
    for sid in (0, 1, 2, 3, 5):
        for k in (1, 2, 3, 4):
            for m in (0, 2):
                u = Var(U, sid)
                ps = [("val", Var(U)) for _ in range(k)]
                f = Sub(0, "f", ps, U, None)
                acc = ("param", 0)
                for j in range(1, k):
                    acc = ("op", "Add2", [acc, ("param", j)])
                f.body = ("seq", [acc])
                autos = [Var(U) for _ in range(m)]
                body = [("store", u, ("int", 7))] + [("store", a, ("int", 20 + j)) for j, a in enumerate(autos)]
                body.append(("op", "PopU", [("call", f, [("int", 10 + j) for j in range(k)])]))
                for a in autos:
                    body.append(("op", "PopU", [("load", a)]))
                body.append(("ret", ("op", "EqU", [("load", u), ("int", 7)])))
                out.append((f"requested-slot/{sid}/{k}/{m}", Program("app", ("seq", body), [u] + autos, [f])))
    # slots the optimiser must leave alone although each is stored and read back at once: a requested slot, and a slot shared by main and
    # a subroutine (several such programs in a row: whatever one compilation notes about ITS slots must not reach the next)
    for j in range(4):
        a, g = Var(U, [3, 7, 100, 255][j]), Var(U)
        f = Sub(0, "reader", [], U, None)
        f.body = ("op", "Add2", [("load", g), ("int", 1 + j)])
        main = ("seq", [("store", a, ("int", 10 + j)), ("op", "PopU", [("load", a)]), ("store", g, ("txn", "Fee")), ("op", "PopU", [("load", g)]),
                        ("op", "PopU", [("call", f, [])]), ("ret", ("op", "EqU", [("load", a), ("int", 10 + j)]))])
        out.append((f"protected-slots/{j}", Program("app", main, [a, g], [f])))
    return out


def has_dead_store_pattern(prog) -> bool:
    """cheap syntactic over-approximation of the known finding: some variable is stored more than
    once while it is loaded at most once (candidate for 'all stores deleted')"""
    stores, loads = Counter(), Counter()
    # only routines reachable from main are compiled
    reach, todo = set(), [prog.main]
    roots = []
    while todo:
        root = todo.pop()
        roots.append(root)
        for _, n in children_paths(root):
            if n[0] == "call" and n[1].sid not in reach:
                reach.add(n[1].sid)
                todo.append(n[1].body)
    for root in roots:
        for _, n in children_paths(root):
            if n[0] == "store":
                stores[n[1].uid] += 1
            if n[0] == "load":
                loads[n[1].uid] += 1
    return any(stores[u] >= 2 and loads[u] <= 1 for u in stores)


def dead_store_deleted(teal_a: str, teal_b: str) -> bool:
    """the known defect, witnessed on the two texts: the optimised text dropped a slot that the
    unoptimised text stores more often than it loads (so a value with no consumer stays on the stack)"""
    def count(teal):
        st, ld = Counter(), Counter()
        for line in teal.splitlines():
            w = line.split()
            if len(w) == 2 and w[0] == "store":
                st[w[1]] += 1
            if len(w) == 2 and w[0] == "load":
                ld[w[1]] += 1
        return st, ld
    sa, la = count(teal_a)
    sb, lb = count(teal_b)
    # slot numbers are re-assigned after the optimisation, so compare multisets of per-slot (stores, loads)
    prof_a = Counter((sa[k], la[k]) for k in set(sa) | set(la))
    prof_b = Counter((sb[k], lb[k]) for k in set(sb) | set(lb))
    gone = prof_a - prof_b
    return any(st > ld for (st, ld) in gone)


def run(tier: str) -> int:
    rep = Report("C03", tier, level="proof")
    mods = existing(PROOF_MODULES)
    st = check_proofs(mods) if mods else None
    r = rng("c03")
    d = Driver()
    stats, gstats = Counter(), Counter()
    nprog = 110 if tier == "quick" else 2000
    nctx = 4 if tier == "quick" else 10
    distinct, samples, evaluations = set(), [], 0
    import time
    budget = 75 if tier == "quick" else 1500
    thm_budget = 40 if tier == "quick" else 600   # programs on which the hypotheses of the option-independence theorem are evaluated
    directed = directed_programs()
    stats["directed programs"] = len(directed)
    t_loop0 = time.time()
    for i in range(-len(directed), nprog):
        # the budget counts from the start of this loop (the proof stage before it depends on machine load) and never cuts
        # the directed programs nor the first 40 random ones
        if i >= 40 and time.time() - t_loop0 > budget:
            rep.notes.append(f"time budget reached after {i} random programs")
            break
        if i < 0:
            _dname, p = directed[i + len(directed)]
            mode, nsubs = p.mode, len(p.subs)
            stats["directed:" + _dname.split("/")[0]] += 1
        else:
            mode = r.choice(["app", "app", "sig"])
            gv = r.choice([4, 6, 8, 9, 10])
            nsubs = r.choice([0, 0, 1, 2, 3])
            if r.random() < 0.2:
                # by-reference stream: ScratchVar parameters mixed with by-value ones (frame-pointer prologues differ)
                nsubs, gv = r.choice([2, 3]), max(gv, 6)
                cfg = Cfg(mode=mode, version=gv, subs=nsubs, recursive=False, call_bias=0.35, byref=True, byref_p=0.6, max_depth=3, max_stmts=4)
            else:
                cfg = Cfg(mode=mode, version=gv, subs=nsubs, recursive=nsubs > 0 and r.random() < 0.4, call_bias=0.15 if nsubs else 0.0,
                          byref=r.random() < 0.2, max_depth=r.choice([3, 4]), max_stmts=r.choice([3, 5, 7]))
            g = G(r, cfg)
            p = g.program()
            for k, v in g.stats.items():
                gstats[k.split(":")[0]] += v
        need = max(required_version(p.main), 4 if nsubs else 2, *[required_version(s.body) for s in p.subs] or [2])
        req_slots = sorted({v.slot for v in p.vars if v.slot is not None})
        slot_arg = ",".join(map(str, req_slots)) if req_slots else "-"
        cases = []
        for v, o in settings_for(p, need, r, tier):
            c = Case(d, p, v, **o)
            stats[f"compile:{c.res[0]}"] += 1
            if c.ok and o.get("scratch_slots"):
                # the same setting given as ONE OptimizeOptions object that earlier programs were compiled with: the options
                # describe how to compile, they must not carry anything over from one program to the next
                key = (o.get("scratch_slots"), o.get("frame_pointers"))
                if key not in SHARED_OPTIONS:
                    import pyteal as _pt
                    SHARED_OPTIONS[key] = _pt.OptimizeOptions(**{k_: v_ for k_, v_ in o.items() if k_ in ("scratch_slots", "frame_pointers")})
                from recipes import compile_real as _cr
                again = _cr(p, v, options_obj=SHARED_OPTIONS[key])
                stats["shared-options-object:compared"] += 1
                if again[0] == "ok" and again[1] != c.teal:
                    stats["shared-options-object:differs"] += 1
                    c2 = Case.__new__(Case)
                    c2.__dict__.update(c.__dict__)
                    tid = f"so{c.id}"
                    d.ask(f"teal {tid} {again[1].encode().hex()}")
                    found = None
                    for ctx in [gen_ctx(r, mode, 10) for _ in range(30)]:
                        ctx = dict(ctx, version=v)
                        d.ask(f"ctx c {render_ctx(ctx)}")
                        c.load()
                        out = d.ask(f"cmpx t{c.id} {tid} c 6000 {slot_arg} 1")
                        if out.split(" ")[0] in ("differ", "stackdiffer"):
                            found = (ctx, out)
                            break
                    rep.violation(f"an OptimizeOptions object reused from earlier compilations changes the program (v{v} {o})"
                                  + (f": {found[1][:200]}" if found else "; no differing context found"),
                                  {"recipe": c.sexp, "mode": mode, "version": v, "options": o, "teal_fresh_options": c.teal, "teal_reused_options": again[1],
                                   "ctx": render_ctx(found[0]) if found else None}, no_input=found is None)
            if c.ok:
                c.load()
                cases.append(c)
                distinct.add(c.teal)
            elif c.res[0] == "crash":
                stats["crash:" + c.res[1]] += 1
        if len(cases) < 2:
            continue
        # does the theorem `C03Options.options_agree` apply to this program: at least two unoptimised settings whose real
        # output satisfies `Check.originalB` (driver `composed-sexp … original=true`) for the same theorem class?
        unopt = [c for c in cases if not c.opts.get("scratch_slots")]
        if len(unopt) >= 2 and thm_budget > 0:
            thm_budget -= 1
            classes = Counter()
            for c in unopt:
                fpf = 1 if c.opts.get("frame_pointers", c.version >= 8) else 0
                ans = d.ask(f"composed-sexp {c.version} {fpf} {c.teal.encode().hex()} {c.sexp}")
                stats["options_theorem:setting:" + ("original=true" if " original=true" in ans else "original=false")] += 1
                if " original=true" in ans and not ans.startswith("composed=partial"):
                    classes["ref" if " thm=ref" in ans else "plain"] += 1
            best = max(classes.values(), default=0)
            stats["options_theorem:programs checked"] += 1
            if best >= 2:
                stats["options_theorem:programs with >=2 settings inside options_agree"] += 1
                stats["options_theorem:setting pairs inside options_agree"] += sum(n * (n - 1) // 2 for n in classes.values())
            else:
                stats["options_theorem:programs outside (fewer than 2 settings with original=true)"] += 1
        ctxs = [gen_ctx(r, mode, 10) for _ in range(nctx)]
        base = cases[0]
        for c in cases[1:]:
            only_ss = (c.version == base.version and c.opts.get("frame_pointers") == base.opts.get("frame_pointers"))
            # compare each setting with its unoptimised twin when there is one, else with the first
            twin = next((b for b in cases if b is not c and b.version == c.version and b.opts.get("frame_pointers") == c.opts.get("frame_pointers")
                         and b.opts.get("scratch_slots") is False), None)
            ref, stacks = (twin, "1") if (twin is not None and c.opts.get("scratch_slots")) else (base, "0")
            stats["pairs:stack-compared" if stacks == "1" else "pairs:outcome-compared"] += 1
            for ctx in ctxs:
                ctx = dict(ctx, version=c.version)
                d.ask(f"ctx c {render_ctx(ctx)}")
                out = d.ask(f"cmpx t{ref.id} t{c.id} c 6000 {slot_arg} {stacks}")
                evaluations += 1
                head = out.split(" ")[0]
                stats["cmp:" + " ".join(out.split(" ")[:2]) if head in ("agree", "skip") else "cmp:" + head] += 1
                if head in ("differ", "stackdiffer", "perr"):
                    key = None
                    if stacks == "1" and dead_store_deleted(ref.teal, c.teal):
                        key = "C03-dead-store-optimised"
                    elif prog_control_in_operand(p):
                        key = "C03-control-in-operand"
                    rep.violation(f"options change behaviour: v{ref.version} {ref.opts} vs v{c.version} {c.opts}: {out[:300]}",
                                  {"recipe": c.sexp, "mode": mode, "a": {"version": ref.version, "options": ref.opts, "teal": ref.teal},
                                   "b": {"version": c.version, "options": c.opts, "teal": c.teal}, "ctx": render_ctx(ctx), "compare": out,
                                   "slots_compared": req_slots}, key=key)
                    break
        if len(samples) < 2:
            samples.append({"recipe": cases[0].sexp[:500], "settings": [[c.version, c.opts] for c in cases][:8]})
    # ---- families built through the PyTeal API (recursion, ABI values as frame locals, by-reference locals, explicit returns):
    # every (version, scratch_slots, frame_pointers) setting of one family instance must behave alike
    from families import FAMILIES, compile_family
    d.ask("ctx cfam (ctx app 10 (args) (group (txn (Sender (b 00)))) 0 (global) 0 (gstate))")
    fam_n = 0
    for name, (fn, ns) in FAMILIES.items():
        for n in (ns if tier == "thorough" else ns[-1:]):
            outs = {}
            for v in ([6, 8, 10] if tier == "quick" else range(4, 11)):
                for o in ([{}, {"scratch_slots": False}, {"scratch_slots": True}] + ([{"frame_pointers": False}, {"frame_pointers": True, "scratch_slots": False}] if v >= 8 else [])):
                    res = compile_family(name, n, v, **o)
                    if res[0] != "ok":
                        stats[f"family:{res[0]}"] += 1
                        continue
                    fam_n += 1
                    pa = d.ask(f"teal tfam {res[1].encode().hex()}")
                    if not pa.startswith("ok"):
                        # the text is not an assemblable program under this setting: as different from the others as can be
                        outs[(v, json.dumps(o, sort_keys=True))] = ("not assemblable: " + pa[:80], res[1])
                        continue
                    out = d.ask("exec tfam cfam 200000")
                    if out.startswith("done"):
                        outs[(v, json.dumps(o, sort_keys=True))] = (out.split("slots")[0].strip(), res[1])
                    elif out.startswith("fail") and "unmodelled" not in out:
                        outs[(v, json.dumps(o, sort_keys=True))] = ("fail", res[1])
            kinds = {}
            for k, (o_, t_) in outs.items():
                kinds.setdefault(o_, []).append(k)
            if len(kinds) > 1:
                (oa, ka), (ob, kb) = sorted(kinds.items(), key=lambda kv: -len(kv[1]))[:2]
                rep.violation(f"family {name}({n}): settings {ka[0]} give `{oa[:80]}`, settings {kb[0]} give `{ob[:80]}`",
                              {"family": name, "n": n, "a": {"setting": list(ka[0]), "outcome": oa, "teal": outs[ka[0]][1]},
                               "b": {"setting": list(kb[0]), "outcome": ob, "teal": outs[kb[0]][1]}})
    stats["family programs executed"] = fam_n
    d.close()
    opt_cov = {}
    try:
        opt = importlib.import_module("c03_opt")
        opt_cov = opt.run_opt_tie(rep, tier)
    except ModuleNotFoundError:
        rep.notes.append("optimiser model tie not present in this tree")
    if st is not None and not st.ok:
        rep.violation("proof obligations no longer check: " + "; ".join(st.problems)[:600],
                      {"theorems": mods, "problems": st.problems, "log": st.log[-3000:]}, no_input=True)
    cov = {
        "evaluations": evaluations,
        "distinct_nontrivial": len(distinct),
        "rule": "random programs (harness/gen.py; 0-3 subroutines, recursion, requested slot ids, variable reuse) compiled by the real compiler "
                "under every (version >= required, scratch_slots, frame_pointers) setting of the tier; every setting is executed against a "
                "reference setting on the same generated contexts (outcome, effects, requested slots; plus stack at every routine exit for "
                "optimised vs unoptimised twins); distinct = distinct emitted TEAL texts",
        "samples": samples or [{"note": "none"}],
        "optimizer_tie": opt_cov,
        "options_theorem": {k.split(":", 1)[1]: v for k, v in sorted(stats.items()) if k.startswith("options_theorem:")},
        "distribution": {"constructs": dict(gstats.most_common(30)), "run": dict(sorted(stats.items()))},
    }
    if st is not None:
        cov.update(proof_coverage(st, "cd lean && lake build " + " ".join(mods), TRUSTED))
    rep.coverage.update(cov)
    rep.assumptions += TRUSTED + ["opcode budget differences between settings are not behaviour (fuel is generous and equal)"]
    return rep.finish()


def replay(path: str) -> int:
    import json
    body = json.loads(open(path).read())
    d = Driver()
    print("what:", body.get("what"))
    if "a" in body and "b" in body:
        print(d.ask(f"teal ta {body['a']['teal'].encode().hex()}"), d.ask(f"teal tb {body['b']['teal'].encode().hex()}"))
        print(d.ask(f"ctx c {body['ctx']}"))
        print("a:", d.ask("exec ta c 40000 slots"))
        print("b:", d.ask("exec tb c 40000 slots"))
        sl = ",".join(map(str, body.get("slots_compared", []))) or "-"
        print("cmp:", d.ask(f"cmpx ta tb c 40000 {sl} 1"))
    d.close()
    return 0
