"""C02 — subroutine calls behave as function calls, including recursion.

Deciding method: (1) kernel-checked theorem `spill_correct` about the model of the recursion
spill/restore code (all slot sets, arities, return kinds, dig/cover/uncover flavours) with an
exhaustive-grid correspondence between the model and the real `spillLocalSlotsDuringRecursion`;
(2) differential execution: real TEAL of generated call graphs (self/mutual recursion, by-value
/ by-reference parameters, return none/uint64/bytes, calls in operand and statement position,
early Return) on the AVM spec vs the source semantics with per-activation locals, for versions
4..10 x frame_pointers x scratch_slots; (3) hand-written recursive families (incl. ABI
subroutines) with independently computed expected verdicts.
"""
from __future__ import annotations

import importlib
from collections import Counter

from common import LEAN, Driver, Report, check_proofs, proof_coverage, rng
from families import FAMILIES, compile_family
from gen import Cfg, G
from pipeline import Case, exec_diff, load_corpus, replay_case
from shrink import prog_control_in_operand, shrink

PROOF_MODULES = ["PyTealV.Proofs.C02Spill", "PyTealV.Proofs.C02RecPoints", "PyTealV.Proofs.SimR",
                 # whole-program code-generation theorem `genProg_correct` (Src.runProg vs the multi-routine graph machine)
                 "PyTealV.Proofs.C02GenMach", "PyTealV.Proofs.C02GenShape", "PyTealV.Proofs.C02GenPrim",
                 "PyTealV.Proofs.C02GenSem", "PyTealV.Proofs.C02GenSrc", "PyTealV.Proofs.C02GenCall",
                 "PyTealV.Proofs.C02GenSpill", "PyTealV.Proofs.C02GenProg", "PyTealV.Proofs.C02GenPres", "PyTealV.Proofs.C02GenValid",
                 "PyTealV.Proofs.C02GenPresV",
                 # WideRatio inside the fragment: source-side closed form, machine-level op lemmas, the simulation case
                 "PyTealV.Proofs.C02GenWideSrc", "PyTealV.Proofs.C02GenWideOps", "PyTealV.Proofs.C02GenWide",
                 "PyTealV.Proofs.C02Gen",
                 "PyTealV.Proofs.C02Compile",
                 # renaming invariance of `Src.runProg` and the composed theorems for the ORIGINAL program
                 "PyTealV.Proofs.RenameLemmas", "PyTealV.Proofs.RenameSem", "PyTealV.Proofs.Rename", "PyTealV.Proofs.CompileOriginal"]
TRUSTED = [
    "Lean 4 kernel; axioms propext, Classical.choice, Quot.sound only",
    "AVM spec lean/PyTealV/Avm (callsub/retsub/proto/frame_dig/frame_bury frame rules written from the AVM specification)",
    "source semantics lean/PyTealV/Src.lean: calls evaluate arguments left to right, parameters are fresh cells, "
    "a routine's own variables survive calls that may re-enter it, by-reference parameters alias the caller's variable",
    "harness recipe builders (real Subroutine objects are created with exec'd Python functions)",
]


def existing(mods):
    return [m for m in mods if (LEAN / (m.replace(".", "/") + ".lean")).exists()]


def option_sets(version, r, tier):
    fps = [None] if version < 8 else [None, True, False]
    sss = [False, True]
    combos = [(fp, ss) for fp in fps for ss in sss]
    if tier == "quick":
        r.shuffle(combos)
        combos = combos[:2]
    out = []
    for fp, ss in combos:
        o = {"scratch_slots": ss}
        if fp is not None:
            o["frame_pointers"] = fp
        out.append(o)
    return out


def run(tier: str) -> int:
    rep = Report("C02", tier, level="translation_validation")
    mods = existing(PROOF_MODULES)
    st = check_proofs(mods) if mods else None
    r = rng("c02")
    d = Driver()
    stats, gstats = Counter(), Counter()
    nprog = 140 if tier == "quick" else 2500
    nctx = 5 if tier == "quick" else 12
    samples, distinct, evaluations = [], set(), 0
    orig_samples = []

    # ---- (2) generated call graphs
    corpus = load_corpus("C02")
    stats["corpus programs"] = len(corpus)
    for i in range(-len(corpus), nprog):
        if i < 0:
            _name, p, ver, copts = corpus[i + len(corpus)]
            mode, cfg = p.mode, Cfg(recursive=False)
            settings = [copts]
        else:
            settings = None
        mode = p.mode if i < 0 else r.choice(["app", "app", "sig"])
        ver = ver if i < 0 else r.choice([4, 5, 6, 7, 8, 9, 10])
        if i >= 0:
            exotic = r.random() < 0.06
            if r.random() < 0.2:
                # by-reference stream: non-recursive call chains that pass ScratchVars on (and write through them)
                ver = max(ver, 5)
                cfg = Cfg(mode=mode, version=ver, subs=r.choice([2, 3, 4]), recursive=False, call_bias=0.35, byref=True, byref_p=0.7,
                          max_depth=3, max_stmts=4)
            else:
                cfg = Cfg(mode=mode, version=ver, subs=r.choice([1, 2, 3, 4]), recursive=r.random() < 0.6, call_bias=r.choice([0.1, 0.2, 0.3]),
                          byref=r.random() < 0.35, max_depth=r.choice([3, 4]), control_in_operand=exotic)
        if i >= 0:
            g = G(r, cfg)
            p = g.program()
            for k, v in g.stats.items():
                gstats[k.split(":")[0]] += v
            gstats["programs:recursive" if cfg.recursive else "programs:nonrecursive"] += 1
        first, cur_stage = True, "?"
        for opts in (settings if settings is not None else option_sets(ver, r, tier)):
            case = Case(d, p, ver, **opts)
            stats[f"compile:{case.res[0]}"] += 1
            if first and case.ok:
                # is this program inside the fragment of the universal theorem `genProg_correct`
                # (scratch-slot convention; automatically numbered variables renamed into free slots)?
                first = False
                for fpflag in (0, 1):
                    fr = d.ask(f"fragmentr-sexp {ver} {fpflag} {case.sexp}")
                    kv = dict(x.split("=", 1) for x in fr.split(" ") if "=" in x)
                    if fpflag == 0:
                        cur_stage = kv.get("stage", "?")
                    if "stage" in kv:
                        infr = "true" if (kv.get("renamed") == "true" or kv.get("refStrict") == "true") else "false"
                        stats[f"genProg_correct:fp={fpflag}:stage={kv['stage']}:in_fragment={infr}"
                              + (":thm=ref" if kv.get("refStrict") == "true" and kv.get("renamed") != "true" else "")
                              + (":dynPartial=true" if kv.get("dynPartial") == "true" and infr != "true" else "")] += 1
                    else:
                        stats["genProg_correct:" + fr[:40]] += 1
            if not case.ok:
                stats[f"rejected:{case.res[1]}"] += 1
                if case.res[0] == "crash":
                    stats["crash:" + case.res[1]] += 1
                continue
            distinct.add(case.teal)
            stats[f"v{ver}:" + ",".join(f"{k}={v}" for k, v in sorted(opts.items()))] += 1
            bad = exec_diff(case, r, nctx, stats)
            evaluations += nctx
            verdict = None
            if not opts.get("scratch_slots"):
                # certificate check of the whole program against the code-generation model (both conventions)
                fp = opts.get("frame_pointers", ver >= 8)
                case.load()
                verdict = d.ask(f"validateprog p{case.id} t{case.id} {ver} {1 if fp else 0}")
                stats["validateprog:" + verdict.split(" ")[0]] += 1
                if verdict.startswith("valid") and "spilled=0" not in verdict:
                    stats["validateprog:valid with spill code"] += 1
                # do the hypotheses of the composed theorem `C02Compile.compile_correct_validated_prog`
                # (certificate accepted + certificate graphs = generator's + renamed program in the fragment) hold?
                comp = d.ask(f"composed-sexp {ver} {1 if fp else 0} {case.teal.encode().hex()} {case.sexp}")
                stats[f"composed_theorem:fp={1 if fp else 0}:{comp.split(' ')[0]}:stage={cur_stage}"
                      + (":thm=ref" if " thm=ref" in comp else "")] += 1
                # ... and those of `CompileOriginal.compile_correct_originalB[_ref]` (additionally `Check.renameOk` for the renaming
                # that was applied): the theorem then speaks about the ORIGINAL program, this recipe
                stats[f"original_theorem:fp={1 if fp else 0}:{comp.split(' ')[0]}:"
                      + ("original=true" if " original=true" in comp else "original=false")
                      + (":thm=ref" if " thm=ref" in comp else "")] += 1
                if " renameOk[" in comp:
                    # which part of `Check.renameOk` fails (routine ids replaced by a count)
                    why = comp.split(" renameOk[", 1)[1].split("]", 1)[0]
                    why = " ".join(("subs=" + str(w.count(":false")) + "-false") if w.startswith("subs=") else w for w in why.split(" "))
                    stats["original_theorem_why:" + why] += 1
                    if len(orig_samples) < 3:
                        orig_samples.append({"answer": comp[:300], "version": ver, "fp": fp, "recipe": case.sexp[:1500]})
                if bad is None and not verdict.startswith("valid"):
                    bad2 = exec_diff(case, r, 150 if tier == "quick" else 1500, stats)
                    if bad2 is None:
                        rep.violation(f"certificate check of a call-graph program failed ({verdict[:300]}); no differing context found",
                                      case.replay_dict(None, {"validate": verdict, "correspondence": "Check.validateProg (model graphs of all routines vs real TEAL)"}),
                                      no_input=True)
                        continue
                    bad = bad2
            if bad is None:
                if len(samples) < 2 and cfg.recursive:
                    samples.append({"recipe": case.sexp[:700], "version": ver, "options": opts, "mode": mode})
                continue
            ctx, out = bad

            def pred(q, ctx=ctx, ver=ver, opts=opts):
                k = Case(d, q, ver, **opts)
                return k.ok and k.cmp(ctx).startswith("differ")

            small = shrink(p, pred, 300 if tier == "quick" else 1500)
            sc = Case(d, small, ver, **opts)
            out2 = sc.cmp(ctx)
            key = "C02-control-in-operand" if prog_control_in_operand(small) else None
            if key is None and opts.get("scratch_slots"):
                # the optimiser's dead-store defect (C03 known finding) corrupts the stack under retsub
                from c03 import dead_store_deleted
                twin = Case(d, small, ver, **dict(opts, scratch_slots=False))
                if twin.ok and twin.cmp(ctx).startswith("agree") and dead_store_deleted(twin.teal, sc.teal):
                    key = "C02-dead-store-optimised"
            rep.violation(f"subroutine program: source semantics and real TEAL disagree: {out2[:300]}",
                          sc.replay_dict(ctx, {"compare": out2, "original_recipe": case.sexp[:2000]}), key=key)

    # ---- (3) families with independently computed expected verdicts
    d.ask("ctx cfam (ctx app 10 (args) (group (txn (Sender (b 00)))) 0 (global) 0 (gstate))")
    fam_cases = 0
    for name, (fn, ns) in FAMILIES.items():
        for n in ns:
            if name == "abi_fact" and (tier == "quick" and n != ns[-1]):
                continue
            for v in range(4, 11):
                for opts in option_sets(v, r, "thorough" if (tier == "thorough" and name != "abi_fact") else "quick"):
                    res = compile_family(name, n, v, **opts)
                    if res[0] == "skip":
                        continue
                    fam_cases += 1
                    if res[0] != "ok":
                        stats[f"family:{name}:{res[0]}:{res[1]}"] += 1
                        if res[0] == "crash":
                            rep.violation(f"family {name}({n}) v{v} {opts}: compiler crashed with {res[1]}: {res[2]}",
                                          {"family": name, "n": n, "version": v, "options": opts, "result": list(res)})
                        continue
                    a = d.ask(f"teal tfam {res[1].encode().hex()}")
                    out = d.ask("exec tfam cfam 400000") if a.startswith("ok") else a
                    stats["family:" + ("approve" if out == "done u1 []" else "other")] += 1
                    distinct.add(res[1])
                    if out != "done u1 []":
                        rep.violation(f"family {name}({n}) v{v} {opts}: expected approve (independently computed), real TEAL gives {out[:200]}",
                                      {"family": name, "n": n, "version": v, "options": opts, "teal": res[1], "avm": out})
    # ---- (3b) random ABI / by-reference call graphs with a plain-Python mirror
    from abi_families import compile_case, gen_case
    n_abi = 45 if tier == "quick" else 900
    for i in range(n_abi):
        builder, descr = gen_case(r)
        v = r.choice([6, 7, 8, 9, 10])
        opts = {"scratch_slots": r.choice([True, False])}
        if v >= 8:
            opts["frame_pointers"] = r.choice([True, False])
        res = compile_case(builder, v, **opts)
        fam_cases += 1
        stats[f"abi-graph:compile:{res[0]}"] += 1
        if res[0] == "crash":
            rep.violation(f"ABI call graph v{v} {opts}: compiler crashed with {res[1]}: {res[2]}", {"descr": descr, "version": v, "options": opts})
            continue
        if res[0] != "ok":
            stats[f"abi-graph:{res[1]}"] += 1
            continue
        a = d.ask(f"teal tfam {res[1].encode().hex()}")
        out = d.ask("exec tfam cfam 600000") if a.startswith("ok") else a
        stats["abi-graph:" + ("approve" if out == "done u1 []" else "other")] += 1
        distinct.add(res[1])
        if out != "done u1 []":
            rep.violation(f"ABI call graph v{v} {opts}: the plain-Python mirror expects approval, real TEAL gives {out[:200]}",
                          {"descr": descr, "version": v, "options": opts, "teal": res[1], "avm": out})
    d.close()

    # ---- (1) spill model tie + proofs
    spill_cov = {}
    try:
        spill = importlib.import_module("c02_spill")
        spill_cov = spill.run_spill_tie(rep, tier)
    except ModuleNotFoundError:
        rep.notes.append("spill model tie not present in this tree")
    if st is not None and not st.ok:
        rep.violation("proof obligations no longer check: " + "; ".join(st.problems)[:600],
                      {"theorems": mods, "problems": st.problems, "log": st.log[-3000:]}, no_input=True)
    cov = {
        "programs": sum(v for k, v in stats.items() if k.startswith("validateprog:") and not k.endswith("spill code")),
        "disagreements_checked": stats.get("validateprog:invalid", 0) + sum(v for k, v in stats.items() if k == "exec:differ"),
        "evaluations": evaluations + fam_cases,
        "distinct_nontrivial": len(distinct),
        "rule": "random call graphs from harness/gen.py (1-4 subroutines, depth-counter recursion incl. mutual recursion, by-value/by-ref "
                "parameters, return none/uint64/bytes, calls in operand and statement position, early Return, locals initialised inside the "
                "routine) x versions 4..10 x frame_pointers x scratch_slots, each executed on generated contexts against the source "
                "semantics; plus hand-written recursive families (incl. ABIReturnSubroutine) with expected verdicts computed in plain Python; "
                "distinct = distinct emitted TEAL texts",
        "samples": samples or [{"note": "no recursive sample recorded"}],
        "family_cases": fam_cases,
        "composed_theorem": {k.split(":", 1)[1]: v for k, v in sorted(stats.items()) if k.startswith("composed_theorem:")},
        "original_theorem": {k.split(":", 1)[1]: v for k, v in sorted(stats.items()) if k.startswith("original_theorem:")},
        "original_theorem_why_not": {"reasons": {k.split(":", 1)[1]: v for k, v in sorted(stats.items()) if k.startswith("original_theorem_why:")},
                                     "samples": orig_samples},
        "genProg_correct_fragment": {k.split(":", 1)[1]: v for k, v in sorted(stats.items()) if k.startswith("genProg_correct:")},
        "spill_tie": spill_cov,
        "distribution": {"constructs": dict(gstats.most_common(40)), "run": dict(sorted(stats.items()))},
    }
    if st is not None:
        cov.update(proof_coverage(st, "cd lean && lake build " + " ".join(mods), TRUSTED))
    rep.coverage.update(cov)
    rep.assumptions += TRUSTED
    return rep.finish()


def replay(path: str) -> int:
    return replay_case(path)
