"""C16 - WideRatio is exact or fails, never wraps.

Three layers:
  proof   Lean theorems (Proofs/C16.lean, C16Lemmas.lean) about the model `Models/WideRatio.lean`:
          for all n, m >= 1 and all uint64 factor values the emitted op list, run with the shared
          opcode semantics `Avm.execPrim`, pushes exactly floor(prod ns / prod ds) iff every running
          product fits 128 bits, prod ds != 0 and the quotient fits 64 bits, and fails otherwise.
  tie     the REAL `pt.WideRatio(...)` compiled by the real `compileTeal` (versions 5..10, two kinds
          of opaque leaves) vs the model's op list `c16-ops`, exactly, for every n, m in range;
          plus the argument shapes / versions the real code refuses.
  oracle  the REAL TEAL executed by the Lean AVM (`teal`/`ctx`/`exec`) on boundary-biased factor
          values vs Python big-integer arithmetic implementing the property statement literally;
          the Lean model (`c16-run`), the Lean spec (`c16-spec`) and the source semantics (`eval`)
          are run on the same inputs and must all agree.
"""
from __future__ import annotations

import json
import sys
from collections import Counter

from common import Report, check_proofs, proof_coverage, Driver, rng, seed, hexs, ToolFailure, VERIF

PROOF_MODULES = ["PyTealV.Proofs.C16Lemmas", "PyTealV.Proofs.C16"]
MAIN_THEOREMS = ["PyTealV.Proofs.C16.wideRatio_run", "PyTealV.Proofs.C16.spec_ok_iff",
                 "PyTealV.Proofs.C16.wideRatio_exact", "PyTealV.Proofs.C16.wideRatio_never_wraps",
                 "PyTealV.Proofs.C16.wideRatio?_error_iff"]
VERSIONS = [5, 6, 7, 8, 9, 10]
M64 = 2 ** 64 - 1
T64 = 2 ** 64
T128 = 2 ** 128
FUEL = 2000


def _pt():
    from recipes import pt  # imports the working tree under common.REPO (VERIF_REPO) at run time
    return pt


# ----------------------------------------------------------------------------- the property, literally


def expected(ns, ds):
    """('ok', q) | ('fail', reason) - the statement of C16 in Python big-integer arithmetic."""
    for name, xs in (("num", ns), ("den", ds)):
        p = 1
        for x in xs:  # every running product, taken left to right, fits in 128 bits
            p *= x
            if p >= T128:
                return ("fail", name + "_overflow")
    pn = 1
    for x in ns:
        pn *= x
    pd = 1
    for x in ds:
        pd *= x
    if pd == 0:
        return ("fail", "zero_den")
    q = pn // pd
    if q >= T64:
        return ("fail", "quot_overflow")
    return ("ok", q)


# ----------------------------------------------------------------------------- real code


def build_real(n, m, leaf):
    pt = _pt()
    if leaf == "arg":
        mk = lambda i: pt.Btoi(pt.Txn.application_args[i])  # noqa: E731
    else:
        mk = lambda i: pt.Int(1000 + i)  # noqa: E731
    return pt.WideRatio([mk(i) for i in range(n)], [mk(n + i) for i in range(m)])


def compile_literal(ns, ds, mask, version):
    """the same shape with some factors written as literals: factor i is Int(value) when mask[i], else the i-th application
    argument.  ('ok', teal) | ('err', class, message)"""
    pt = _pt()
    vals = list(ns) + list(ds)
    mk = lambda i: pt.Int(vals[i]) if mask[i] else pt.Btoi(pt.Txn.application_args[i])  # noqa: E731
    try:
        wr = pt.WideRatio([mk(i) for i in range(len(ns))], [mk(len(ns) + i) for i in range(len(ds))])
        return ("ok", pt.compileTeal(pt.Return(wr), pt.Mode.Application, version=version, assembleConstants=False))
    except Exception as e:  # noqa: BLE001
        return ("err", type(e).__name__, str(e).splitlines()[0][:200] if str(e) else "")


def substitute_leaves(teal_arg, vals, mask):
    """what the literal program must look like: the argument-leaf program with the masked leaves replaced by `int value`"""
    out, lines, i = [], teal_arg.splitlines(), 0
    while i < len(lines):
        ln = lines[i]
        if ln.startswith("txna ApplicationArgs ") and i + 1 < len(lines) and lines[i + 1] == "btoi" and mask[int(ln.split()[2])]:
            out.append(f"int {vals[int(ln.split()[2])]}")
            i += 2
            continue
        out.append(ln)
        i += 1
    return "\n".join(out)


def literal_stream(drv, n, m, version, teal_arg, cases, r, stats, mismatches):
    """Literal factors must not change the code (no constant-specialised path): the literal program has to be the
    argument program with the leaves substituted; when it is not, the literal program is executed against the property."""
    for ns, ds in cases:
        vals = ns + ds
        mask = [True] * len(vals) if r.random() < 0.5 else [r.random() < 0.5 for _ in vals]
        lit = compile_literal(ns, ds, mask, version)
        stats["literal_programs"] += 1
        if lit[0] != "ok":
            mismatches.append({"kind": "literal", "n": n, "m": m, "version": version, "ns": ns, "ds": ds, "mask": mask,
                               "what": f"WideRatio with literal factors {ns}/{ds} refused at version {version}: {lit[1:]}", "no_input": True})
            continue
        if lit[1] == substitute_leaves(teal_arg, vals, mask):
            stats["literal_same_code"] += 1
            continue
        stats["literal_other_code"] += 1
        tid = f"tl{n}_{m}_{version}"
        a = drv.ask(f"teal {tid} {hexs(lit[1].encode())}")
        exp = expected(ns, ds)
        ex = "unparsed: " + a
        if a.startswith("ok"):
            drv.ask(f"ctx c {ctx_sexp(version, vals)}")
            ex = drv.ask(f"exec {tid} c {FUEL}")
        got = parse_outcome(ex)
        if not same(exp, got):
            mismatches.append({"kind": "literal", "n": n, "m": m, "version": version, "ns": ns, "ds": ds, "mask": mask, "expected": list(exp),
                               "real_teal_in_lean_avm": ex, "teal": lit[1],
                               "what": f"WideRatio({ns}, {ds}) with literal factors (mask {mask}) at version {version}: property says {exp}, real TEAL gives `{ex}`"})
        else:
            # the code differs but this input agrees: search the literal programs of this shape around the overflow boundary
            found = None
            for k in range(200):
                d2 = [2 ** r.randrange(1, 64) if (k % 2 == 0 or r.random() < 0.5) else gen_u(r, pos=True) for _ in ds]
                pd = 1
                for x in d2:
                    pd *= x
                if k % 3 == 0 or pd >= T64:
                    n2, _ = gen_case(r, len(ns), len(ds))
                    n2 = [clip(x) for x in n2]
                else:   # numerator product just below / at / above (pd + e) * 2^64
                    n2 = [M64, clip(pd + r.choice([-1, 0, 1, 1, 2]))] + [1] * (len(ns) - 2) if len(ns) >= 2 else [clip(pd + r.choice([-1, 0, 1]))]
                    r.shuffle(n2)
                l2 = compile_literal(n2, d2, [True] * len(vals), version)
                stats["literal_search_programs"] += 1
                if l2[0] != "ok" or not drv.ask(f"teal {tid} {hexs(l2[1].encode())}").startswith("ok"):
                    continue
                drv.ask(f"ctx c {ctx_sexp(version, n2 + d2)}")
                ex2 = drv.ask(f"exec {tid} c {FUEL}")
                if not same(expected(n2, d2), parse_outcome(ex2)):
                    found = (n2, d2, ex2, l2[1])
                    break
            if found is not None:
                n2, d2, ex2, t2 = found
                mismatches.append({"kind": "literal", "n": n, "m": m, "version": version, "ns": n2, "ds": d2, "mask": [True] * len(vals),
                                   "expected": list(expected(n2, d2)), "real_teal_in_lean_avm": ex2, "teal": t2,
                                   "what": f"WideRatio({n2}, {d2}) with literal factors at version {version}: property says {expected(n2, d2)}, real TEAL gives `{ex2}`"})
                continue
            mismatches.append({"kind": "literal", "n": n, "m": m, "version": version, "ns": ns, "ds": ds, "mask": mask, "teal": lit[1], "no_input": True,
                               "what": f"WideRatio({ns}, {ds}) compiles to other code when factors are literals (mask {mask}, version {version}); "
                                       f"the verified op list (theorem wideRatio_exact) does not cover it; this input still agrees with the property"})


def compile_same_object(n, m, version):
    """ONE WideRatio object turned into code several times: compiled twice, and used at two places of one program.
    -> (first text, second text, text of the two-place program) or ('err', ...)"""
    pt = _pt()
    try:
        wr = build_real(n, m, "arg")
        t1 = pt.compileTeal(pt.Return(wr), pt.Mode.Application, version=version, assembleConstants=False)
        t2 = pt.compileTeal(pt.Return(wr), pt.Mode.Application, version=version, assembleConstants=False)
        wr2 = build_real(n, m, "arg")
        both = pt.compileTeal(pt.Seq(pt.Pop(wr2), pt.Return(wr2)), pt.Mode.Application, version=version, assembleConstants=False)
        return ("ok", t1, t2, both)
    except Exception as e:  # noqa: BLE001
        return ("err", type(e).__name__, str(e).splitlines()[0][:200] if str(e) else "")


def compile_shared_factor(n, m, version, where):
    """the SAME expression object at two adjacent positions of a factor list (`a * x * x`): where = ('n'|'d', i) makes
    position i+1 of that list the object of position i"""
    pt = _pt()
    try:
        leaves = [pt.Btoi(pt.Txn.application_args[i]) for i in range(n + m)]
        lst, i = where
        base = 0 if lst == "n" else n
        leaves[base + i + 1] = leaves[base + i]
        wr = pt.WideRatio(leaves[:n], leaves[n:])
        return ("ok", pt.compileTeal(pt.Return(wr), pt.Mode.Application, version=version, assembleConstants=False))
    except Exception as e:  # noqa: BLE001
        return ("err", type(e).__name__, str(e).splitlines()[0][:200] if str(e) else "")


def nested_stream(drv, r, versions, count, stats, mismatches):
    """a factor that is itself a WideRatio (its own floor, its own 64-bit quotient limit): the outer ratio is defined over the VALUES of
    its factors, so the inner quotient is computed first and an inner failure fails the program"""
    pt = _pt()
    fixed = [(("n", 0), [7, 1], [2], [2], [1]), (("n", 0), [2 ** 63, 4], [1], [1], [4]), (("d", 0), [9], [2], [100, 3], [1]),
             (("n", 1), [5, 5], [3], [3, 1], [2]), (("d", 1), [10], [4], [7], [1, 1])]
    for k in range(count):
        if k < len(fixed):
            where, ins, ids, ons, ods = fixed[k]
            ons, ods = list(ons), list(ods)
        else:
            where = (r.choice("nd"), 0)
            ins = [r.choice([gen_u(r), r.randrange(1, 50)]) for _ in range(r.choice([1, 2, 2, 3]))]
            ids = [r.choice([gen_u(r, True), r.randrange(1, 9)]) for _ in range(r.choice([1, 1, 2]))]
            ons = [r.choice([gen_u(r), r.randrange(0, 9)]) for _ in range(r.choice([1, 2, 3]))]
            ods = [r.choice([gen_u(r, True), r.randrange(1, 9)]) for _ in range(r.choice([1, 2]))]
            where = (where[0], r.randrange(len(ons) if where[0] == "n" else len(ods)))
        if len(ins) == 1 and len(ids) == 1:
            ids = ids + [1]
        vals = [clip(x) for x in ins + ids + ons + ods]
        ins, ids = vals[:len(ins)], vals[len(ins):len(ins) + len(ids)]
        ons, ods = vals[len(ins) + len(ids):len(ins) + len(ids) + len(ons)], vals[len(ins) + len(ids) + len(ons):]
        inner = expected(ins, ids)
        if inner[0] == "ok":
            o_n, o_d = list(ons), list(ods)
            (o_n if where[0] == "n" else o_d)[where[1]] = inner[1]
            exp = expected(o_n, o_d)
        else:
            # evaluation order: factors are evaluated left to right, numerators first; an earlier failure of the outer running
            # product may come first -- either way the program fails
            exp = ("fail", "inner_" + inner[1])
        if len(ons) == 1 and len(ods) == 1:
            continue
        version = r.choice(versions)
        leaves = [pt.Btoi(pt.Txn.application_args[i]) for i in range(len(vals))]
        a, b = len(ins), len(ins) + len(ids)
        c = b + len(ons)
        try:
            innerx = pt.WideRatio(leaves[:a], leaves[a:b])
            o_n, o_d = leaves[b:c], leaves[c:]
            (o_n if where[0] == "n" else o_d)[where[1]] = innerx
            teal = pt.compileTeal(pt.Return(pt.WideRatio(o_n, o_d)), pt.Mode.Application, version=version, assembleConstants=False)
        except Exception as e:  # noqa: BLE001
            mismatches.append({"kind": "nested", "n": len(ons), "m": len(ods), "version": version, "ns": ons, "ds": ods, "no_input": True,
                               "what": f"WideRatio with a WideRatio factor at {where} refused: {type(e).__name__}: {str(e)[:150]}"})
            continue
        a1 = drv.ask(f"teal tnest {hexs(teal.encode())}")
        if not a1.startswith("ok"):
            raise ToolFailure("nested WideRatio TEAL does not parse: " + a1)
        if drv.ask(f"ctx cn {ctx_sexp(version, vals)}") != "ok":
            raise ToolFailure("ctx")
        ex = drv.ask(f"exec tnest cn {FUEL}")
        got = parse_outcome(ex)
        stats["nested_programs"] += 1
        stats["nested:" + ("ok" if exp[0] == "ok" else "fail")] += 1
        if not same(exp, got):
            mismatches.append({"kind": "nested", "n": len(ons), "m": len(ods), "version": version, "ns": ons, "ds": ods,
                               "inner": [ins, ids], "where": list(where), "expected": list(exp), "real_teal_in_lean_avm": ex, "teal": teal,
                               "what": f"WideRatio with the factor WideRatio({ins}, {ids}) at {where} in ({ons}, {ods}) at version {version}: "
                                       f"property says {exp}, real TEAL gives `{ex}`"})


def compile_real(n, m, version, leaf):
    """('ok', teal) | ('err', ExceptionClassName, message)"""
    pt = _pt()
    try:
        wr = build_real(n, m, leaf)
        teal = pt.compileTeal(pt.Return(wr), pt.Mode.Application, version=version, assembleConstants=False)
        return ("ok", teal)
    except Exception as e:  # noqa: BLE001
        return ("err", type(e).__name__, str(e).splitlines()[0][:200] if str(e) else "")


def strip_leaves(teal, n, m, leaf):
    """Real TEAL -> list of op tokens with the leaf pushes replaced by `push N<i>` / `push D<i>`.
    Returns (tokens, problem|None)."""
    lines = []
    for ln in teal.splitlines():
        ln = ln.split("//")[0].strip()
        if not ln or ln.startswith("#pragma"):
            continue
        lines.append(" ".join(ln.split()))
    if not lines or lines[-1] != "return":
        return lines, "program does not end with `return`"
    lines = lines[:-1]
    out, i = [], 0

    def name(k):
        return f"push N{k}" if k < n else f"push D{k - n}"

    while i < len(lines):
        ln = lines[i]
        if leaf == "arg" and ln.startswith("txna ApplicationArgs ") and i + 1 < len(lines) and lines[i + 1] == "btoi":
            out.append(name(int(ln.split()[2])))
            i += 2
            continue
        if leaf == "int" and ln.startswith("int ") and ln.split()[1].isdigit() and int(ln.split()[1]) >= 1000:
            out.append(name(int(ln.split()[1]) - 1000))
            i += 1
            continue
        out.append(ln)
        i += 1
    return out, None


def model_ops(drv, version, n, m):
    a = drv.ask(f"c16-ops {version} {n} {m}")
    if a.startswith("ok "):
        return ("ok", a[3:].split(";"))
    if a.startswith("err "):
        parts = a.split(" ")
        return ("err", parts[1], bytes.fromhex(parts[2]).decode() if len(parts) > 2 and parts[2] != "-" else "")
    raise ToolFailure("c16-ops: " + a)


# ----------------------------------------------------------------------------- execution in the Lean AVM


def ctx_sexp(version, vals):
    from recipes import render_ctx
    args = [v.to_bytes(8, "big") for v in vals]
    return render_ctx({"mode": "app", "version": version, "args": [],
                       "group": [{"ApplicationArgs": args, "NumAppArgs": len(args), "TypeEnum": 6}], "gi": 0,
                       "global": {}, "salt": 0, "gstate": {}})


def src_prog_sexp(n, m):
    leaf = lambda i: f"(prim btoi () (prim txna (ApplicationArgs {i})))"  # noqa: E731
    ns = " ".join(leaf(i) for i in range(n))
    ds = " ".join(leaf(n + i) for i in range(m))
    return f"(prog (subs) (mainlocals) (wideratio ({ns}) ({ds})))"


def parse_outcome(ans):
    """driver outcome line -> ('ok', value) | ('fail', text) | ('other', text)"""
    if ans.startswith("done u"):
        return ("ok", int(ans.split()[1][1:]))
    if ans.startswith("fail logic("):
        return ("fail", ans[5:])
    return ("other", ans)


def parse_model(ans):
    if ans.startswith("done "):
        st = ans.split()[1:]
        if len(st) == 3 and st[0].startswith("u") and st[1:] == ["u77", "b01"]:
            return ("ok", int(st[0][1:]))
        return ("other", ans)
    if ans.startswith("fail logic("):
        return ("fail", ans[5:])
    return ("other", ans)


def parse_spec(ans):
    if ans.startswith("ok "):
        return ("ok", int(ans.split()[1]))
    if ans.startswith("fail logic("):
        return ("fail", ans[5:])
    return ("other", ans)


def same(exp, got):
    if exp[0] == "ok":
        return got == exp
    return got[0] == "fail"


# ----------------------------------------------------------------------------- factor values

POOL = [0, 1, 1, 2, 3, 7, 255, 2 ** 16, 2 ** 32 - 1, 2 ** 32, 2 ** 32 + 1, 2 ** 63 - 1, 2 ** 63, 2 ** 63 + 1, M64 - 1, M64]
POS = [x for x in POOL if x > 0]


def clip(x):
    return max(0, min(M64, x))


def gen_u(r, pos=False):
    c = r.random()
    if c < 0.55:
        return r.choice(POS if pos else POOL)
    if c < 0.7:
        return r.randrange(1 if pos else 0, 16)
    if c < 0.85:
        return r.randrange(1, 2 ** r.choice([8, 16, 31, 32, 33, 48, 63, 64]))
    return r.randrange(1 if pos else 0, T64)


def near_product(r, k, target):
    """k uint64 factors whose product is close to `target` (<= 2^128-ish): k-1 free, last solved."""
    xs, p = [], 1
    for j in range(k - 1):
        # keep room so that the last factor can reach the target
        lim = max(1, min(M64, target // max(p, 1)))
        x = r.choice([1, 2, 3, r.randrange(1, lim + 1), min(lim, r.choice(POS))])
        x = max(1, min(x, lim))
        xs.append(x)
        p *= x
    last = clip(target // p + r.choice([-1, 0, 0, 1, 2]))
    xs.append(last)
    return xs


def gen_case(r, n, m):
    """boundary-biased (ns, ds) for the shape (n, m)"""
    s = r.random()
    if s < 0.22:  # free mix
        return [gen_u(r) for _ in range(n)], [gen_u(r) for _ in range(m)]
    if s < 0.40:  # numerator running product near 2^128
        ns = near_product(r, n, T128 - 1 + r.choice([-1, 0, 1, 2]) if n > 1 else M64)
        if r.random() < 0.3:
            r.shuffle(ns)
        if n > 2 and r.random() < 0.25:
            ns[r.randrange(n)] = 0  # a zero before / after the overflow point
        return ns, [gen_u(r, pos=True) for _ in range(m)]
    if s < 0.55:  # denominator running product near 2^128
        ds = near_product(r, m, T128 - 1 + r.choice([-1, 0, 1, 2]) if m > 1 else M64)
        if r.random() < 0.3:
            r.shuffle(ds)
        if m > 2 and r.random() < 0.2:
            ds[r.randrange(m)] = 0
        return [gen_u(r) for _ in range(n)], ds
    if s < 0.80:  # quotient near 2^64
        ds = [gen_u(r, pos=True) for _ in range(m)]
        pd = 1
        for x in ds:
            pd *= x
        if pd >= T64:  # keep the denominator product below 2^64 so that the target is reachable
            ds = [r.choice([1, 2, 3, 2 ** 16, 2 ** 31]) if i else gen_u(r, pos=True) for i in range(m)]
            pd = 1
            for x in ds:
                pd *= x
            if pd >= T64:
                ds = [1] * (m - 1) + [gen_u(r, pos=True)]
                pd = ds[-1]
        target = pd * (T64 + r.choice([-2, -1, 0, 0, 1])) + r.choice([0, 0, pd - 1, -1, 1])
        target = max(1, min(target, T128 - 1))
        ns = near_product(r, n, target)
        return ns, ds
    if s < 0.90:  # exact cancellations at the 64-bit edge
        d = gen_u(r, pos=True)
        hi = r.choice([[M64, d], [2 ** 63, 2, d], [2 ** 32, 2 ** 32, d], [M64, M64], [2 ** 63, 2]])
        ns = (hi + [1] * n)[:n] if n >= len(hi) else [gen_u(r) for _ in range(n)]
        ds = ([d] + [1] * m)[:m]
        r.shuffle(ns)
        return ns, ds
    # zeros and ones
    return [r.choice([0, 1, M64, 2 ** 63]) for _ in range(n)], [r.choice([0, 1, 1, M64, 2]) for _ in range(m)]


FIXED = [  # (ns, ds): hand-picked boundary cases, run for their own shape
    ([M64, M64], [1]), ([M64, M64], [M64]), ([M64, M64], [M64, M64]), ([M64, M64, 1], [M64]),
    ([M64, M64, 2], [M64, M64]), ([M64, M64, 2, 0], [1]), ([0, M64, M64, 2], [1]), ([2, 0, M64, M64], [1]),
    ([5, 7], [M64, M64, 2]), ([5, 7], [M64, M64, 2, 0]), ([5, 7], [0, M64, M64, 2]), ([5, 7], [3, 0]),
    ([M64, 2], [1]), ([M64, 2], [2]), ([2 ** 63, 2], [1]), ([2 ** 63, 2, 3], [3]), ([2 ** 63, 2, 3], [3, 2]),
    ([M64], [1, 1]), ([M64], [M64, 1]), ([M64], [2 ** 32, 2 ** 32, 2 ** 32]), ([0], [M64, M64, 2]),
    ([1], [M64, M64, M64]), ([7], [0, 0]), ([2 ** 32 + 1, 2 ** 32 - 1, 2 ** 32 + 1, 2 ** 32 - 1], [2 ** 32 - 1, 2 ** 32 + 1]),
    ([2 ** 32, 2 ** 32, 2 ** 32, 2 ** 32], [2 ** 64 - 1]), ([2 ** 32, 2 ** 32, 2 ** 32, 2 ** 31], [2 ** 63]),
    ([2 ** 32, 2 ** 32, 2 ** 32, 2 ** 32 - 1, 1], [2 ** 63, 2]), ([3, 5, 7, 11, 13, 17], [2, 3, 5]),
    ([M64, M64, 1, 1, 1, 1, 1, 1], [M64, 1, 1, 1, 1, 1, 1, 1]), ([2 ** 16] * 8, [2 ** 16] * 4),
    ([2 ** 16] * 8, [2 ** 16] * 8), ([2 ** 16] * 7 + [2 ** 15, 2], [2 ** 16] * 4), ([2 ** 16] * 8, [2 ** 16] * 3 + [2 ** 15, 2]),
]


# ----------------------------------------------------------------------------- the passes


def ops_tie(rep, drv, nmax, versions, stats):
    """real compiled TEAL vs model op list; returns list of mismatching (n, m, version, leaf)"""
    bad = []
    for n in range(0, nmax + 1):
        for m in range(0, nmax + 1):
            for v in versions + [4, 2]:
                for leaf in ("arg", "int"):
                    if (n == 0 or m == 0 or v < 5) and leaf == "int":
                        continue
                    real = compile_real(n, m, v, leaf)
                    mod = model_ops(drv, v, n, m)
                    stats["tie_evaluations"] += 1
                    what = None
                    if real[0] == "ok" and mod[0] == "ok":
                        toks, prob = strip_leaves(real[1], n, m, leaf)
                        stats["tie_ops_compared"] += len(mod[1])
                        if prob:
                            what = prob
                        elif toks != mod[1]:
                            k = next((i for i, (a, b) in enumerate(zip(toks, mod[1])) if a != b), min(len(toks), len(mod[1])))
                            what = (f"op sequence differs at position {k}: real "
                                    f"{toks[k] if k < len(toks) else '<end>'!r} vs model {mod[1][k] if k < len(mod[1]) else '<end>'!r}")
                        else:
                            stats["tie_accepting"] += 1
                    elif real[0] == "err" and mod[0] == "err":
                        if real[1] != mod[1]:
                            what = f"real raises {real[1]} but model says {mod[1]}"
                        else:
                            stats["tie_rejecting"] += 1
                    else:
                        what = f"real {real[0]} ({real[1][:80] if real[0] == 'err' else 'compiled'}) vs model {mod[0]} ({mod[1] if mod[0] == 'err' else 'ops'})"
                    if what:
                        bad.append({"n": n, "m": m, "version": v, "leaf": leaf, "what": what,
                                    "real": real[1] if real[0] == "ok" else list(real), "model": mod[1] if mod[0] == "ok" else list(mod)})
    return bad


def run_cases(drv, n, m, version, teal, cases, stats, mismatches, cross):
    """execute the real TEAL of shape (n,m) on each case; compare with the literal property"""
    tid, pid = f"t{n}_{m}_{version}", f"p{n}_{m}"
    a = drv.ask(f"teal {tid} {hexs(teal.encode())}")
    if not a.startswith("ok"):
        mismatches.append({"kind": "exec", "n": n, "m": m, "version": version, "ns": [], "ds": [],
                           "what": f"the reference AVM cannot parse the real TEAL: {a}", "no_input": True, "teal": teal})
        return
    a = drv.ask(f"prog {pid} {src_prog_sexp(n, m)}")
    if a != "ok":
        raise ToolFailure("prog: " + a)
    lines = []
    for i, (ns, ds) in enumerate(cases):
        vals = ns + ds
        lines.append(f"ctx c {ctx_sexp(version, vals)}")
        lines.append(f"exec {tid} c {FUEL}")
        lines.append(f"eval {pid} c {FUEL}")
        lines.append(f"c16-run {version} {n} {m} " + " ".join(map(str, vals)))
        lines.append(f"c16-spec {n} {m} " + " ".join(map(str, vals)))
    ans = drv.ask_many(lines)
    for i, (ns, ds) in enumerate(cases):
        cx, ex, ev, mr, sp = ans[5 * i:5 * i + 5]
        if cx != "ok":
            raise ToolFailure("ctx: " + cx)
        exp = expected(ns, ds)
        got = parse_outcome(ex)
        stats["exec_evaluations"] += 1
        stats["class:" + (exp[1] if exp[0] == "fail" else "ok")] += 1
        if not same(exp, got):
            mismatches.append({"kind": "exec", "n": n, "m": m, "version": version, "ns": ns, "ds": ds,
                               "expected": list(exp), "real_teal_in_lean_avm": ex,
                               "what": f"WideRatio({ns}, {ds}) at version {version}: property says {exp}, real TEAL gives `{ex}`"})
        # cross-checks between the Lean artefacts (model / spec / source semantics) and the literal property
        for label, g in (("model c16-run", parse_model(mr)), ("spec c16-spec", parse_spec(sp)), ("source semantics eval", parse_outcome(ev))):
            stats["cross_evaluations"] += 1
            if not same(exp, g):
                cross.append({"kind": "cross", "n": n, "m": m, "version": version, "ns": ns, "ds": ds, "expected": list(exp),
                              "which": label, "answer": {"model c16-run": mr, "spec c16-spec": sp, "source semantics eval": ev}[label]})
        # failure message of model and AVM must coincide (same opcode raises)
        if got[0] == "fail" and parse_model(mr)[0] == "fail" and got[1] != parse_model(mr)[1]:
            cross.append({"kind": "cross", "n": n, "m": m, "version": version, "ns": ns, "ds": ds, "expected": list(exp),
                          "which": "failure message model vs AVM", "answer": [ex, mr]})


def boundary_tags(ns, ds):
    """which 64/128-bit edges a case sits on (measured, for the evidence)"""
    tags = []
    for name, xs in (("num", ns), ("den", ds)):
        p = 1
        for x in xs:
            p *= x
            if T128 // 2 <= p < T128:
                tags.append(name + "_running_product_in_[2^127,2^128)")
            elif T128 <= p < 2 * T128:
                tags.append(name + "_running_product_in_[2^128,2^129)")
            if p >= T128:
                break
    e = expected(ns, ds)
    pn = pd = 1
    for x in ns:
        pn *= x
    for x in ds:
        pd *= x
    if pd and e[1] not in ("num_overflow", "den_overflow"):
        q = pn // pd
        if T64 - 3 <= q < T64:
            tags.append("quotient_in_[2^64-3,2^64)")
        elif T64 <= q <= T64 + 2:
            tags.append("quotient_in_[2^64,2^64+2]")
        if pn >= T64:
            tags.append("numerator_product_needs_128_bits")
        if pd >= T64:
            tags.append("denominator_product_needs_128_bits")
    return sorted(set(tags))


def nontrivial(ns, ds):
    return any(x > 1 for x in ns + ds)


def run(tier: str) -> int:
    rep = Report("C16", tier, level="proof")
    st = check_proofs(PROOF_MODULES)
    rep.coverage.update(proof_coverage(st, "cd lean && lake build PyTealV.Proofs.C16Lemmas PyTealV.Proofs.C16", [
        "Lean 4 kernel", "PyTealV.Avm.Sem.execPrim (opcode semantics of mulw, *, +, divmodw, uncover, dig, cover, swap, pop, !, assert)",
        "PyTealV.Src.wideProd (source-semantics definition of the 128-bit running product)",
        "tie: harness/props/c16.py ops_tie (real compileTeal output vs Models.WideRatio.wideRatio?)",
        "factor expressions are opaque pushes of one uint64 (Item.fac)"]))
    rep.coverage["main_theorems"] = MAIN_THEOREMS
    missing = [t for t in MAIN_THEOREMS if t not in st.theorems]
    proofs_ok = st.ok and not missing
    if not proofs_ok:
        rep.notes.append("proof problems: " + "; ".join(st.problems + [f"missing theorem {t}" for t in missing]) + " | " + st.log[-1500:])

    quick = tier == "quick"
    nmax = 5 if quick else 8
    tie_versions = VERSIONS
    exec_versions = [5, 10] if quick else VERSIONS
    per_shape = 36 if quick else 400
    lit_per_shape = 6 if quick else 40
    stats = Counter()
    drv = Driver()
    try:
        bad = ops_tie(rep, drv, nmax, tie_versions, stats)
        bad_shapes = {(b["n"], b["m"]) for b in bad}
        r = rng("c16-values")
        mismatches, cross = [], []
        seen, samples, shape_count = set(), [], Counter()
        for n in range(1, nmax + 1):
            for m in range(1, nmax + 1):
                if n == 1 and m == 1:
                    continue
                cases = [(list(a), list(b)) for a, b in FIXED if len(a) == n and len(b) == m]
                k = per_shape * (3 if (n, m) in bad_shapes else 1)
                while len(cases) < k + len([1 for a, b in FIXED if len(a) == n and len(b) == m]):
                    ns, ds = gen_case(r, n, m)
                    cases.append(([clip(x) for x in ns], [clip(x) for x in ds]))
                for v in exec_versions:
                    real = compile_real(n, m, v, "arg")
                    if real[0] != "ok":
                        if (n, m) not in bad_shapes:
                            bad.append({"n": n, "m": m, "version": v, "leaf": "arg", "what": f"real code refuses shape: {real}", "real": list(real), "model": None})
                            bad_shapes.add((n, m))
                        continue
                    run_cases(drv, n, m, v, real[1], cases, stats, mismatches, cross)
                    for where in [("n", i) for i in range(n - 1)] + [("d", i) for i in range(m - 1)]:
                        sh = compile_shared_factor(n, m, v, where)
                        stats["shared_factor_programs"] += 1
                        if sh[0] != "ok":
                            mismatches.append({"kind": "shared-factor", "n": n, "m": m, "version": v, "ns": [], "ds": [], "no_input": True,
                                               "what": f"WideRatio with one object at two adjacent positions {where} refused: {sh[1:]}"})
                            continue
                        base = 0 if where[0] == "n" else n
                        twin = []
                        for ns_, ds_ in cases[:10]:
                            vals = list(ns_) + list(ds_)
                            vals[base + where[1] + 1] = vals[base + where[1]]
                            twin.append((vals[:n], vals[n:]))
                        run_cases(drv, n, m, v, sh[1], twin, stats, mismatches, cross)
                    same = compile_same_object(n, m, v)
                    stats["same_object_programs"] += 1
                    if same[0] != "ok" or same[1] != real[1] or same[2] != real[1]:
                        # generating code from the expression must not change the expression
                        what = (f"a WideRatio object with {n}/{m} factors compiles to other code the second time (version {v})" if same[0] == "ok"
                                else f"a WideRatio object with {n}/{m} factors cannot be compiled again (version {v}): {same[1:]}")
                        before = len(mismatches)
                        if same[0] == "ok":
                            run_cases(drv, n, m, v, same[2], cases[:40], stats, mismatches, cross)
                        if len(mismatches) == before:
                            mismatches.append({"kind": "same-object", "n": n, "m": m, "version": v, "ns": [], "ds": [], "what": what, "no_input": True,
                                               "first": real[1], "second": same[2] if same[0] == "ok" else list(same)})
                    elif same[3].count("divmodw") != 2:
                        mismatches.append({"kind": "same-object", "n": n, "m": m, "version": v, "ns": [], "ds": [], "no_input": True, "teal": same[3],
                                           "what": f"one WideRatio object used at two places of a program does not yield its code twice ({n}/{m} factors, version {v})"})
                    else:
                        # second occurrence executed: the program pops the first result and returns the second
                        run_cases(drv, n, m, v, same[3], cases[:12], stats, mismatches, cross)
                    lit_cases = [c for c in cases if any(x and x & (x - 1) == 0 for x in c[1])][:lit_per_shape] + cases[:lit_per_shape]
                    literal_stream(drv, n, m, v, real[1], lit_cases, r, stats, mismatches)
                for ns, ds in cases:
                    key = (tuple(ns), tuple(ds))
                    if key not in seen:
                        seen.add(key)
                        if nontrivial(ns, ds):
                            stats["distinct_nontrivial"] += 1
                        for t in boundary_tags(ns, ds):
                            stats["edge:" + t] += 1
                        shape_count[f"{n}x{m}"] += 1
                        if len(samples) < 6 and r.random() < 0.01:
                            samples.append({"ns": ns, "ds": ds, "expected": list(expected(ns, ds))})
        nested_stream(drv, rng("c16-nested"), exec_versions, 40 if tier == "quick" else 600, stats, mismatches)
    finally:
        drv.close()

    # ---- verdicts
    for mm in mismatches[:40]:
        rep.violation(mm["what"], mm, no_input=mm.get("no_input", False))
    explained = {(mm["n"], mm["m"]) for mm in mismatches}
    for b in bad[:40]:
        if (b["n"], b["m"]) in explained:
            continue  # a concrete failing input for this shape is already reported
        rep.violation(f"WideRatio op list differs from the verified model for n={b['n']} m={b['m']} version={b['version']} ({b['leaf']} leaves): {b['what']}",
                      dict(b, kind="ops", theorem="PyTealV.Proofs.C16.wideRatio_exact"), no_input=True)
    for c in cross[:20]:
        rep.violation(f"Lean {c['which']} disagrees with the literal property on WideRatio({c['ns']}, {c['ds']}): {c['answer']}",
                      dict(c, theorem="PyTealV.Proofs.C16.wideRatio_run"), no_input=True)
    if not proofs_ok:
        rep.violation("C16 proofs do not check: " + "; ".join(st.problems + [f"missing theorem {t}" for t in missing])[:250],
                      {"kind": "proof", "theorem": "PyTealV.Proofs.C16.wideRatio_exact", "problems": st.problems, "missing": missing}, no_input=True)

    classes = {k[6:]: v for k, v in stats.items() if k.startswith("class:")}
    edges = {k[5:]: v for k, v in stats.items() if k.startswith("edge:")}
    rep.coverage.update({
        "evaluations": stats["exec_evaluations"] + stats["tie_evaluations"],
        "exec_evaluations": stats["exec_evaluations"],
        "cross_evaluations": stats["cross_evaluations"],
        "tie_evaluations": stats["tie_evaluations"],
        "tie_programs_identical": stats["tie_accepting"],
        "tie_rejections_identical": stats["tie_rejecting"],
        "tie_ops_compared": stats["tie_ops_compared"],
        "distinct_nontrivial": stats["distinct_nontrivial"],
        "rule": "a case is non-trivial when some factor is > 1; distinct = distinct (numerators, denominators) tuples",
        "samples": samples,
        "distribution": {"expected_class_of_executions": classes, "distinct_cases_on_an_edge": edges, "distinct_cases_per_shape": dict(shape_count),
                         "shapes": f"1..{nmax} x 1..{nmax} minus 1x1", "tie_versions": tie_versions + [4, 2], "exec_versions": exec_versions,
                         "leaf_kinds": ["Btoi(Txn.application_args[i])", "Int(1000+i)"]},
        "mismatches": {"exec": len(mismatches), "ops": len(bad), "cross": len(cross)},
    })
    rep.assumptions += [
        "factor expressions leave exactly one uint64 on the stack and have no side effect the ratio could observe (opaque leaves)",
        "AVM opcode semantics = PyTealV.Avm.Sem.execPrim (trusted spec); stack-depth limit (1000) and opcode budget are outside the model",
        "assembleConstants=False (constant-block assembly of `int 0` is not part of C16)",
    ]
    return rep.finish()


# ----------------------------------------------------------------------------- replay


def replay(path: str) -> int:
    body = json.loads(open(path).read())
    kind = body.get("kind")
    drv = Driver()
    try:
        if kind in ("exec", "cross"):
            n, m, v, ns, ds = body["n"], body["m"], body["version"], body["ns"], body["ds"]
            print(f"WideRatio({ns}, {ds})  version {v}")
            print("property (python big-int):", expected(ns, ds) if ns else "n/a")
            real = compile_real(n, m, v, "arg")
            if real[0] != "ok":
                print("real code:", real)
                return 1
            print("real TEAL:\n" + real[1])
            a = drv.ask(f"teal t {hexs(real[1].encode())}")
            print("lean AVM parse:", a)
            if a.startswith("ok") and ns:
                drv.ask(f"ctx c {ctx_sexp(v, ns + ds)}")
                ex = drv.ask(f"exec t c {FUEL}")
                print("real TEAL in Lean AVM:", ex)
                print("model c16-run      :", drv.ask(f"c16-run {v} {n} {m} " + " ".join(map(str, ns + ds))))
                print("spec  c16-spec     :", drv.ask(f"c16-spec {n} {m} " + " ".join(map(str, ns + ds))))
                return 0 if same(expected(ns, ds), parse_outcome(ex)) else 1
            return 1
        if kind == "ops":
            n, m, v, leaf = body["n"], body["m"], body["version"], body.get("leaf", "arg")
            real = compile_real(n, m, v, leaf)
            mod = model_ops(drv, v, n, m)
            if real[0] == "ok":
                toks, prob = strip_leaves(real[1], n, m, leaf)
                print("real :", ";".join(toks), prob or "")
            else:
                print("real :", real)
            print("model:", ";".join(mod[1]) if mod[0] == "ok" else mod)
            same_ops = real[0] == "ok" and mod[0] == "ok" and strip_leaves(real[1], n, m, leaf)[0] == mod[1]
            same_err = real[0] == "err" and mod[0] == "err" and real[1] == mod[1]
            return 0 if (same_ops or same_err) else 1
        print("proof-level record:", body.get("what"))
        st = check_proofs(PROOF_MODULES)
        print("proofs ok" if st.ok else "proof problems: " + "; ".join(st.problems))
        return 0 if st.ok else 1
    finally:
        drv.close()


if __name__ == "__main__":
    sys.exit(run(sys.argv[1] if len(sys.argv) > 1 else "quick"))
