"""C14 - inner method calls are marshalled per ARC-4.

Proof level: lean/PyTealV/Proofs/C14.lean about lean/PyTealV/Models/MethodCall.lean
  methodcall_emits             exact characterisation of the submitted group (all signatures)
  methodcall_marshal_partial   = the ARC-4 spec `arc4Call` for <= 15 non-transaction arguments
  methodcall_counterexample    16 plain arguments: 17 application arguments, ARC-4 wants 16
  methodcall_rejects_misfit / methodcall_accepts_only_fits / methodcall_rejects_count
  record_eq_sem                the model's recording function is Avm.Sem's

This check
 1. builds / audits the proofs;
 2. ties the model to the real code: random method signatures (0..20 arguments of plain, reference
    and transaction kinds in any order) are built with the REAL InnerTxnBuilder.MethodCall /
    ExecuteMethodCall, compiled with the REAL compileTeal (versions 6..10) and executed in the Lean
    AVM; the recorded `itxn:[...]` group must be, setting for setting, what the model `c14-model`
    says; a malformed stream (wrong count, wrong ABI type, wrong transaction type, wrong reference
    form, junk) must raise the exception class the model says;
 3. oracle on the real code, independent of model and PyTeal: the recorded group, read field by
    field (`c14-view`), must equal the group an ARC-4 client builds (re-implemented here on top of
    algosdk.abi: selector, ABIType.encode per argument, foreign-array indices, tuple packing beyond
    15) and an ARC-4 callee-side decoder written here must get the given arguments back; the
    Lean spec `c14-spec` must agree with that client encoding too (spec validation);
    malformed calls must raise TealInputError / TealTypeError when built.
 Known finding C14-no-tuple-packing: > 15 non-transaction arguments are never packed.
"""
from __future__ import annotations

import json
import sys

import common
from common import Report, check_proofs, proof_coverage, Driver, rng, hexs

TRUSTED = [
    "Lean 4 kernel; axioms propext, Classical.choice, Quot.sound only",
    "ARC-4 calling convention as written in Models/MethodCall.lean Part A (arc4Call, slotOf, packArgs, tupleEncode): "
    "cross-checked here against an independent client encoder on top of algosdk.abi and a callee-side decoder",
    "itxn_begin/itxn_field/itxn_next/itxn_submit semantics of lean/PyTealV/Avm/Sem.lean (record_eq_sem ties the model's "
    "`record` to it); reading of a settings list (decodeTxn: ApplicationArgs/Accounts/Applications/Assets append, "
    "TypeEnum/ApplicationID overwrite)",
    "model = code: Models/MethodCall.lean Part B mirrors itxn.py MethodCall / SetFields / SetField (validated by this "
    "correspondence run on the real compiled TEAL, and on the build-time exception classes)",
    "SHA-512/256 uninterpreted in Lean: selectors are supplied from algosdk; plain ABI values cross as their algosdk "
    "encoding (PyTeal's ABI encoders are C06/C07's subject); type_spec_is_assignable_to on plain types is a parameter "
    "of the model (C19's subject), instantiated with equality of the canonical type text in the driver",
]

KEY = "C14-no-tuple-packing"
MAXREC = 4
VERSIONS = [6, 7, 8, 9, 10]
FUEL = 400000

PLAIN_TYPES = [
    "uint64", "uint64", "uint64", "uint8", "uint16", "uint32", "byte", "bool", "bool", "string", "string", "address",
    "byte[]", "(uint64,bool)", "(string,uint16)", "(bool,bool,uint8)", "uint16[3]", "bool[3]", "byte[4]", "uint64[]",
    "bool[]", "string[]", "(uint64,(bool,string))", "uint8[2][]", "(uint32,string,bool[2])",
]
TXN_TYPES = ["pay", "axfer", "appl", "txn", "keyreg", "acfg", "afrz"]
TXN_ATTR = {"pay": "Payment", "keyreg": "KeyRegistration", "acfg": "AssetConfig", "axfer": "AssetTransfer",
            "afrz": "AssetFreeze", "appl": "ApplicationCall"}
TXN_CODE = {"unknown": 0, "pay": 1, "keyreg": 2, "acfg": 3, "axfer": 4, "afrz": 5, "appl": 6}
ONCOMPLETE = {"NoOp": 0, "OptIn": 1, "CloseOut": 2, "ClearState": 3, "UpdateApplication": 4, "DeleteApplication": 5}
# fields a generated transaction / extra_fields dict may set (python attribute names of TxnField)
FIELDS_BY_TYPE = {
    "pay": ["receiver", "amount", "close_remainder_to", "note", "fee"],
    "axfer": ["xfer_asset", "asset_amount", "asset_receiver", "asset_sender", "note"],
    "appl": ["application_id", "on_completion", "application_args", "accounts", "assets", "applications", "note", "fee"],
    "keyreg": ["vote_first", "vote_last", "vote_key_dilution", "note"],
    "acfg": ["config_asset", "config_asset_total", "config_asset_name", "config_asset_manager"],
    "afrz": ["freeze_asset", "freeze_asset_account", "freeze_asset_frozen"],
}
EXTRA_FIELDS = ["fee", "on_completion", "note", "accounts", "assets", "applications", "application_args", "rekey_to",
                "global_num_uints", "extra_program_pages"]

SENDER = bytes([1]) * 32
CTX_ACCOUNTS = [SENDER] + [bytes([0x40 + j]) * 32 for j in range(1, 5)]
CTX_ASSETS = [500, 501, 502, 503]
CTX_APPS = [7, 900, 901, 902]
CUR_APP = 7
ZERO = bytes(32)


def _pt():
    sys.path.insert(0, str(common.REPO))
    import pyteal  # noqa: E402  (the code under /repo or VERIF_REPO, imported at run time)
    return pyteal


def sabi():
    from algosdk import abi
    return abi


def mk_ctx(version: int) -> dict:
    return {"mode": "app", "version": version, "args": [], "gi": 0, "salt": 3,
            "global": {"MinTxnFee": 1000, "GroupSize": 1, "CurrentApplicationID": CUR_APP, "ZeroAddress": ZERO,
                       "CurrentApplicationAddress": bytes([0xA0]) * 32},
            "group": [{"Sender": SENDER, "Fee": 1000, "TypeEnum": 6, "GroupIndex": 0, "ApplicationID": CUR_APP,
                       "OnCompletion": 0, "NumAppArgs": 0, "ApplicationArgs": [], "NumAccounts": len(CTX_ACCOUNTS) - 1,
                       "Accounts": CTX_ACCOUNTS, "NumAssets": len(CTX_ASSETS), "Assets": CTX_ASSETS,
                       "NumApplications": len(CTX_APPS) - 1, "Applications": CTX_APPS, "RekeyTo": ZERO}]}


# ------------------------------------------------------------------------------- ABI values


def gen_value(r, t):
    """a JSON-safe Python value of algosdk ABI type t (address: hex text)"""
    A = sabi()
    if isinstance(t, A.UintType):
        return r.choice([0, 1, 2 ** t.bit_size - 1, r.randrange(2 ** t.bit_size)])
    if isinstance(t, A.ByteType):
        return r.randrange(256)
    if isinstance(t, A.BoolType):
        return r.random() < 0.5
    if isinstance(t, A.StringType):
        return "".join(r.choice("abcXYZ 09é\"") for _ in range(r.choice([0, 1, 2, 5, 9])))
    if isinstance(t, A.AddressType):
        return bytes(r.randrange(256) for _ in range(32)).hex()
    if isinstance(t, A.TupleType):
        return [gen_value(r, c) for c in t.child_types]
    if isinstance(t, A.ArrayStaticType):
        return [gen_value(r, t.child_type) for _ in range(t.static_length)]
    if isinstance(t, A.ArrayDynamicType):
        return [gen_value(r, t.child_type) for _ in range(r.choice([0, 1, 2, 3]))]
    raise common.ToolFailure(f"gen_value: {t}")


def sdk_value(t, v):
    A = sabi()
    if isinstance(t, A.AddressType):
        return bytes.fromhex(v)
    if isinstance(t, A.TupleType):
        return [sdk_value(c, x) for c, x in zip(t.child_types, v)]
    if isinstance(t, (A.ArrayStaticType, A.ArrayDynamicType)):
        return [sdk_value(t.child_type, x) for x in v]
    return v


def layout_of(t) -> str:
    A = sabi()
    if isinstance(t, A.BoolType):
        return "bool"
    return "dynamic" if t.is_dynamic() else "static"


def build_abi(pt, t, v, setup: list):
    """a PyTeal ABI instance of algosdk type t holding constant v; appends the setting code"""
    A = sabi()
    inst = pt.abi.type_spec_from_algosdk(t).new_instance()
    if isinstance(t, A.AddressType):
        setup.append(inst.set(pt.Bytes(bytes.fromhex(v))))
    elif isinstance(t, A.TupleType):
        kids = [build_abi(pt, c, x, setup) for c, x in zip(t.child_types, v)]
        setup.append(inst.set(*kids))
    elif isinstance(t, (A.ArrayStaticType, A.ArrayDynamicType)):
        kids = [build_abi(pt, t.child_type, x, setup) for x in v]
        setup.append(inst.set(kids))
    else:
        setup.append(inst.set(v))
    return inst


# ------------------------------------------------------------------------------- case generation
# a case is JSON: {"sig", "version", "variant", "app_id", "args": [ARG], "extra": [ENTRY]}
#   ARG   = {"k": "abi", "type": T, "val": V}                  abi value of type T (T = signature type unless misfit)
#         | {"k": "bytes", "hex": H}                             raw Expr of type bytes
#         | {"k": "int", "n": N}                                 raw Expr of type uint64
#         | {"k": "ref", "what": account|application|asset, "idx": I}   abi.Account()/… holding index I
#         | {"k": "txn", "entries": [ENTRY]}                     dict of TxnField -> …
#         | {"k": "py", "what": "int"|"none"|"str"|"list"}       junk
#   ENTRY = [attr, "int", N] | [attr, "bytes", H] | [attr, "enum", "TxnType"|"OnComplete", member]
#         | [attr, "ints", [N]] | [attr, "byteslist", [H]] | [attr, "sender"]


def gen_entry(r, pt, attr):
    f = getattr(pt.TxnField, attr)
    uint = f.type_of() == pt.TealType.uint64
    if attr == "on_completion":
        return [attr, "enum", "OnComplete", r.choice(list(ONCOMPLETE))]
    if f.is_array:
        n = r.choice([0, 1, 1, 2, 3])
        if uint:
            return [attr, "ints", [r.randrange(1, 2000) for _ in range(n)]]
        return [attr, "byteslist", [bytes(r.randrange(256) for _ in range(32 if attr == "accounts" else r.choice([0, 1, 4]))).hex()
                                    for _ in range(n)]]
    if uint:
        return [attr, "int", r.choice([0, 1, r.randrange(2 ** 32), 2 ** 64 - 1])]
    if attr in ("receiver", "asset_receiver", "asset_sender", "close_remainder_to", "rekey_to", "freeze_asset_account",
                "config_asset_manager"):
        if r.random() < 0.3:
            return [attr, "sender"]
        return [attr, "bytes", bytes(r.randrange(256) for _ in range(32)).hex()]
    return [attr, "bytes", bytes(r.randrange(256) for _ in range(r.choice([0, 1, 3, 8]))).hex()]


def gen_txn_entries(r, pt, want: str):
    """dict entries of a transaction argument for signature type `want`"""
    ty = want if want != "txn" else r.choice(list(TXN_ATTR))
    attrs = [a for a in FIELDS_BY_TYPE[ty] if r.random() < 0.5]
    r.shuffle(attrs)
    entries = [gen_entry(r, pt, a) for a in attrs]
    entries.insert(r.randrange(len(entries) + 1), ["type_enum", "enum", "TxnType", TXN_ATTR[ty]])
    return entries


def gen_arg(r, pt, tname: str):
    A = sabi()
    if A.is_abi_transaction_type(tname):
        return {"k": "txn", "entries": gen_txn_entries(r, pt, tname)}
    if tname == "account":
        if r.random() < 0.4:
            return {"k": "ref", "what": "account", "idx": r.randrange(len(CTX_ACCOUNTS))}
        if r.random() < 0.35:
            # the address given as a leaf expression (this application's own account, the caller, the zero address)
            return {"k": "gexpr", "what": r.choice(["current_application_address", "current_application_address", "zero_address", "sender"])}
        return {"k": "bytes", "hex": bytes(r.randrange(256) for _ in range(32)).hex()}
    if tname == "application":
        if r.random() < 0.4:
            return {"k": "ref", "what": "application", "idx": r.randrange(len(CTX_APPS))}
        return {"k": "int", "n": r.randrange(1, 10 ** 6)}
    if tname == "asset":
        if r.random() < 0.4:
            return {"k": "ref", "what": "asset", "idx": r.randrange(len(CTX_ASSETS))}
        return {"k": "int", "n": r.randrange(1, 10 ** 6)}
    t = A.ABIType.from_string(tname)
    v = gen_value(r, t)
    if r.random() < 0.2:  # already encoded bytes expression
        return {"k": "bytes", "hex": t.encode(sdk_value(t, v)).hex()}
    return {"k": "abi", "type": tname, "val": v}


def gen_kinds(r, n):
    """n signature entries"""
    mode = r.random()
    out = []
    ntx = 0
    for _ in range(n):
        k = r.random()
        if mode < 0.15:
            out.append(r.choice(PLAIN_TYPES))
        elif mode < 0.25:
            out.append(r.choice(["account", "application", "asset"]))
        elif k < 0.55:
            out.append(r.choice(PLAIN_TYPES))
        elif k < 0.80:
            out.append(r.choice(["account", "application", "asset", "asset", "account"]))
        elif ntx < 5:
            out.append(r.choice(TXN_TYPES[:4] if r.random() < 0.8 else TXN_TYPES))
            ntx += 1
        else:
            out.append("uint64")
    return out


def gen_case(r, pt, n=None):
    if n is None:
        n = r.choice(list(range(0, 21)) + [14, 15, 16, 17])
    kinds = gen_kinds(r, n)
    name = "".join(r.choice("abcdefgh_XYZ") for _ in range(r.randrange(1, 7)))
    ret = r.choice(["void", "void", "uint64", "string", "(uint64,bool)", "byte[]"])
    sig = f"{name}({','.join(kinds)}){ret}"
    args = [gen_arg(r, pt, k) for k in kinds]
    extra = None
    if r.random() < 0.6:
        attrs = [a for a in EXTRA_FIELDS if r.random() < 0.3]
        r.shuffle(attrs)
        extra = [gen_entry(r, pt, a) for a in attrs]
        if r.random() < 0.06:
            extra.append(["application_id", "int", r.randrange(1, 1000)])
        if r.random() < 0.04:
            extra.append(["type_enum", "enum", "TxnType", "ApplicationCall"])
    app = r.choice([{"k": "int", "n": r.randrange(1, 10 ** 6)}, {"k": "int", "n": 0}, {"k": "none"}, {"k": "current"},
                    {"k": "int", "n": r.randrange(1, 10 ** 6)}])
    return {"sig": sig, "version": r.choice(VERSIONS), "variant": r.choice(["begin-submit", "execute", "prefixed"]),
            "app_id": app, "args": args, "extra": extra}


# ------------------------------------------------------------------------------- real side


def entry_value(pt, e):
    """(python object for the dict, run-time values [(kind,value)], lean DVal text)"""
    attr, kind = e[0], e[1]
    if kind == "int":
        return pt.Int(e[2]), f"one (u {e[2]})", [e[2]]
    if kind == "bytes":
        b = bytes.fromhex(e[2])
        return pt.Bytes(b), f"one (b {hexs(b)})", [b]
    if kind == "sender":
        return pt.Txn.sender(), f"one (b {hexs(SENDER)})", [SENDER]
    if kind == "enum":
        obj = getattr(getattr(pt, e[2]), e[3])
        code = TXN_CODE[obj.name] if e[2] == "TxnType" else ONCOMPLETE[obj.name]
        return obj, f"enum {obj.name} {code}", [code]
    if kind == "ints":
        return [pt.Int(n) for n in e[2]], "many " + " ".join(f"(u {n})" for n in e[2]), list(e[2])
    if kind == "byteslist":
        bs = [bytes.fromhex(h) for h in e[2]]
        return [pt.Bytes(b) for b in bs], "many " + " ".join(f"(b {hexs(b)})" for b in bs), bs
    if kind == "rawint":       # malformed: a Python int instead of an Expr / a scalar where a list is needed
        return e[2], None, None
    raise common.ToolFailure(f"entry kind {kind}")


def build_dict(pt, entries):
    """entries -> (python dict, lean entries text, settings [(arg_name, value)])"""
    d, lean, settings = {}, [], []
    for e in entries:
        f = getattr(pt.TxnField, e[0])
        obj, l, vals = entry_value(pt, e)
        d[f] = obj
        lean.append(f"({f.arg_name} {l})")
        settings += [(f.arg_name, v) for v in (vals or [])]
    return d, " ".join(lean), settings


class Built:
    """everything derived from a case: the Python objects for the real call, the Lean call text and
    the argument values the caller means"""

    def __init__(self, pt, case):
        A = sabi()
        self.case = case
        self.sig = case["sig"]
        self.method = A.Method.from_signature(self.sig)
        self.selector = self.method.get_selector()
        self.setup = []
        self.pyargs = []
        self.lean_args = []
        self.values = []          # per argument, as the caller means it (None for junk)
        kinds = []
        for a in self.method.args:
            t = a.type
            if isinstance(t, str):
                kinds.append(f"(txn {t})" if A.is_abi_transaction_type(t) else t)
            else:
                kinds.append(f"(plain {hexs(str(t).encode())} {layout_of(t)})")
        self.lean_kinds = kinds
        for i, arg in enumerate(case["args"]):
            self._arg(pt, arg, self.method.args[i].type if i < len(self.method.args) else None)
        app = case["app_id"]
        if app["k"] == "none":
            self.app_obj, self.app_lean, self.app_val = None, "none", None
        elif app["k"] == "current":
            self.app_obj, self.app_lean, self.app_val = pt.Global.current_application_id(), f"(u {CUR_APP})", CUR_APP
        elif app["k"] == "int":
            self.app_obj, self.app_lean, self.app_val = pt.Int(app["n"]), f"(u {app['n']})", app["n"]
        else:  # malformed: bytes-typed
            self.app_obj, self.app_lean, self.app_val = pt.Bytes(b"x"), "(b 78)", None
        if case["extra"] is None:
            self.extra_obj, self.extra_lean, self.extra_settings = None, "", []
        else:
            self.extra_obj, self.extra_lean, self.extra_settings = build_dict(pt, case["extra"])
        self.lean_call = (f"(call {hexs(self.selector)} {self.app_lean} (kinds {' '.join(kinds)}) "
                          f"(args {' '.join(self.lean_args)}) (extra {self.extra_lean}))")

    def _arg(self, pt, arg, t):
        A = sabi()
        k = arg["k"]
        if k == "abi":
            gt = A.ABIType.from_string(arg["type"])
            v = sdk_value(gt, arg["val"])
            enc = gt.encode(v)
            self.pyargs.append(build_abi(pt, gt, arg["val"], self.setup))
            # `as`: the type text the model is told (see the assignable-alias class)
            self.lean_args.append(f"(abi {hexs(arg.get('as', arg['type']).encode())} {hexs(enc)})")
            self.values.append(("plain", enc))
        elif k == "bytes":
            b = bytes.fromhex(arg["hex"])
            self.pyargs.append(pt.Bytes(b))
            self.lean_args.append(f"(expr (b {hexs(b)}))")
            self.values.append(("bytes", b))
        elif k == "gexpr":
            e, b = {"current_application_address": (pt.Global.current_application_address(), bytes([0xA0]) * 32),
                    "zero_address": (pt.Global.zero_address(), ZERO), "sender": (pt.Txn.sender(), SENDER)}[arg["what"]]
            self.pyargs.append(e)
            self.lean_args.append(f"(expr (b {hexs(b)}))")
            self.values.append(("bytes", b))
        elif k == "int":
            self.pyargs.append(pt.Int(arg["n"]))
            self.lean_args.append(f"(expr (u {arg['n']}))")
            self.values.append(("int", arg["n"]))
        elif k == "ref":
            cls = {"account": pt.abi.Account, "application": pt.abi.Application, "asset": pt.abi.Asset}[arg["what"]]
            inst = cls()
            self.setup.append(inst.decode(pt.Bytes(bytes([arg["idx"]]))))
            self.pyargs.append(inst)
            if arg["what"] == "account":
                v = CTX_ACCOUNTS[arg["idx"]]
                self.lean_args.append(f"(account {hexs(v)})")
                self.values.append(("bytes", v))
            else:
                v = (CTX_APPS if arg["what"] == "application" else CTX_ASSETS)[arg["idx"]]
                self.lean_args.append(f"({arg['what']} {v})")
                self.values.append(("int", v))
        elif k == "txn":
            d, lean, settings = build_dict(pt, arg["entries"])
            self.pyargs.append(d)
            self.lean_args.append(f"(dict {lean})")
            self.values.append(("txn", settings))
        elif k == "py":
            self.pyargs.append({"int": 5, "none": None, "str": "x", "list": [pt.Int(1)]}[arg["what"]])
            self.lean_args.append("other")
            self.values.append(None)
        else:
            raise common.ToolFailure(f"arg kind {k}")

    def expr(self, pt):
        """the whole program (raises what MethodCall raises)"""
        kw = dict(app_id=self.app_obj, method_signature=self.sig, args=self.pyargs, extra_fields=self.extra_obj)
        B = pt.InnerTxnBuilder
        v = self.case["variant"]
        if v == "execute":
            body = [B.ExecuteMethodCall(**kw)]
        elif v == "prefixed":
            body = [B.Begin(), B.SetFields({pt.TxnField.type_enum: pt.TxnType.Payment, pt.TxnField.amount: pt.Int(1)}),
                    B.Next(), B.MethodCall(**kw), B.Submit()]
        else:
            body = [B.Begin(), B.MethodCall(**kw), B.Submit()]
        return pt.Seq(*self.setup, *body, pt.Approve())


PREFIX_GROUP = "TypeEnum=u1,Amount=u1"
PREFIX_VIEW = "type=u1|app=-|args=-|accounts=-|apps=-|assets=-|others=Amount=u1"


# ------------------------------------------------------------------------------- independent ARC-4 client + callee


def show_val(v) -> str:
    return f"u{v}" if isinstance(v, int) else "b" + hexs(v)


class View:
    """a transaction as its reader sees it (Python twin of the Lean `TxnView`, written from the AVM
    documentation of itxn_field: array fields accumulate, scalar fields are overwritten)"""

    def __init__(self):
        self.type = self.app = None
        self.args, self.accounts, self.apps, self.assets, self.others = [], [], [], [], []

    def set(self, f, v):
        if f == "TypeEnum":
            self.type = v
        elif f == "ApplicationID":
            self.app = v
        elif f == "ApplicationArgs":
            self.args.append(v)
        elif f == "Accounts":
            self.accounts.append(v)
        elif f == "Applications":
            self.apps.append(v)
        elif f == "Assets":
            self.assets.append(v)
        else:
            self.others.append((f, v))
        return self

    def show(self) -> str:
        o = lambda x: "-" if x is None else show_val(x)  # noqa: E731
        l = lambda xs: ",".join(show_val(x) for x in xs) if xs else "-"  # noqa: E731
        return (f"type={o(self.type)}|app={o(self.app)}|args={l(self.args)}|accounts={l(self.accounts)}|apps={l(self.apps)}"
                f"|assets={l(self.assets)}|others=" + (",".join(f"{f}={show_val(v)}" for f, v in self.others) if self.others else "-"))


def arc4_client(sig: str, values, app_id, extra_settings) -> list[View]:
    """The group an ARC-4 client submits (ARC-4 'Implementing a Method' / 'Calling a Method from Off-Chain'):
    selector, per-argument encoding, reference arguments as uint8 indices into the foreign arrays (accounts and
    applications count from 1, assets from 0), transaction arguments immediately before the call, arguments 15
    and later packed into one tuple.  values: per argument bytes (plain: its encoding; account: address) | int
    (application / asset id) | list of settings (transaction)."""
    A = sabi()
    m = A.Method.from_signature(sig)
    u8 = A.UintType(8)
    call = View().set("TypeEnum", 6)
    if app_id is not None:
        call.set("ApplicationID", app_id)
    txns, slots = [], []  # slots: (type, encoded)
    for a, v in zip(m.args, values):
        t = a.type
        if A.is_abi_transaction_type(t):
            tv = View()
            for f, x in v:
                tv.set(f, x)
            txns.append(tv)
        elif t == "account":
            call.accounts.append(v)
            slots.append((u8, u8.encode(len(call.accounts))))          # index 0 is the sender
        elif t == "application":
            call.apps.append(v)
            slots.append((u8, u8.encode(len(call.apps))))              # index 0 is the called application
        elif t == "asset":
            call.assets.append(v)
            slots.append((u8, u8.encode(len(call.assets) - 1)))
        else:
            slots.append((t, v))
    call.args.append(m.get_selector())
    if len(slots) > 15:
        call.args += [e for _, e in slots[:14]]
        tt = A.TupleType([t for t, _ in slots[14:]])
        call.args.append(tt.encode([t.decode(e) for t, e in slots[14:]]))
    else:
        call.args += [e for _, e in slots]
    for f, x in extra_settings:
        call.set(f, x)
    return txns + [call]


def parse_views(text: str):
    """views text -> list of dicts (to let the callee-side decoder read the REAL group)"""
    out = []
    for t in text.split(";"):
        d = {}
        for part in t.split("|"):
            k, _, v = part.partition("=")
            d[k] = v
        out.append(d)
    return out


def unval(s: str):
    if s.startswith("u"):
        return int(s[1:])
    return b"" if s == "b-" else bytes.fromhex(s[1:])


def arc4_callee(sig: str, views: list[dict], sender: bytes, called_app):
    """What an ARC-4 method implementation reads from the group whose last transaction is the call: per
    argument bytes | int | the transaction's type code. Raises ValueError when undecodable."""
    A = sabi()
    m = A.Method.from_signature(sig)
    call = views[-1]
    lst = lambda k: [] if call[k] == "-" else [unval(x) for x in call[k].split(",")]  # noqa: E731
    args, accounts, apps, assets = lst("args"), lst("accounts"), lst("apps"), lst("assets")
    if not args or args[0] != m.get_selector():
        raise ValueError("first application argument is not the selector")
    nontx = [a.type for a in m.args if not A.is_abi_transaction_type(a.type)]
    ntx = len(m.args) - len(nontx)
    u8 = A.UintType(8)
    slot_t = [u8 if isinstance(t, str) else t for t in nontx]
    if len(nontx) > 15:
        if len(args) < 16:
            raise ValueError("tuple of arguments 15.. missing")
        enc = args[1:15] + list(_split_tuple(A.TupleType(slot_t[14:]), args[15]))
    else:
        enc = args[1:1 + len(nontx)]
        if len(enc) != len(nontx):
            raise ValueError("too few application arguments")
    if len(views) - 1 < ntx:
        raise ValueError("too few transactions before the call")
    txs = views[len(views) - 1 - ntx:len(views) - 1]
    out, ei, ti = [], 0, 0
    for a in m.args:
        t = a.type
        if A.is_abi_transaction_type(t):
            out.append(("txn", txs[ti]))
            ti += 1
            continue
        e = enc[ei]
        ei += 1
        if t == "account":
            i = u8.decode(e)
            out.append(sender if i == 0 else accounts[i - 1])
        elif t == "application":
            i = u8.decode(e)
            out.append(called_app if i == 0 else apps[i - 1])
        elif t == "asset":
            out.append(assets[u8.decode(e)])
        else:
            t.decode(e)  # must be a valid encoding
            out.append(e)
    return out


def _split_tuple(tt, enc: bytes):
    vals = tt.decode(enc)
    return [t.encode(v) for t, v in zip(tt.child_types, vals)]


# ------------------------------------------------------------------------------- the check


class Ctx:
    def __init__(self, rep: Report):
        self.rep = rep
        self.pt = _pt()
        from pyteal.errors import TealInputError, TealTypeError
        self.TealInputError, self.TealTypeError = TealInputError, TealTypeError
        self.drv = Driver()
        self.n = 0
        self.distinct = set()
        self.dist: dict = {}
        self.samples: list = []
        self.mismatch: list = []
        self.nrec: dict = {}
        self.skipped: dict = {}
        self.ctx_done = set()
        self.tid = 0

    def count(self, cls: str, key):
        self.n += 1
        self.dist[cls] = self.dist.get(cls, 0) + 1
        self.distinct.add(key)

    def bump(self, name: str, k=1):
        self.dist[name] = self.dist.get(name, 0) + k

    def violate(self, cls, what, replay, key=None):
        k = key or cls
        self.nrec[k] = self.nrec.get(k, 0) + 1
        if (key is not None and self.rep.match_known(key) is not None) or self.nrec[k] <= MAXREC:
            self.rep.violation(what, replay, key=key)

    def build(self, case):
        """('ok', teal, Built) | ('err', class name, Built|None)"""
        pt = self.pt
        b = None
        try:
            b = Built(pt, case)
            e = b.expr(pt)
        except self.TealInputError:
            return ("err", "TealInputError", b)
        except self.TealTypeError:
            return ("err", "TealTypeError", b)
        except Exception as ex:  # noqa: BLE001
            return ("err", type(ex).__name__, b)
        teal = pt.compileTeal(e, pt.Mode.Application, version=case["version"])
        return ("ok", teal, b)

    def execute(self, teal: str, version: int, sig: str, selector: bytes):
        """run the real TEAL in the Lean AVM -> ('group', text) | ('other', answer)"""
        d = self.drv
        if version not in self.ctx_done:
            import recipes
            a = d.ask(f"ctx c{version} " + recipes.render_ctx(mk_ctx(version)))
            if a != "ok":
                raise common.ToolFailure("ctx: " + a)
            self.ctx_done.add(version)
        d.ask("sel " + hexs(sig.encode()) + " " + hexs(selector))
        a = d.ask("teal t " + hexs(teal.encode()))
        if not a.startswith("ok"):
            return ("other", "TEAL does not parse: " + a)
        a = d.ask(f"exec t c{version} {FUEL}")
        if a.startswith("done u1 [") and a.count("itxn:[") == 1:
            i = a.index("itxn:[") + 6
            j = a.index("]", i)
            return ("group", a[i:j])
        return ("other", a)


def well_formed_case(cx: Ctx, case, cls="call"):
    """one well-formed call through real code, model, spec and the independent oracles"""
    A = sabi()
    r = cx.build(case)
    b = r[2]
    key = json.dumps(case, sort_keys=True)
    nontx = sum(1 for a in A.Method.from_signature(case["sig"]).args if not A.is_abi_transaction_type(a.type))
    kinds = [("txn" if A.is_abi_transaction_type(a.type) else a.type if isinstance(a.type, str) else "plain")
             for a in A.Method.from_signature(case["sig"]).args]
    cx.count(f"{cls}/nontxn{'<=15' if nontx <= 15 else '>15'}", key)
    cx.bump(f"nargs/{len(kinds):02d}")
    cx.bump(f"version/{case['version']}")
    cx.bump(f"variant/{case['variant']}")
    for k in kinds:
        cx.bump("argkind/" + k)
    for a in case["args"]:
        cx.bump("argform/" + a["k"] + ("-" + a["what"] if a["k"] == "ref" else ""))
    if r[0] != "ok":
        cx.violate("rejected-wellformed", f"well-formed method call rejected at build time ({r[1]}): {case['sig']}", {"case": case})
        return
    teal = r[1]
    m = cx.drv.ask("c14-model " + b.lean_call)
    sp = cx.drv.ask("c14-spec " + b.lean_call)
    ex = cx.execute(teal, case["version"], b.sig, b.selector)
    if ex[0] != "group":
        if "unmodelled" in ex[1] or "outOfFuel" in ex[1]:
            cx.skipped[ex[1][:60]] = cx.skipped.get(ex[1][:60], 0) + 1
            return
        cx.violate("run", f"compiled inner method call does not run to approval with one inner group: {ex[1][:200]}",
                   {"case": case, "outcome": ex[1][:500]})
        return
    group = ex[1]
    pre_g, pre_v = (PREFIX_GROUP + ";", PREFIX_VIEW + ";") if case["variant"] == "prefixed" else ("", "")
    real_view = cx.drv.ask(f"c14-view [{group}]")
    values = [v[1] for v in b.values]
    want = pre_v + ";".join(v.show() for v in arc4_client(b.sig, values, b.app_val, b.extra_settings))
    oracle_failed = False
    # --- callee-side reading of the REAL group
    try:
        got = arc4_callee(b.sig, parse_views(real_view), SENDER, b.app_val)
        exp = []
        for v in b.values:
            if v[0] == "txn":
                tv = View()
                for f, x in v[1]:
                    tv.set(f, x)
                exp.append(("txn", parse_views(tv.show())[0]))
            else:
                exp.append(v[1])
        callee_ok = got == exp
        callee_msg = "" if callee_ok else f"callee reads {str(got)[:200]}"
    except Exception as e:  # noqa: BLE001
        callee_ok, callee_msg = False, f"callee cannot decode: {type(e).__name__}: {e}"
    if real_view != want or not callee_ok:
        oracle_failed = True
        rp = {"case": case, "real_group": group, "real_view": real_view, "arc4_client_view": want, "callee": callee_msg}
        if nontx > 15 and "ok " + group == _with_prefix(m, pre_g):
            cx.violate("no-packing", f"{nontx} non-transaction arguments are passed as {nontx + 1} application arguments; "
                       f"ARC-4 packs arguments 15.. into one tuple ({case['sig']})", rp, key=KEY)
        else:
            what = ("inner group differs from the ARC-4 client encoding" if real_view != want else
                    "an ARC-4 callee does not read the arguments given") + f" ({case['sig']}): {callee_msg or ''}"
            cx.violate("marshal", what[:400], rp)
    if len(cx.samples) < 12 and len(kinds) >= 3 and cx.n % 19 == 0:
        cx.samples.append({"sig": case["sig"], "version": case["version"], "variant": case["variant"],
                           "real_group": group[:300], "arc4_client": want[:300]})
    # --- model = code (setting for setting)
    if _with_prefix(m, pre_g) != "ok " + group and not oracle_failed:
        cx.mismatch.append({"class": "model-group", "case": case, "real": group, "model": m})
    # --- spec = independent client encoding (spec validation; independent of the real code)
    if sp != "ok " + want[len(pre_v):]:
        cx.rep.violation(f"Lean spec arc4Call disagrees with the independent ARC-4 client encoding for {case['sig']}: "
                         f"{sp[:150]} vs {want[:150]}", {"kind": "spec", "case": case, "spec": sp, "client": want},
                         no_input=True)


def _with_prefix(model_answer: str, pre_g: str) -> str:
    if model_answer.startswith("ok "):
        return "ok " + pre_g + model_answer[3:]
    return model_answer


# malformed stream --------------------------------------------------------------------------


def mutate_malformed(r, pt, case):
    """one defect injected into a well-formed case -> (case, label) or None"""
    A = sabi()
    c = json.loads(json.dumps(case))
    m = A.Method.from_signature(c["sig"])
    types = [a.type for a in m.args]
    idx = lambda pred: [i for i, t in enumerate(types) if pred(t)]  # noqa: E731
    plain = idx(lambda t: not isinstance(t, str))
    txs = idx(lambda t: isinstance(t, str) and A.is_abi_transaction_type(t))
    refs = idx(lambda t: isinstance(t, str) and not A.is_abi_transaction_type(t))
    kind = r.choice(["count+", "count-", "abi-type", "abi-type", "txn-type", "txn-type", "txn-noenum", "txn-notenum",
                     "txn-unknown", "txn-notdict", "ref-exprtype", "ref-wrongref", "plain-uint-expr", "plain-dict",
                     "plain-ref", "junk", "appid-bytes", "extra-scalar-list", "extra-array-scalar", "extra-type",
                     "txn-field-type", "abi-arity", "abi-arity", "abi-arity"])
    if kind == "count+":
        c["args"].append({"k": "int", "n": 1})
    elif kind == "count-":
        if not c["args"]:
            return None
        c["args"].pop(r.randrange(len(c["args"])))
        if len(c["args"]) == len(types):
            return None
    elif kind == "abi-type":
        if not plain:
            return None
        i = r.choice(plain)
        cands = [t for t in dict.fromkeys(PLAIN_TYPES) if normal(t) != normal(str(types[i]))]
        g = r.choice(cands)
        gt = A.ABIType.from_string(g)
        c["args"][i] = {"k": "abi", "type": g, "val": gen_value(r, gt)}
    elif kind == "abi-arity":
        # a tuple with one member fewer / more than the signature's (a prefix, or an extension): never assignable
        cand = [j for j in plain if "(" in str(types[j])]
        if not cand:
            return None
        i = r.choice(cand)
        tt = A.ABIType.from_string(str(types[i]))

        def reshape(t):
            """first tuple found (depth first): drop its last member or repeat it"""
            if isinstance(t, A.TupleType):
                kids = list(t.child_types)
                if len(kids) >= 2 and r.random() < 0.5:
                    return A.TupleType(kids[:-1]), True
                return A.TupleType(kids + [kids[-1] if kids else A.UintType(8)]), True
            if isinstance(t, A.ArrayStaticType):
                c, ok = reshape(t.child_type)
                return A.ArrayStaticType(c, t.static_length), ok
            if isinstance(t, A.ArrayDynamicType):
                c, ok = reshape(t.child_type)
                return A.ArrayDynamicType(c), ok
            return t, False
        gt, ok = reshape(tt)
        if not ok:
            return None
        c["args"][i] = {"k": "abi", "type": str(gt), "val": gen_value(r, gt)}
    elif kind == "txn-type":
        i = pick(r, [j for j in txs if types[j] != "txn"])
        if i is None:
            return None
        other = r.choice([t for t in TXN_ATTR if t != types[i]])
        for e in c["args"][i]["entries"]:
            if e[0] == "type_enum":
                e[3] = TXN_ATTR[other]
    elif kind == "txn-noenum":
        i = pick(r, txs)
        if i is None:
            return None
        c["args"][i]["entries"] = [e for e in c["args"][i]["entries"] if e[0] != "type_enum"]
    elif kind == "txn-notenum":
        i = pick(r, txs)
        if i is None:
            return None
        for e in c["args"][i]["entries"]:
            if e[0] == "type_enum":
                e[1:] = ["int", 1]
    elif kind == "txn-unknown":
        i = pick(r, txs)
        if i is None:
            return None
        for e in c["args"][i]["entries"]:
            if e[0] == "type_enum":
                e[3] = "Unknown"
    elif kind == "txn-notdict":
        i = pick(r, txs)
        if i is None:
            return None
        c["args"][i] = r.choice([{"k": "int", "n": 1}, {"k": "bytes", "hex": "00"}, {"k": "abi", "type": "uint64", "val": 1},
                                 {"k": "py", "what": "list"}])
    elif kind == "ref-exprtype":
        i = pick(r, refs)
        if i is None:
            return None
        c["args"][i] = {"k": "int", "n": 3} if types[i] == "account" else {"k": "bytes", "hex": "00" * 8}
    elif kind == "ref-wrongref":
        i = pick(r, refs)
        if i is None:
            return None
        c["args"][i] = {"k": "ref", "what": r.choice([w for w in ("account", "application", "asset") if w != types[i]]), "idx": 1}
    elif kind == "plain-uint-expr":
        i = pick(r, plain)
        if i is None:
            return None
        c["args"][i] = {"k": "int", "n": 7}
    elif kind == "plain-dict":
        i = pick(r, plain)
        if i is None:
            return None
        c["args"][i] = {"k": "txn", "entries": [["type_enum", "enum", "TxnType", "Payment"]]}
    elif kind == "plain-ref":
        i = pick(r, plain)
        if i is None:
            return None
        c["args"][i] = {"k": "ref", "what": r.choice(["account", "application", "asset"]), "idx": 1}
    elif kind == "junk":
        if not c["args"]:
            return None
        c["args"][r.randrange(len(c["args"]))] = {"k": "py", "what": r.choice(["int", "none", "str"])}
    elif kind == "appid-bytes":
        c["app_id"] = {"k": "bytes"}
    elif kind == "extra-scalar-list":
        c["extra"] = (c["extra"] or []) + [["note", "byteslist", ["00"]]]
    elif kind == "extra-array-scalar":
        c["extra"] = (c["extra"] or []) + [["accounts", "bytes", "00" * 32]]
    elif kind == "extra-type":
        c["extra"] = (c["extra"] or []) + [r.choice([["fee", "bytes", "00"], ["note", "int", 1], ["assets", "byteslist", ["00"]]])]
    elif kind == "txn-field-type":
        i = pick(r, txs)
        if i is None:
            return None
        c["args"][i]["entries"].append(r.choice([["lease", "int", 1], ["first_valid", "bytes", "00"],
                                                 ["lease", "byteslist", ["00"]], ["logs", "bytes", "00"]]))
    return c, kind


def pick(r, xs):
    return r.choice(xs) if xs else None


def normal(t: str) -> str:
    """ARC-4 layout class of a type text: byte = uint8, address = uint8[32], string = uint8[]"""
    return t.replace("address", "uint8[32]").replace("string", "uint8[]").replace("byte", "uint8")


def malformed_case(cx: Ctx, case, label):
    r = cx.build(case)
    b = r[2]
    cx.count("malformed/" + label, json.dumps(case, sort_keys=True))
    real = {"TealInputError": "err input", "TealTypeError": "err type"}.get(r[1], r[1]) if r[0] == "err" else "ok"
    if r[0] == "ok":
        cx.violate("accepted-malformed", f"ill-fitting method call accepted when built ({label}): {case['sig']}",
                   {"case": case, "label": label})
        return
    if real not in ("err input", "err type"):
        cx.violate("wrong-exception", f"ill-fitting method call ({label}) raises {r[1]}, not TealInputError/TealTypeError: "
                   f"{case['sig']}", {"case": case, "label": label})
        return
    if b is None:
        cx.mismatch.append({"class": "malformed-unbuildable", "case": case, "label": label})
        return
    m = cx.drv.ask("c14-model " + b.lean_call)
    if m != real:
        cx.mismatch.append({"class": "malformed-class", "case": case, "label": label, "real": real, "model": m})


# fixed streams ------------------------------------------------------------------------------


def lean_counterexample_case():
    """`sig16`/`args16` of Proofs/C14.lean on the real code (the selector differs: the Lean one is symbolic)"""
    return {"sig": "f(" + ",".join(["uint64"] * 16) + ")void", "version": 8, "variant": "begin-submit",
            "app_id": {"k": "int", "n": 1}, "args": [{"k": "abi", "type": "uint64", "val": i} for i in range(16)], "extra": None}


def alias_cases(r):
    """assignable although the type texts differ (same ARC-4 layout): the model is told the signature's type
    (`as`) - the relation itself is C19's subject; the oracles run unchanged"""
    pairs = [("uint8", "byte"), ("byte", "uint8"), ("string", "byte[]"), ("address", "byte[32]"), ("(uint8,string)", "(byte,byte[])"),
             ("uint8[3]", "byte[3]"), ("string[]", "byte[][]")]
    out = []
    A = sabi()
    for given, expected in pairs:
        gt = A.ABIType.from_string(given)
        for v in range(2):
            out.append({"sig": f"al({expected},uint64){'void' if v else 'uint64'}", "version": r.choice(VERSIONS),
                        "variant": "begin-submit", "app_id": {"k": "int", "n": 9},
                        "args": [{"k": "abi", "type": given, "val": gen_value(r, gt), "as": expected},
                                 {"k": "abi", "type": "uint64", "val": v}], "extra": None})
    return out


def run_fields(cx: Ctx):
    """the model's TxnField table = the real enum"""
    pt = cx.pt
    real = ",".join(f"{f.arg_name}:{'u' if f.type_of() == pt.TealType.uint64 else 'b'}:{1 if f.is_array else 0}" for f in pt.TxnField)
    m = cx.drv.ask("c14-fields")
    cx.count("fields", "fields")
    if real != m:
        cx.mismatch.append({"class": "fields", "real": real[:300], "model": m[:300]})


def run_pack(cx: Ctx, tier):
    """spec validation: packArgs / tupleEncode vs algosdk TupleType on random slot lists (no PyTeal involved)"""
    A = sabi()
    r = rng("c14-pack")
    N = 600 if tier == "thorough" else 120
    for _ in range(N):
        n = r.choice([0, 1, 14, 15, 16, 16, 17, 18, 20, 24, 30])
        ts = [A.ABIType.from_string(r.choice(PLAIN_TYPES + ["bool"] * 6)) for _ in range(n)]
        encs = [t.encode(sdk_value(t, gen_value(r, t))) for t in ts]
        if n > 15:
            want = encs[:14] + [A.TupleType(ts[14:]).encode([t.decode(e) for t, e in zip(ts[14:], encs[14:])])]
        else:
            want = encs
        a = cx.drv.ask("c14-pack " + " ".join(f"({hexs(e)} {layout_of(t)})" for t, e in zip(ts, encs)))
        cx.count("spec-pack/" + ("<=15" if n <= 15 else ">15"), (tuple(map(str, ts)), tuple(encs)))
        if a != "ok " + ",".join(hexs(e) for e in want):
            cx.rep.violation(f"Lean packArgs disagrees with algosdk tuple encoding on types {[str(t) for t in ts]}",
                             {"kind": "pack", "types": [str(t) for t in ts], "encs": [e.hex() for e in encs], "lean": a},
                             no_input=True)
            return


def run(tier: str) -> int:
    rep = Report("C14", tier, level="proof")
    st = check_proofs(["PyTealV.Proofs.C14"], extra_files=[common.LEAN / "PyTealV/Models/MethodCall.lean"])
    rep.coverage.update(proof_coverage(st, "cd lean && lake build PyTealV.Proofs.C14", TRUSTED))
    need = ["methodcall_emits", "methodcall_marshal_partial", "executemethodcall_marshal_partial", "methodcall_counterexample",
            "methodcall_rejects_misfit", "methodcall_accepts_only_fits", "methodcall_rejects_count", "record_eq_sem"]
    missing = [t for t in need if "PyTealV.Proofs.C14." + t not in st.theorems]
    if st.build_ok and missing:
        st.problems.append("theorems missing: " + ", ".join(missing))
    if not st.ok:
        rep.notes.append("proof problems: " + "; ".join(st.problems) + " :: " + st.log[-1500:])
    cx = Ctx(rep)
    pt = cx.pt
    try:
        run_fields(cx)
        run_pack(cx, tier)
        # the Lean counterexample, on the real code
        well_formed_case(cx, lean_counterexample_case(), cls="lean-counterexample")
        r = rng("c14-alias")
        for c in alias_cases(r):
            well_formed_case(cx, c, cls="assignable-alias")
        r = rng("c14-calls")
        N = 6000 if tier == "thorough" else 260
        cases = [gen_case(r, pt, n) for n in range(0, 21)] + [gen_case(r, pt) for _ in range(N)]
        for c in cases:
            well_formed_case(cx, c)
        # every version on a subset
        for c in cases[:40 if tier == "thorough" else 8]:
            for v in VERSIONS:
                if v != c["version"]:
                    well_formed_case(cx, dict(c, version=v), cls="call-allversions")
        r = rng("c14-malformed")
        M = 5000 if tier == "thorough" else 400
        made = 0
        for c in cases:
            if made >= M:
                break
            for _ in range(2):
                mm = mutate_malformed(r, pt, c)
                if mm is not None:
                    malformed_case(cx, mm[0], mm[1])
                    made += 1
    finally:
        cx.drv.close()
    found_input = bool(rep.violations)
    if cx.mismatch:
        rep.violation(f"model/code correspondence broken on {len(cx.mismatch)} inputs (first: {str(cx.mismatch[0])[:600]})",
                      {"kind": "correspondence", "first": cx.mismatch[:5]}, no_input=not found_input)
    if not st.ok:
        rep.violation("C14 proofs do not check: " + "; ".join(st.problems)[:200],
                      {"kind": "proof", "problems": st.problems}, no_input=not found_input)
    nskip = sum(cx.skipped.values())
    if nskip * 20 > max(cx.n, 1):
        rep.violation(f"{nskip} of {cx.n} compiled calls could not be executed by the Lean AVM: {cx.skipped}",
                      {"kind": "skipped", "skipped": cx.skipped}, no_input=True)
    rep.assumptions += [
        "SetField with a TxnArray value (a For loop over e.g. Txn.accounts), TealType.none / anytype expressions as arguments, "
        "malformed signature texts (algosdk parse errors, ufixed) and user-made EnumInt objects are outside the model; "
        "the malformed stream exercises the real code on junk Python objects",
        "type_spec_is_assignable_to on plain types is a parameter of the Lean model; in the driver it is equality of the "
        "canonical type text. Misfits are drawn from different ARC-4 layout classes (byte=uint8, address=uint8[32], "
        "string=uint8[]); assignable pairs with different texts are run with the model told the signature's type "
        "(class assignable-alias) - the relation itself is C19's subject",
        "plain ABI values cross as algosdk encodings; a PyTeal ABI encoder bug would show as a model/real group difference "
        "here but belongs to C06/C07",
        "run-time limits of the ledger (16 application arguments, 4 accounts, 8 references, 16 inner transactions) are not "
        "enforced by the Lean AVM: the recorded group is compared as built",
        "uint8 index overflow (>= 256 references of one kind) raises algosdk ABIEncodingError in PyTeal (modelled as "
        "Err.encoding, excluded by the spec returning none); not generated",
    ]
    rep.coverage.update({
        "evaluations": cx.n,
        "distinct_nontrivial": len(cx.distinct),
        "rule": "well-formed call: REAL MethodCall -> REAL compileTeal -> Lean AVM; recorded group == model group (exact); "
                "group read field-wise == independent ARC-4 client encoding (algosdk.abi) and an ARC-4 callee-side decoder "
                "returns the given arguments; Lean spec == client encoding. malformed call: TealInputError/TealTypeError at "
                "build, class == model's",
        "samples": cx.samples[:12],
        "distribution": dict(sorted(cx.dist.items())),
        "driver_queries": cx.drv.n,
        "not_executable_in_lean_avm": cx.skipped,
        "correspondence_mismatches": len(cx.mismatch),
    })
    return rep.finish()


def replay(path: str) -> int:
    body = json.loads(open(path).read())
    case = body.get("case")
    if case is None and body.get("kind") == "correspondence":
        case = body["first"][0].get("case")
    if case is None:
        print("nothing to re-run for", {k: body[k] for k in body if k != "what"})
        return 0
    cx = Ctx(Report("C14", "replay", level="proof"))
    try:
        print("case:", json.dumps(case))
        r = cx.build(case)
        b = r[2]
        if b is not None:
            print("model      :", cx.drv.ask("c14-model " + b.lean_call)[:3000])
            print("lean spec  :", cx.drv.ask("c14-spec " + b.lean_call)[:3000])
        if r[0] != "ok":
            print("real       : raises", r[1])
            return 0
        ex = cx.execute(r[1], case["version"], b.sig, b.selector)
        print("real       :", ex[0], ex[1][:3000])
        if ex[0] == "group":
            print("real, read :", cx.drv.ask(f"c14-view [{ex[1]}]")[:3000])
            try:
                values = [v[1] for v in b.values]
                pre = PREFIX_VIEW + ";" if case["variant"] == "prefixed" else ""
                print("arc4 client:", (pre + ";".join(v.show() for v in arc4_client(b.sig, values, b.app_val, b.extra_settings)))[:3000])
                print("arc4 callee:", str(arc4_callee(b.sig, parse_views(cx.drv.ask(f"c14-view [{ex[1]}]")), SENDER, b.app_val))[:1500])
            except Exception as e:  # noqa: BLE001
                print("arc4 client/callee:", type(e).__name__, e)
        return 0
    finally:
        cx.drv.close()
