"""C06 - ABI values assembled in PyTeal with set(...) encode exactly per ARC-4.

Proof level: `PyTealV.Proofs.C06` (descr_agree, uintSet_range, encodeTuple_correct, pySet_correct and
corollaries) about the Lean model `PyTealV.Models.AbiEncode` of the PyTeal ABI encoders, over the
ARC-4 specification `PyTealV.Arc4`.

What this check does at run time
  1. builds the proofs, greps for escape hatches, audits axioms;
  2. validates the ARC-4 specification against `algosdk.abi` (arc4util.validate_spec);
  3. descriptor correspondence: for every type shape (exhaustive up to a size bound over PyTeal's
     TypeSpec classes incl. the alias classes Byte/Uint8, Address/StaticBytes/StaticArray[Byte],
     String/DynamicBytes/DynamicArray[Byte], Tuple/NamedTuple; random beyond) the REAL
     `str(spec)`, `is_dynamic()`, `byte_length_static()`, `_stride()` versus the Lean model versus
     `algosdk.abi.ABIType.from_string(str(spec))`; plus `type_spec_from_algosdk` /
     `type_spec_from_annotation` round trips;
  4. the real thing, end to end: for (type, input) pairs a PyTeal program is BUILT with the real
     API - leaves `set` from Python constants and from expressions (`Btoi(Txn.application_args[i])`,
     `Txn.application_args[i]`, `Int(..)`, `Bytes(..)`), containers assembled bottom-up with
     `set([...])` / `set(*values)`, named tuples through `abi.NamedTuple` subclasses - then
     `Log(value.encode())`; compiled with the real `compileTeal` for versions 5..10 in the storage
     back-ends main routine (scratch slots), `Subroutine` (scratch slots below v8, frame variables
     from v8) and `ABIReturnSubroutine` (output variable + frame variables); the TEAL is EXECUTED on
     the Lean AVM (`exec`) and the logged bytes are compared with `algosdk` (the oracle), with the
     Lean model (`c06-set`) and with `Arc4.encode`.  Out-of-range Python ints / wrong-length constants
     must raise while the program is built, out-of-range expression values must make the program
     FAIL.
PyTeal formats a Python stack trace for every Expr it creates (diagnostics only); the stdlib
formatter is stubbed during builds (`families.quiet_traces`), otherwise ABI-heavy builds take minutes.
"""
from __future__ import annotations

import json
import sys
import time

import common
from common import Report, check_proofs, proof_coverage, Driver, rng, hexs

import arc4util as U

PROOF_MODULES = ["PyTealV.Proofs.C06Lemmas", "PyTealV.Proofs.C06"]
EXTRA_FILES = [common.LEAN / "PyTealV" / "Proofs" / "Arc4.lean", common.LEAN / "PyTealV" / "Proofs" / "Arc4Decode.lean",
               common.LEAN / "PyTealV" / "Models" / "AbiEncode.lean", common.LEAN / "PyTealV" / "Arc4.lean"]
TRUSTED = [
    "Lean 4 kernel; axioms propext, Classical.choice, Quot.sound only",
    "lean/PyTealV/Arc4.lean: the ARC-4 codec specification (hand-written from the standard; validated against algosdk.abi on every run)",
    "lean/PyTealV/Models/AbiEncode.lean: hand-written model of the TypeSpec descriptors, of the byte computation emitted by _encode_tuple / uint_set / uint_encode / Array.set / String.set / Address.set (tied to /repo by executing the really compiled TEAL and by the descriptor correspondence run)",
    "lean/PyTealV/Avm/*: the AVM interpreter that executes the compiled TEAL (opcode semantics written from the AVM specification)",
    "PyTeal's compiler from the ABI expression to TEAL (exercised, not modelled, here: C01-C05)",
    "harness/props/c06.py + harness/arc4util.py: program construction through the public API, rendering, comparison",
    "algosdk.abi as the reference codec",
]
AVM_MAX_BYTES = 4096
sys.setrecursionlimit(max(sys.getrecursionlimit(), 20000))  # the real compiler recurses once per statement (C20's subject, not ours)

# --------------------------------------------------------------------------------------- real code


def load_pyteal():
    sys.path.insert(0, str(common.REPO))
    import pyteal as pt  # noqa: E402
    from pyteal import abi  # noqa: E402
    return pt, abi


def quiet():
    from families import quiet_traces
    return quiet_traces()


# P-types: JSON-able ASTs of PyTeal TypeSpec OBJECTS
#   ["bool"] ["byte"] ["u8"] ["u16"] ["u32"] ["u64"] ["address"] ["string"] ["dynbytes"]
#   ["stbytes", n] ["sa", n, T] ["da", T] ["tup", T...] ["nt", T...]
UINT_BITS = {"byte": 8, "u8": 8, "u16": 16, "u32": 32, "u64": 64}


class World:
    """real TypeSpec objects / instances from P-types"""

    def __init__(self, abi):
        self.abi = abi
        self.classes: dict = {}
        self.cache: dict = {}

    def named_class(self, fields):
        key = json.dumps(fields)
        c = self.classes.get(key)
        if c is None:
            anns = {}
            for i, f in enumerate(fields):
                anns[f"f{i}"] = self.abi.Field[self.spec(f).annotation_type()]
            c = type(f"NT{len(self.classes)}", (self.abi.NamedTuple,), {"__annotations__": anns})
            self.classes[key] = c
        return c

    def spec(self, p):
        key = json.dumps(p)
        s = self.cache.get(key)
        if s is not None:
            return s
        abi, k = self.abi, p[0]
        if k == "bool":
            s = abi.BoolTypeSpec()
        elif k == "byte":
            s = abi.ByteTypeSpec()
        elif k in ("u8", "u16", "u32", "u64"):
            s = {"u8": abi.Uint8TypeSpec, "u16": abi.Uint16TypeSpec, "u32": abi.Uint32TypeSpec, "u64": abi.Uint64TypeSpec}[k]()
        elif k == "address":
            s = abi.AddressTypeSpec()
        elif k == "string":
            s = abi.StringTypeSpec()
        elif k == "dynbytes":
            s = abi.DynamicBytesTypeSpec()
        elif k == "stbytes":
            s = abi.StaticBytesTypeSpec(p[1])
        elif k == "sa":
            s = abi.StaticArrayTypeSpec(self.spec(p[2]), p[1])
        elif k == "da":
            s = abi.DynamicArrayTypeSpec(self.spec(p[1]))
        elif k == "tup":
            s = abi.TupleTypeSpec(*[self.spec(x) for x in p[1:]])
        elif k == "nt":
            s = self.named_class(p[1:])().type_spec()
        else:
            raise ValueError(p)
        self.cache[key] = s
        return s

    def instance(self, p):
        if p[0] == "nt":
            return self.named_class(p[1:])()
        return self.spec(p).new_instance()


def nt_ok(world, fields) -> bool:
    """can a NamedTuple class with these fields be declared? (needs >= 1 field and annotation types,
    which do not exist for plain tuples of more than 5 members)"""
    if not fields:
        return False
    try:
        world.named_class(fields)
        return True
    except Exception:  # noqa: BLE001
        return False


def psexp(p) -> str:
    k = p[0]
    if len(p) == 1 and k not in ("tup", "nt"):
        return k
    if k == "stbytes":
        return f"(stbytes {p[1]})"
    if k == "sa":
        return f"(sa {p[1]} {psexp(p[2])})"
    if k == "da":
        return f"(da {psexp(p[1])})"
    return "(" + " ".join([k] + [psexp(x) for x in p[1:]]) + ")"


def codec_of(p):
    """P-type -> arc4util codec AST (the ARC-4 reading)"""
    k = p[0]
    if k == "bool":
        return U.BOOL
    if k == "byte":
        return U.BYTE
    if k in ("u8", "u16", "u32", "u64"):
        return U.uint(UINT_BITS[k])
    if k == "address":
        return U.ADDRESS
    if k == "string":
        return U.STRING
    if k == "dynbytes":
        return U.darray(U.BYTE)
    if k == "stbytes":
        return U.sarray(U.BYTE, p[1])
    if k == "sa":
        return U.sarray(codec_of(p[2]), p[1])
    if k == "da":
        return U.darray(codec_of(p[1]))
    return U.tup(*[codec_of(x) for x in p[1:]])


def to_ptype(r, t, world, alias_p=0.5):
    """codec AST -> P-type, choosing among the PyTeal classes with the same ARC-4 reading"""
    k = t[0]
    if k in ("bool", "byte", "address", "string"):
        return [k]
    if k == "uint":
        return [{8: "u8", 16: "u16", 32: "u32", 64: "u64"}[t[1]]]
    if k == "sarray":
        if t[1] == U.BYTE and r.random() < alias_p:
            return ["stbytes", t[2]]
        return ["sa", t[2], to_ptype(r, t[1], world, alias_p)]
    if k == "darray":
        if t[1] == U.BYTE and r.random() < alias_p:
            return ["dynbytes"]
        return ["da", to_ptype(r, t[1], world, alias_p)]
    fields = [to_ptype(r, x, world, alias_p) for x in t[1]]
    if fields and r.random() < alias_p and nt_ok(world, fields):
        return ["nt"] + fields
    return ["tup"] + fields


def psize(p) -> int:
    return 1 + sum(psize(x) for x in p[1:] if isinstance(x, list))


# --------------------------------------------------------------------------------------- inputs
# input trees: ["boolC", b] ["boolE", n, src] ["intC", n] ["intE", n, src] ["bytesC", hex, form]
#              ["bytesE", hex, src] ["seq", I...]      src in arg|int|btoi resp. arg|bytes


def children_types(p, n):
    k = p[0]
    if k in ("address", "string", "dynbytes", "stbytes"):
        return [["byte"]] * n
    if k == "sa":
        return [p[2]] * n
    if k == "da":
        return [p[1]] * n
    return p[1:]


_TEXTS = ["", "a", "hi", "hello", "été", "☃", "x" * 31, "y" * 32, "z" * 255, "w" * 256]


def gen_bytes_for(r, k, n=None, big=False):
    if k == "address":
        return r.choice([bytes(32), bytes([255] * 32), bytes(r.randrange(256) for _ in range(32))])
    if k == "stbytes":
        return bytes(r.randrange(256) for _ in range(n))
    if big and r.random() < 0.5:
        return b"q" * r.choice([1000, 2000, 4000, 4094, 4095, 4096])
    if r.random() < 0.6:
        return r.choice(_TEXTS).encode()
    if r.random() < 0.5:
        return bytes(r.randrange(256) for _ in range(r.choice([1, 2, 3, 7, 33, 100])))
    return "".join(r.choice("abc ü中") for _ in range(r.randrange(0, 12))).encode()


def gen_input(r, p, expr_p=0.5, big=False):
    """random well-formed input of P-type p (values in range, boundary-biased)"""
    k = p[0]
    e = r.random() < expr_p
    if k == "bool":
        if e:
            return ["boolE", r.choice([0, 1, 1, 2, 255, 2 ** 64 - 1]), r.choice(["arg", "int"])]
        return ["boolC", r.random() < 0.5]
    if k in UINT_BITS:
        n = UINT_BITS[k]
        v = r.choice([0, 1, 255, 256, (1 << n) - 1, 1 << (n - 1), r.randrange(1 << n), r.randrange(1 << n)]) % (1 << n)
        return ["intE", v, r.choice(["arg", "int", "btoi"])] if e else ["intC", v]
    if k in ("address", "string", "dynbytes", "stbytes"):
        if k != "stbytes" or p[1] <= 40:
            if r.random() < 0.08:      # Sequence[Byte] route
                n = 32 if k == "address" else (p[1] if k == "stbytes" else r.choice([0, 1, 3]))
                return ["seq"] + [gen_input(r, ["byte"], expr_p) for _ in range(n)]
        bs = gen_bytes_for(r, k, p[1] if k == "stbytes" else None, big)
        if e:
            return ["bytesE", bs.hex(), r.choice(["arg", "bytes"])]
        return ["bytesC", bs.hex(), r.choice(["str", "bytes"])]
    if k == "sa":
        return ["seq"] + _repeat_siblings(r, [p[2]] * p[1], [gen_input(r, p[2], expr_p, big) for _ in range(p[1])])
    if k == "da":
        n = r.choice([0, 1, 2, 3, 7, 8, 9, 16, 17]) if p[1] == ["bool"] else r.choice([0, 1, 2, 3, 5])
        return ["seq"] + _repeat_siblings(r, [p[1]] * n, [gen_input(r, p[1], expr_p, big) for _ in range(n)])
    return ["seq"] + _repeat_siblings(r, list(p[1:]), [gen_input(r, x, expr_p, big) for x in p[1:]])


def _repeat_siblings(r, types, kids):
    """sometimes a later sibling of the same type repeats an earlier one (the Builder then passes the SAME instance twice)"""
    if len(kids) >= 2 and r.random() < 0.3:
        for j in range(1, len(kids)):
            same = [k for k in range(j) if types[k] == types[j]]
            if same and r.random() < 0.5:
                kids[j] = json.loads(json.dumps(kids[r.choice(same)]))
    return kids


def inject_fault(r, p, i):
    """break one place of a well-formed input; returns (input, kind) or None.
    kind: 'const' (must raise while building) | 'expr' (program must fail)"""
    k = p[0]
    tag = i[0]
    if k in UINT_BITS and tag in ("intC", "intE"):
        n = UINT_BITS[k]
        if tag == "intC":
            return ["intC", (1 << n) + r.choice([0, 1, 5, 1 << n])], "const"
        if n == 64:
            return None
        return ["intE", min((1 << n) + r.choice([0, 1, 5, (1 << n) * 3]), 2 ** 64 - 1), i[2]], "expr"
    if k in ("address", "stbytes") and tag in ("bytesC", "bytesE"):
        want = 32 if k == "address" else p[1]
        if want > 0 and r.random() < 0.3:
            # an expression that is a TEXT literal with `want` characters but more bytes (non-ASCII): the program must fail
            ch = r.choice(["\u00ff", "\u00e9", "\u20ac"])
            return ["bytesE", (ch * want).encode("utf-8").hex(), "utf8lit"], "expr"
        bad = bytes(r.choice([want + 1, max(want - 1, 0) if want > 0 else 1]))
        if len(bad) == want:
            return None
        if tag == "bytesC":
            return ["bytesC", bad.hex(), "bytes"], "const"
        return ["bytesE", bad.hex(), i[2]], "expr"
    if tag == "seq":
        kids = i[1:]
        if k in ("sa", "stbytes", "address") and r.random() < 0.3:
            cts = children_types(p, len(kids) + 1)
            if r.random() < 0.5 or not kids:
                return ["seq"] + kids + [gen_input(r, cts[0])], "const"
            return ["seq"] + kids[:-1], "const"
        idx = list(range(len(kids)))
        r.shuffle(idx)
        cts = children_types(p, len(kids))
        for j in idx:
            res = inject_fault(r, cts[j], kids[j])
            if res is not None:
                return ["seq"] + kids[:j] + [res[0]] + kids[j + 1:], res[1]
    return None


def isexp(i) -> str:
    tag = i[0]
    if tag == "boolC":
        return "T" if i[1] else "F"
    if tag == "boolE":
        return f"(be {i[1]})"
    if tag == "intC":
        return str(i[1])
    if tag == "intE":
        return f"(ie {i[1]})"
    if tag == "bytesC":
        return "x" + i[1]
    if tag == "bytesE":
        return f"(xe {i[1] or '-'})"
    return "(" + " ".join(["s"] + [isexp(x) for x in i[1:]]) + ")"


def abstract_value(p, i):
    """alias-free abstract value (bools, ints, lists) the input denotes"""
    tag = i[0]
    if tag == "boolC":
        return bool(i[1])
    if tag == "boolE":
        return i[1] != 0
    if tag in ("intC", "intE"):
        return i[1]
    if tag in ("bytesC", "bytesE"):
        return list(bytes.fromhex(i[1]))
    cts = children_types(p, len(i) - 1)
    return [abstract_value(c, x) for c, x in zip(cts, i[1:])]


def oracle(p, i):
    """algosdk encoding of the value the input denotes, under the alias-free reading of the type
    (`byte`->uint8, `address`->uint8[32], `string`->uint8[]: Arc4.encode_norm); None = no encoding"""
    t = U.norm(codec_of(p))
    try:
        return U.sdk_type(t).encode(abstract_value(p, i))
    except Exception:  # noqa: BLE001
        return None


def leaf_stats(i, d):
    tag = i[0]
    if tag == "seq":
        for x in i[1:]:
            leaf_stats(x, d)
    else:
        d[tag] = d.get(tag, 0) + 1


# --------------------------------------------------------------------------------------- programs


class Builder:
    """Builds the PyTeal statements that assemble a value from its parts, through the public API."""

    def __init__(self, pt, abi, world):
        self.pt, self.abi, self.w = pt, abi, world

    def plan_args(self, i, args):
        """pre-pass: assign application-argument indices to 'arg' leaves (at most 12, <= 1500 bytes)"""
        tag = i[0]
        if tag == "seq":
            return ["seq"] + [self.plan_args(x, args) for x in i[1:]]
        if tag in ("boolE", "intE") and i[2] == "arg":
            if len(args) < 12:
                args.append(int(i[1]).to_bytes(8, "big"))
                return [tag, i[1], "arg", len(args) - 1]
            return [tag, i[1], "int"]
        if tag == "bytesE" and i[2] == "arg":
            bs = bytes.fromhex(i[1])
            if len(args) < 12 and sum(len(a) for a in args) + len(bs) <= 1500:
                args.append(bs)
                return [tag, i[1], "arg", len(args) - 1]
            return [tag, i[1], "bytes"]
        return i

    def uexpr(self, i):
        pt = self.pt
        if i[2] == "arg":
            return pt.Btoi(pt.Txn.application_args[i[3]])
        if i[2] == "btoi":
            return pt.Btoi(pt.Bytes(int(i[1]).to_bytes(8, "big")))
        return pt.Int(i[1])

    def bexpr(self, i):
        pt = self.pt
        if i[2] == "arg":
            return pt.Txn.application_args[i[3]]
        if i[2] == "utf8lit":
            return pt.Bytes(bytes.fromhex(i[1]).decode("utf-8"))      # Bytes(str): a quoted text literal in the program
        return pt.Bytes(bytes.fromhex(i[1]))

    def fill(self, inst, p, i, stmts):
        tag = i[0]
        if tag == "boolC":
            stmts.append(inst.set(bool(i[1])))
        elif tag == "intC":
            stmts.append(inst.set(int(i[1])))
        elif tag in ("boolE", "intE"):
            stmts.append(inst.set(self.uexpr(i)))
        elif tag == "bytesC":
            bs = bytes.fromhex(i[1])
            v = bs
            if p[0] == "string" and i[2] == "str":
                try:
                    v = bs.decode("utf-8")
                except UnicodeDecodeError:
                    v = bs
            stmts.append(inst.set(v))
        elif tag == "bytesE":
            stmts.append(inst.set(self.bexpr(i)))
        else:
            cts = children_types(p, len(i) - 1)
            kids, seen = [], {}
            for c, x in zip(cts, i[1:]):
                key = json.dumps([c, x])
                if getattr(self, "alias", False) and key in seen:
                    # one instance passed twice to the same set(...): same value, same encoding expected
                    kids.append(seen[key])
                    self.n_alias = getattr(self, "n_alias", 0) + 1
                    continue
                kid = self.w.instance(c)
                self.fill(kid, c, x, stmts)
                seen[key] = kid
                kids.append(kid)
            if p[0] in ("tup", "nt"):
                stmts.append(inst.set(*kids))
            else:
                stmts.append(inst.set(kids))

    def program(self, p, i, backend):
        pt = self.pt
        if backend == "main":
            stmts = []
            top = self.w.instance(p)
            self.fill(top, p, i, stmts)
            return pt.Seq(*stmts, pt.Log(top.encode()), pt.Approve())
        if backend == "sub":
            def f():
                stmts = []
                top = self.w.instance(p)
                self.fill(top, p, i, stmts)
                return pt.Seq(*stmts, pt.Log(top.encode()))
            f.__annotations__ = {"return": pt.Expr}
            sub = pt.Subroutine(pt.TealType.none)(f)
            return pt.Seq(sub(), pt.Approve())
        if backend == "abiret":
            ann = self.w.spec(p).annotation_type() if p[0] != "nt" else self.w.named_class(p[1:])

            def g(*, output):
                stmts = []
                self.fill(output, p, i, stmts)
                return pt.Seq(*stmts)
            g.__annotations__ = {"output": ann, "return": pt.Expr}
            sub = pt.ABIReturnSubroutine(g)
            res = self.w.instance(p)
            return pt.Seq(res.set(sub()), pt.Log(res.encode()), pt.Approve())
        raise ValueError(backend)


def build_and_compile(pt, b, p, i, backend, version, opts):
    """-> ('ok', teal, args) | ('build', ExcName, message)"""
    args = []
    planned = b.plan_args(i, args)
    try:
        with quiet():
            ast = b.program(p, planned, backend)
            kw = {}
            if opts is not None:
                kw["optimize"] = pt.OptimizeOptions(**opts)
            teal = pt.compileTeal(ast, pt.Mode.Application, version=version, **kw)
        return "ok", teal, args
    except Exception as e:  # noqa: BLE001
        return "build", type(e).__name__, str(e)[:200]


_ctx_cache: dict = {}


def exec_teal(drv, teal, args, version, tag):
    """run compiled TEAL on the Lean AVM -> ('ok', bytes) | ('fail', text) | ('tool', text)"""
    from recipes import render_ctx, gen_ctx
    ans = drv.ask(f"teal {tag} " + teal.encode().hex())
    if not ans.startswith("ok"):
        return "tool", "TEAL does not parse on the Lean side: " + ans[:300]
    ctx = _ctx_cache.get(version)
    if ctx is None:
        ctx = gen_ctx(rng(f"c06-ctx-{version}"), "app", version)
        _ctx_cache[version] = ctx
    t = ctx["group"][ctx["gi"]]
    t["ApplicationArgs"] = list(args)
    t["NumAppArgs"] = len(args)
    a = drv.ask(f"ctx {tag} " + render_ctx(ctx))
    if a != "ok":
        return "tool", "ctx rejected: " + a[:200]
    out = drv.ask(f"exec {tag} {tag} 2000000")
    if out.startswith("done u1 [log:b") and out.endswith("]") and out.count("log:") == 1:
        h = out[len("done u1 [log:b"):-1]
        return "ok", (b"" if h in ("", "-") else bytes.fromhex(h))
    if out.startswith("fail"):
        if "unmodelled" in out or "illegal" in out or "badLabel" in out or "underflow" in out or "typeErr" in out:
            return "tool", out[:300]
        return "fail", out[:200]
    return "tool", out[:300]


def model_set(drv, p, i):
    """-> (model result, reference, wt, wf)"""
    ans = drv.ask(f"c06-set ({psexp(p)} {isexp(i)})")
    if " ## " not in ans:
        return ("perr", ans), None, False, False
    left, right = ans.split(" ## ")
    lw, rw = left.split(), right.split()
    if lw[0] == "ok":
        m = ("ok", b"" if lw[1] == "-" else bytes.fromhex(lw[1]))
    elif lw[0] == "fail":
        m = ("fail", None)
    else:
        m = ("build", lw[0].split(":", 1)[1])
    if rw[0] == "ok":
        ref = b"" if rw[1] == "-" else bytes.fromhex(rw[1])
    else:
        ref = None
    return m, ref, "wt=1" in rw, "wf=1" in rw


# --------------------------------------------------------------------------------------- descriptors


def real_descr(world, p):
    s = world.spec(p)
    out = {"str": str(s), "dyn": bool(s.is_dynamic())}
    try:
        out["len"] = int(s.byte_length_static())
    except Exception as e:  # noqa: BLE001
        out["len"] = "raise:" + type(e).__name__
    if hasattr(s, "_stride"):
        try:
            out["stride"] = int(s._stride())
        except Exception as e:  # noqa: BLE001
            out["stride"] = "raise:" + type(e).__name__
    else:
        out["stride"] = None
    return out


def sdk_descr(sig):
    import algosdk.abi as sdkabi
    a = sdkabi.ABIType.from_string(sig)
    d = {"str": str(a), "dyn": bool(a.is_dynamic())}
    d["len"] = None if d["dyn"] else int(a.byte_len())
    return d


def ptype_universe(world, max_size):
    """every P-type shape with at most max_size nodes over all PyTeal classes (static lengths 0,1,3 / 9 for bool)"""
    leaves = [["bool"], ["byte"], ["u8"], ["u16"], ["u32"], ["u64"], ["address"], ["string"], ["dynbytes"], ["stbytes", 0], ["stbytes", 3]]
    by_size = {1: leaves + [["tup"]]}
    for n in range(2, max_size + 1):
        out = []
        for e in by_size[n - 1]:
            for ln in (0, 1, 3, 9):
                out.append(["sa", ln, e])
            out.append(["da", e])
        for arity in range(1, min(5, n - 1) + 1):
            for comp in U._compositions(n - 1, arity):
                def rec(j):
                    if j == len(comp):
                        yield []
                        return
                    for x in by_size[comp[j]]:
                        for rest in rec(j + 1):
                            yield [x] + rest
                for fields in rec(0):
                    out.append(["tup"] + fields)
                    if n <= 3 and nt_ok(world, fields):
                        out.append(["nt"] + fields)
        by_size[n] = out
    return [p for n in sorted(by_size) for p in by_size[n]]


def check_descriptors(rep, drv, world, abi, tier):
    r = rng("c06-descr")
    thorough = tier == "thorough"
    types = ptype_universe(world, 3)
    n_ex = len(types)
    # bool-run arrangements: tuples over {bool, static, dynamic} members, lengths up to 6 (thorough: all of length <= 6)
    atoms = {"b": ["bool"], "s": ["u16"], "d": ["string"], "t": ["tup", ["bool"], ["bool"]], "a": ["sa", 9, ["bool"]],
             "z": ["tup"], "Z": ["sa", 0, ["u8"]], "y": ["sa", 0, ["bool"]]}
    pats = []
    for ln in range(1, 5 if not thorough else 7):
        def rec(j, cur):
            if j == ln:
                pats.append(cur)
                return
            for c in ("b", "s", "d"):
                rec(j + 1, cur + c)
        rec(0, "")
    for s in ["b" * 8 + "d", "b" * 9 + "d", "d" + "b" * 8, "d" + "b" * 9 + "s", "b" * 16 + "s" + "b" * 17, "tbat", "abd", "bbtbbd", "dabbt",
              # members of width ZERO between / around bools: they end a bool run although they add no byte
              "bzb", "bZb", "byb", "bzbd", "dbzb", "bbzbbbbbbb", "zbb", "bbz", "bzzb", "b" * 7 + "z" + "b", "b" * 8 + "z" + "b", "bzbzb", "szs", "bzs"]:
        pats.append(s)
    for s in pats:
        types.append(["tup"] + [atoms[c] for c in s])
    n_pat = len(pats)
    for _ in range(3000 if thorough else 300):
        t = U.gen_type(r, r.choice([2, 3, 4, 5]), U.PYTEAL_UINTS)
        types.append(to_ptype(r, t, world))
    if thorough:
        for t in U.enum_types(4, lens=(0, 3)):
            if r.random() < 0.25:
                types.append(to_ptype(r, t, world, 0.3))
    lines = [f"c06-descr {psexp(p)}" for p in types]
    answers = U.ask_all(drv, lines)
    n = mism = viol = 0
    dyn_n = 0
    rt_n = 0
    seen = set()
    for p, ans in zip(types, answers):
        n += 1
        real = real_descr(world, p)
        seen.add(real["str"] + "|" + psexp(p))
        dyn_n += int(real["dyn"])
        w = ans.split()
        try:
            ref = sdk_descr(real["str"])
        except Exception as e:  # noqa: BLE001
            ref = {"error": repr(e)[:200]}
        replay = {"kind": "descr", "ptype": p, "real": real, "model": ans, "algosdk": ref}
        # the property, on the real code against the reference codec
        bad = None
        if "error" in ref:
            bad = f"algosdk cannot parse str(spec) = {real['str']!r}"
        elif ref["str"] != real["str"] or ref["dyn"] != real["dyn"]:
            bad = f"str/is_dynamic of {real['str']}: real {real['str']!r}/{real['dyn']} vs algosdk {ref['str']!r}/{ref['dyn']}"
        elif not real["dyn"] and real["len"] != ref["len"]:
            bad = f"byte_length_static of {real['str']}: real {real['len']} vs algosdk {ref['len']}"
        elif real["dyn"] and not str(real["len"]).startswith("raise"):
            bad = f"byte_length_static of the dynamic type {real['str']} returned {real['len']} instead of raising"
        if bad:
            viol += 1
            if viol <= 4:
                rep.violation("type descriptor disagrees with the ARC-4 reference codec: " + bad, replay, key="descr:" + real["str"])
        # correspondence with the model
        ok = len(w) == 8 and w[0] == "ok"
        if ok:
            m_len = int(w[3]) if w[3].isdigit() else "raise"
            r_len = real["len"] if isinstance(real["len"], int) else "raise"
            m_stride = None if w[4] == "-" else (int(w[4]) if w[4].isdigit() else "raise")
            r_stride = real["stride"] if (real["stride"] is None or isinstance(real["stride"], int)) else "raise"
            ok = (w[1] == real["str"] and (w[2] == "1") == real["dyn"] and m_len == r_len and m_stride == r_stride
                  and w[5] == w[1] and w[6] == w[2] and (real["dyn"] or int(w[7]) == m_len))
        if not ok:
            mism += 1
            if not bad and mism <= 4:
                rep.violation("descriptor model disagrees with the real TypeSpec (no failing input of the property on this type): " + ans[:200] + " vs " + json.dumps(real),
                              replay, no_input=True)
        # util.py round trips
        if "error" not in ref and n % 3 == 0:
            import algosdk.abi as sdkabi
            rt_n += 1
            s = world.spec(p)
            try:
                back = abi.type_spec_from_algosdk(sdkabi.ABIType.from_string(real["str"]))
                ok1 = str(back) == real["str"] and back.is_dynamic() == real["dyn"]
            except Exception as e:  # noqa: BLE001
                ok1 = False
            ok2 = True
            try:
                ann = s.annotation_type()
            except Exception:  # noqa: BLE001
                ann = None
            if ann is not None:
                try:
                    ok2 = abi.type_spec_from_annotation(ann) == s
                except Exception:  # noqa: BLE001
                    ok2 = False
            if not (ok1 and ok2):
                viol += 1
                rep.violation(f"type_spec_from_algosdk / type_spec_from_annotation does not round-trip {real['str']} (algosdk ok={ok1}, annotation ok={ok2})",
                              replay, key="descr-roundtrip:" + real["str"])
    return {"types": n, "exhaustive_shapes_size_le_3": n_ex, "bool_run_arrangements": n_pat, "dynamic_types": dyn_n,
            "distinct": len(seen), "model_mismatches": mism, "property_violations": viol, "util_roundtrips": rt_n}


# --------------------------------------------------------------------------------------- end to end

BACKENDS = ["main", "sub", "abiret"]


def configs_for(r, p, world, thorough):
    """(backend, version, optimize-options) triples for one case"""
    out = []
    vs = [5, 6, 7, 8, 9, 10]
    out.append(("main", r.choice(vs), r.choice([None, None, {"scratch_slots": True}])))
    out.append(("sub", r.choice([8, 9, 10]), r.choice([None, {"scratch_slots": True}, {"frame_pointers": True}])))
    if thorough or r.random() < 0.25:
        out.append(("sub", r.choice([5, 6, 7]), None))
    if thorough:
        out.append(("main", r.choice(vs), {"frame_pointers": False} if r.random() < 0.5 else None))
    can_ann = True
    try:
        if p[0] != "nt":
            world.spec(p).annotation_type()
    except Exception:  # noqa: BLE001
        can_ann = False
    if can_ann and (thorough or r.random() < 0.5):
        out.append(("abiret", r.choice([8, 9, 10] if r.random() < 0.7 else [6, 7]), None))
    return out


def storage_kind(backend, version, opts):
    fp = version >= 8 and not (opts or {}).get("frame_pointers") is False
    if backend == "main":
        return "scratch(main)"
    return ("frame" if fp else "scratch") + f"({backend})"


def bool_runs(p, acc):
    """lengths of maximal bool runs in every tuple / array of bools inside p"""
    k = p[0]
    if k in ("tup", "nt"):
        run = 0
        for x in p[1:]:
            if x == ["bool"]:
                run += 1
            else:
                if run:
                    acc.append(run)
                run = 0
                bool_runs(x, acc)
        if run:
            acc.append(run)
    elif k == "sa":
        if p[2] == ["bool"]:
            acc.append(p[1])
        else:
            bool_runs(p[2], acc)
    elif k == "da":
        bool_runs(p[1], acc)


def run_case(rep, drv, pt, b, p, i, fault, cfgs, stats, samples, tagno):
    """one (type, input): oracle, model, and the real program in every configuration"""
    _t = time.time()
    ref = oracle(p, i)
    stats["t_oracle"] += time.time() - _t
    _t = time.time()
    model, lean_ref, wt, wf = model_set(drv, p, i)
    stats["t_model"] += time.time() - _t
    base = {"kind": "set", "ptype": p, "input": i, "type": None, "fault": fault,
            "algosdk": hexs(ref)[:600] if ref is not None else None}
    stats["cases"] += 1
    # specification vs oracle on this very value
    if lean_ref != ref:
        stats["spec_mismatch"] += 1
        rep.violation("Arc4.encode (Lean specification) disagrees with algosdk on this value",
                      dict(base, lean_ref=hexs(lean_ref) if lean_ref is not None else None), no_input=True)
    if not wt or not wf:
        stats["model_not_wt"] += 1
    # the proved theorem, observed: model result = reference (as options)
    m_opt = model[1] if model[0] == "ok" else None
    if wt and wf and m_opt != lean_ref:
        stats["model_vs_spec"] += 1
        rep.violation("Lean model result differs from Arc4.encode on a well-formed input (contradicts pySet_correct)",
                      dict(base, model=str(model)[:300]), no_input=True)
    too_long = ref is not None and len(ref) > AVM_MAX_BYTES
    for (backend, version, opts) in cfgs:
        stats["programs"] += 1
        sk = storage_kind(backend, version, opts)
        stats["by_backend"][sk] = stats["by_backend"].get(sk, 0) + 1
        stats["by_version"][version] = stats["by_version"].get(version, 0) + 1
        _t = time.time()
        res = build_and_compile(pt, b, p, i, backend, version, opts)
        stats["t_build"] += time.time() - _t
        replay = dict(base, backend=backend, version=version, opts=opts)
        if res[0] == "build" and (res[1] == "RecursionError" or "Too many slots" in res[2]):
            # resource limits of the Python process / of the 256 scratch slots, not of the encoding
            stats["resource_limit_skips"] += 1
            continue
        if res[0] == "build":
            real = ("build", res[1])
            replay["real"] = f"raised {res[1]}: {res[2]}"
        else:
            if "frame_bury" in res[1] or "frame_dig" in res[1]:
                stats["programs_with_frame_variables"] += 1
            if "\nstore " in res[1]:
                stats["programs_with_scratch_slots"] += 1
            _t = time.time()
            ex = exec_teal(drv, res[1], res[2], version, f"c06t{tagno % 4}")
            stats["t_exec"] += time.time() - _t
            if ex[0] == "tool":
                stats["tool_skips"] += 1
                if stats["tool_skips"] <= 3:
                    rep.notes.append(f"skipped (Lean AVM could not run the program): {ex[1]} on {psexp(p)} {backend} v{version}")
                continue
            real = ex
            replay["real"] = ("logged " + hexs(ex[1])[:600]) if ex[0] == "ok" else ex[1]
        stats["outcomes"][real[0]] = stats["outcomes"].get(real[0], 0) + 1
        # ---- the property on the real code, against the oracle
        bad = None
        if ref is not None and not too_long:
            if real[0] == "ok":
                if real[1] != ref:
                    bad = "the program logs bytes that differ from the reference encoding"
            elif real[0] == "fail":
                bad = "the program fails although the value has a reference encoding of " + str(len(ref)) + " bytes"
            else:
                bad = f"building the program raised {real[1]} although the value has a reference encoding"
        elif ref is not None and too_long:
            stats["avm_limit"] += 1
            if real[0] == "ok" and real[1] != ref:
                bad = "the program logs bytes that differ from the (over-long) reference encoding"
        else:
            if real[0] == "ok":
                bad = "the value has NO reference encoding (out of range / wrong length) but the program runs and logs " + hexs(real[1])[:80]
            elif fault == "const" and real[0] != "build":
                bad = "an out-of-range Python constant was not rejected while the program was built"
            elif fault == "expr" and real[0] != "fail":
                # (a build error here would be wrong too: the constant parts are fine)
                bad = "an out-of-range expression value did not make the program fail at run time"
        if bad:
            stats["violations"] += 1
            if stats["violations"] <= 6:
                rep.violation(f"{psexp(p)} <- {isexp(i)[:120]} [{backend} v{version}]: {bad}", replay,
                              key=f"set:{psexp(p)}:{bad[:40]}")
            continue
        # ---- correspondence with the model
        agree = (model[0] == real[0] and (real[0] != "ok" or model[1] == real[1])
                 and (real[0] != "build" or model[1] == real[1]))
        if too_long and real[0] == "fail" and model[0] == "ok":
            agree = True          # the model has unbounded byte strings; the AVM stops at 4096
        if not agree:
            stats["model_mismatch"] += 1
            if stats["model_mismatch"] <= 4:
                rep.violation(f"model of set/encode disagrees with the real program (the real program agrees with algosdk): model {str(model)[:120]} real {str(real)[:120]}",
                              dict(replay, model=str(model)[:300]), no_input=True)
        if len(samples) < 6 and real[0] == "ok" and psize(p) >= 4 and len(real[1]) > 4:
            samples.append({"type": psexp(p), "input": isexp(i)[:160], "backend": backend, "version": version, "logged": hexs(real[1])[:80]})


def special_cases(rep, drv, pt, abi, world, b, stats, thorough):
    """build-time limits that cannot be reached through random generation"""
    out = {}
    with quiet():
        # static head of 2^16 bytes in front of a dynamic member
        for n, want in ((65533, "ok"), (65534, "build")):
            ts = abi.TupleTypeSpec(abi.StaticBytesTypeSpec(n), abi.StringTypeSpec())
            try:
                ts.new_instance().set(abi.StaticBytesTypeSpec(n).new_instance(), abi.String())
                got = "ok"
            except pt.TealInputError:
                got = "build"
            m = drv.ask(f"c06-tuple (((stbytes {n}) b -) (string b 0000))").split()[0]
            m = "build" if m.startswith("build") else ("ok" if m in ("ok", "fail") else m)
            out[f"head_{n + 2}"] = got
            if got != want or m != want:
                rep.violation(f"tuple (byte[{n}],string): static head {n + 2}: real construction {got}, model {m}, expected {want}",
                              {"kind": "special", "case": f"head{n}"}, key=f"special-head-{n}")
        # dynamic array of 2^16 elements: the length prefix cannot be written
        got = "not run (thorough tier only: building 65536 element expressions takes seconds)"
        if thorough:
            bb = abi.Uint64()
            da = abi.DynamicArrayTypeSpec(abi.Uint64TypeSpec()).new_instance()
            try:
                da.set([bb] * 65536)
                got = "ok"
            except pt.TealInputError:
                got = "build"
            except RecursionError:
                got = "recursion"
        out["darray_65536"] = got
        if got == "ok":
            rep.violation("DynamicArray.set of 65536 elements was accepted (length prefix does not fit a uint16)", {"kind": "special", "case": "darray65536"}, key="special-darray-65536")
        # string constant of 2^16 bytes
        try:
            abi.String().set("a" * 65536)
            got = "ok"
        except Exception as e:  # noqa: BLE001
            got = "build:" + type(e).__name__
        out["string_const_65536"] = got
        if got == "ok":
            rep.violation("String.set of a 65536-byte constant was accepted", {"kind": "special", "case": "string65536"}, key="special-string-65536")
        # negative Python ints
        for cls in (abi.Uint8, abi.Uint16, abi.Uint32, abi.Uint64, abi.Byte):
            try:
                cls().set(-1)
                rep.violation(f"{cls.__name__}.set(-1) was accepted", {"kind": "special", "case": "neg"}, key="special-negative")
            except pt.TealInputError:
                pass
    # an integer given as ANOTHER abi integer variable: either refused when the set is built, or the value is carried over when it
    # fits the target width and the program fails when it does not -- never a truncated encoding
    UI = [(abi.Byte, 8), (abi.Uint8, 8), (abi.Uint16, 16), (abi.Uint32, 32), (abi.Uint64, 64)]
    xw = {"refused": 0, "carried": 0, "program_fails": 0}
    n = 0
    for tcls, tb in UI:
        for scls, sb in UI:
            for v in sorted({0, 1, 255, 256, 65535, 65536, 70000, (1 << 32) - 1, 1 << 32, (1 << 64) - 1}):
                if v >= 1 << sb:
                    continue
                for wrap in ("bare", "tuple"):
                    n += 1
                    def build():
                        src, tgt = scls(), tcls()
                        stmts = [src.set(pt.Int(v)), tgt.set(src)]
                        if wrap == "tuple":
                            tup = abi.TupleTypeSpec(tgt.type_spec(), abi.BoolTypeSpec()).new_instance()
                            flag = abi.Bool()
                            stmts += [flag.set(True), tup.set(tgt, flag)]
                            return pt.Seq(*stmts, pt.Log(tup.encode()), pt.Approve())
                        return pt.Seq(*stmts, pt.Log(tgt.encode()), pt.Approve())
                    try:
                        with quiet():
                            teal = pt.compileTeal(build(), pt.Mode.Application, version=8)
                    except (pt.TealInputError, pt.TealTypeError):
                        xw["refused"] += 1
                        continue
                    res = exec_teal(drv, teal, [], 8, "xw")
                    body = {"kind": "special", "case": "cross-width", "source": scls.__name__, "target": tcls.__name__, "value": v,
                            "wrap": wrap, "teal": teal}
                    if res[0] == "tool":
                        raise ToolFailure("cross-width program: " + res[1])
                    want = v.to_bytes(tb // 8, "big") + (b"\x80" if wrap == "tuple" else b"") if v < 1 << tb else None
                    if want is None:
                        if res[0] == "ok":
                            rep.violation(f"{tcls.__name__}.set({scls.__name__} holding {v}) is accepted and the program logs {res[1].hex()}: "
                                          f"the value does not fit {tb} bits", body)
                        else:
                            xw["program_fails"] += 1
                    elif res != ("ok", want):
                        rep.violation(f"{tcls.__name__}.set({scls.__name__} holding {v}) is accepted; expected encoding {want.hex()}, got {res}", body)
                    else:
                        xw["carried"] += 1
    out["integer_given_as_another_abi_integer"] = dict(xw, cases=n)
    stats["special"] = out


def run(tier: str) -> int:
    rep = Report("C06", tier, level="proof")
    t0 = time.time()
    st = check_proofs(PROOF_MODULES, extra_files=EXTRA_FILES)
    rep.coverage.update(proof_coverage(st, "cd lean && lake build " + " ".join(PROOF_MODULES), TRUSTED))
    if not st.ok:
        rep.notes.append("proof problems: " + "; ".join(st.problems)[:2000] + " | " + st.log[-1500:])
    t_proofs = time.time() - t0
    pt, abi = load_pyteal()
    drv = Driver()
    world = World(abi)
    thorough = tier == "thorough"

    # ---- 2. specification vs algosdk
    r = rng("c06-arc4")
    sstats, bad = U.validate_spec(drv, r, 1200 if thorough else 120, values_per_type=3, uints=U.PYTEAL_UINTS,
                                  extra_types=[t for n in (1, 2) for t in U.enum_types(n)])
    rep.coverage["arc4_spec_validation"] = sstats
    for x in bad[:4]:
        rep.violation("ARC-4 specification (lean/PyTealV/Arc4.lean) disagrees with algosdk.abi: " + json.dumps(x)[:300],
                      {"kind": "arc4-spec", "case": x}, no_input=True)
    t_spec = time.time() - t0 - t_proofs

    # ---- 3. descriptors
    dstats = check_descriptors(rep, drv, world, abi, tier)
    rep.coverage["descriptors"] = dstats
    t_descr = time.time() - t0 - t_proofs - t_spec

    # ---- 4. end to end
    b = Builder(pt, abi, world)
    stats = {"cases": 0, "programs": 0, "violations": 0, "model_mismatch": 0, "spec_mismatch": 0, "model_vs_spec": 0,
             "model_not_wt": 0, "tool_skips": 0, "resource_limit_skips": 0, "avm_limit": 0, "t_oracle": 0.0, "t_model": 0.0, "t_build": 0.0, "t_exec": 0.0, "programs_with_frame_variables": 0, "programs_with_scratch_slots": 0, "by_backend": {}, "by_version": {}, "outcomes": {},
             "faults": {"const": 0, "expr": 0}, "leaves": {}, "bool_runs": {}, "shape_sizes": {}}
    samples = []
    r = rng("c06-e2e")
    cases = []
    # (i) exhaustive small shapes
    small = ptype_universe(world, 3 if thorough else 2)
    if not thorough:
        small += r.sample(ptype_universe(world, 3), 60)
    for p in small:
        cases.append((p, "exhaustive"))
    # (ii) bool-run / dynamic-member arrangements
    atoms = {"b": ["bool"], "s": ["u16"], "d": ["string"], "D": ["da", ["bool"]], "S": ["sa", 9, ["bool"]], "8": ["sa", 8, ["bool"]],
             "z": ["tup"], "Z": ["sa", 0, ["u8"]]}
    arr = ["bzbd", "dbzb", "bZbd", "bzbzbd", "bbzbbd", "zbd", "bzd", "d", "bd", "db", "bdb", "b" * 8 + "d", "b" * 9 + "d", "d" + "b" * 8, "d" + "b" * 9, "d" + "b" * 8 + "d" + "b" * 9 + "s",
           "bsbdbbD", "DbbbbbbbbS", "dd", "ddd", "sds", "bbsbbdbb8D", "b" * 16 + "d" + "b" * 17, "8b8", "SDd"]
    if thorough:
        for ln in range(1, 6):
            def rec(j, cur):
                if j == ln:
                    arr.append(cur)
                    return
                for c in ("b", "s", "d"):
                    rec(j + 1, cur + c)
            rec(0, "")
    for s in arr:
        fields = [atoms[c] for c in s]
        cases.append((["tup"] + fields, "arrangement"))
        if nt_ok(world, fields) and r.random() < 0.5:
            cases.append((["nt"] + fields, "arrangement"))
        cases.append((["da", ["tup"] + fields], "arrangement") if r.random() < 0.3 else (["sa", 2, ["tup"] + fields], "arrangement"))
    # (iii) random nested shapes
    for _ in range(1500 if thorough else 260):
        t = U.gen_type(r, r.choice([2, 3, 3, 4]), U.PYTEAL_UINTS, max_arity=5, max_len=4)
        p = to_ptype(r, t, world)
        if psize(p) <= 40:
            cases.append((p, "random"))
    if not thorough:
        # keep the quick tier inside its budget: a fixed-size, seed-dependent sample
        keep = [c for c in cases if c[1] == "arrangement"] + (lambda rest: r.sample(rest, min(260, len(rest))))([c for c in cases if c[1] != "arrangement"])
        cases = keep
    src_count = {}
    tagno = 0
    t_e2e0 = time.time()
    budget = (520 if thorough else 32)
    for (p, src) in cases:
        if stats["cases"] >= 120 and src != "arrangement" and time.time() - t_e2e0 > budget:
            # (never cuts the directed arrangements nor the first 120 cases)
            if not any("time budget" in n_ for n_ in rep.notes):
                rep.notes.append(f"end-to-end loop: random cases skipped after the time budget ({stats['cases']} cases run so far)")
            continue
        src_count[src] = src_count.get(src, 0) + 1
        stats["shape_sizes"][min(psize(p), 12)] = stats["shape_sizes"].get(min(psize(p), 12), 0) + 1
        runs = []
        bool_runs(p, runs)
        for x in runs:
            key = str(x) if x <= 9 else ("10-16" if x <= 16 else ">16")
            stats["bool_runs"][key] = stats["bool_runs"].get(key, 0) + 1
        n_inputs = 2 if thorough else 1
        for j in range(n_inputs):
            i = gen_input(r, p, expr_p=r.choice([0.0, 0.5, 0.5, 1.0]), big=(r.random() < 0.15))
            leaf_stats(i, stats["leaves"])
            tagno += 1
            b.alias = r.random() < 0.6
            run_case(rep, drv, pt, b, p, i, None, configs_for(r, p, world, thorough), stats, samples, tagno)
            stats["instances passed twice to one set()"] = getattr(b, "n_alias", 0)
            if j == 0 and r.random() < (0.6 if thorough else 0.5):
                f = inject_fault(r, p, i)
                if f is not None:
                    stats["faults"][f[1]] += 1
                    tagno += 1
                    run_case(rep, drv, pt, b, p, f[0], f[1], configs_for(r, p, world, False)[:2], stats, samples, tagno)
    special_cases(rep, drv, pt, abi, world, b, stats, thorough)
    t_e2e = time.time() - t_e2e0

    if not st.ok and not rep.violations:
        rep.violation("proofs of C06 do not check: " + "; ".join(st.problems)[:300],
                      {"theorem": "PyTealV.Proofs.C06.pySet_correct", "problems": st.problems, "log": st.log[-3000:]}, no_input=True)

    rep.coverage.update({
        "evaluations": stats["programs"] + dstats["types"],
        "distinct_nontrivial": stats["cases"] + dstats["distinct"],
        "rule": "descriptors: real str/is_dynamic/byte_length_static/_stride == Lean model == algosdk for every type; "
                "end to end: the real program built through the public API, compiled by the real compileTeal and executed on the Lean AVM "
                "logs exactly algosdk's encoding (== Arc4.encode == Lean model); values without reference encoding: Python constants raise "
                "while building, expression values make the program fail",
        "end_to_end": stats,
        "case_sources": src_count,
        "samples": samples,
        "distribution": {"backends": stats["by_backend"], "versions": stats["by_version"], "bool_run_lengths": stats["bool_runs"],
                         "leaf_kinds": stats["leaves"], "shape_sizes": stats["shape_sizes"], "outcomes": stats["outcomes"],
                         "injected_faults": stats["faults"]},
        "named_tuple_classes": len(world.classes),
        "reachability": "byte strings on the AVM are at most 4096 bytes, so head/tail offsets and length prefixes near 2^16 cannot be "
                        "reached by execution: the run-time Assert on the running offset is covered by the theorem (and Lean examples) only; "
                        "reachable and exercised here: static head >= 2^16 and 2^16 array elements / string-constant bytes (rejected while building), "
                        "encodings longer than 4096 bytes (the program fails on the AVM limit; counted in avm_limit)",
"recursion_limit": "sys.setrecursionlimit(20000): the real compiler recurses once per statement (C20's subject)",
        "stack_trace_stub": "traceback.format_stack stubbed during builds (families.quiet_traces); diagnostics only",
    })
    rep.assumptions += [
        "values are assembled through set(...) from Python constants / expressions / already-set instances (no decode, no ComputedValue sources)",
        "types are legal ARC-4 types (arity and static lengths < 2^16); PyTeal does not reject larger ones, they have no reference encoding",
        "expression leaves evaluate to AVM stack values (uint64, byte strings of at most 4096 bytes)",
        "the compiler from the ABI expression to TEAL is exercised, not modelled, by this check",
    ]
    rep.notes.append(f"wall split: proofs {round(t_proofs, 1)}s, arc4 validation {round(t_spec, 1)}s, descriptors {round(t_descr, 1)}s, end-to-end {round(t_e2e, 1)}s")
    drv.close()
    return rep.finish()


def replay(path: str) -> int:
    body = json.loads(open(path).read())
    pt, abi = load_pyteal()
    world = World(abi)
    drv = Driver()
    kind = body.get("kind")
    if kind == "descr":
        p = body["ptype"]
        real = real_descr(world, p)
        print("type       ", psexp(p))
        print("real       ", json.dumps(real))
        print("model      ", drv.ask(f"c06-descr {psexp(p)}"))
        try:
            print("algosdk    ", json.dumps(sdk_descr(real["str"])))
        except Exception as e:  # noqa: BLE001
            print("algosdk    ", repr(e))
    elif kind == "set":
        p, i = body["ptype"], body["input"]
        b = Builder(pt, abi, world)
        ref = oracle(p, i)
        print("type       ", psexp(p), "=", str(world.spec(p)))
        print("input      ", isexp(i)[:2000])
        print("algosdk    ", hexs(ref)[:2000] if ref is not None else "no encoding (algosdk rejects the value)")
        print("model/spec ", drv.ask(f"c06-set ({psexp(p)} {isexp(i)})")[:4000])
        cfgs = [(body["backend"], body["version"], body.get("opts"))] if "backend" in body else [("main", 8, None), ("sub", 8, None)]
        for backend, version, opts in cfgs:
            res = build_and_compile(pt, b, p, i, backend, version, opts)
            if res[0] == "build":
                print(f"real [{backend} v{version}] building raised {res[1]}: {res[2]}")
            else:
                ex = exec_teal(drv, res[1], res[2], version, "c06r")
                print(f"real [{backend} v{version}]", ("logged " + hexs(ex[1])[:2000]) if ex[0] == "ok" else ex[1])
    else:
        print(json.dumps(body, indent=1)[:4000])
    drv.close()
    return 0
