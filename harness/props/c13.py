"""C13 - literals reach the program byte-for-byte.

Proof level: lean/PyTealV/Proofs/C13.lean (escape_roundtrip, escape_single_token, hex_roundtrip,
base16/32/64_valid_decodes, bytes_faithful, int_roundtrip, addr partial+counterexample, methodsig_correct /
methodsig_rejects + regression examples)
about the model lean/PyTealV/Models/Literals.lean, stated against the independent TEAL grammar
lean/PyTealV/Avm/Syntax.lean.

This check (1) builds/audits the proofs, (2) ties the model to the real code: same inputs through
pyteal.util.escapeStr / Bytes / Int / Addr / MethodSignature (+ the validators and
correctBase32Padding) and through the native driver, (3) oracle on the real code: the line emitted
by the real compileTeal is decoded by the independent grammar (driver `c13-parseline`) and compared
with Python's own reading of the user's literal (str.encode, bytes.fromhex, base64.b32decode /
b64decode, algosdk decode_address, SHA-512/256 selector); malformed literals must raise
TealInputError.
"""
from __future__ import annotations

import base64
import json
import sys

import common
from common import Report, check_proofs, proof_coverage, Driver, rng, hexs

TRUSTED = [
    "Lean 4 kernel; axioms propext, Classical.choice, Quot.sound only",
    "TEAL literal grammar lean/PyTealV/Avm/Syntax.lean (tokenise, parseStringLiteral, parseBytesLit, parseUint64, parseAddr, parseInstr) as the spec of the AVM assembler",
    "RFC 4648 reading of base32/base64 texts: Models.Literals.leadingBytes/rfcBase32/rfcBase64 + alphabet tables Util.b32Val/b64Val (cross-checked here against Python's base64 module)",
    "model = code: Models/Literals.lean mirrors util.escapeStr, types.valid_*, Bytes/Int/Addr/MethodSignature (validated by this correspondence run: all 256 bytes, byte pairs, random strings/texts)",
    "CPython's unicode_escape codec on latin-1 text is what the model says (exhaustive on 1- and 2-byte inputs)",
    "SHA-512/256 uninterpreted in Lean (selector supplied by the harness from algosdk); address checksum not expressible in the grammar",
]

DANGEROUS = [0x22, 0x5C, 0x2F, 0x3B, 0x0A, 0x0D, 0x09, 0x20, 0x00, 0x7F, 0x80, 0xFF]
MAXREC = 4  # replay files per failure class


def _pt():
    sys.path.insert(0, str(common.REPO))
    import pyteal  # noqa: E402
    return pyteal


def th(s: str) -> str:
    """text -> protocol hex (utf-8); lone surrogates cannot cross the protocol"""
    return hexs(s.encode("utf-8"))


class FakeStr(str):
    """A str whose .encode("utf-8") yields arbitrary bytes: lets the *real* escapeStr body run on
    byte strings that are not valid UTF-8 (escapeStr only ever looks at s.encode("utf-8"))."""

    def __new__(cls, raw: bytes):
        o = super().__new__(cls, raw.decode("utf-8", "replace"))
        o._raw = raw
        return o

    def encode(self, encoding="utf-8", *a, **k):  # noqa: D401
        if encoding.lower().replace("_", "-") in ("utf-8", "utf8"):
            return self._raw
        return super().encode(encoding, *a, **k)


# ------------------------------------------------------------------------------- real side


class Real:
    def __init__(self):
        self.pt = _pt()
        from pyteal.util import escapeStr, correctBase32Padding
        from pyteal import types as T
        from pyteal.errors import TealInputError, TealInternalError
        self.escapeStr = escapeStr
        self.pad32 = correctBase32Padding
        self.T = T
        self.TealInputError = TealInputError
        self.TealInternalError = TealInternalError

    def line(self, mk):
        """construct the expression, compile it with the real compiler, return
        ('ok', emitted line, whole text) | ('err', exception class name)"""
        pt = self.pt
        try:
            e = mk()
        except self.TealInputError:
            return ("err", "TealInputError")
        except Exception as ex:  # noqa: BLE001
            return ("err", type(ex).__name__)
        text = pt.compileTeal(pt.Seq(pt.Pop(e), pt.Int(1)), pt.Mode.Application, version=6)
        ls = text.split("\n")
        return ("ok", ls[1] if len(ls) > 1 else "", text)

    def assembled(self, mk, twin=None):
        """the same literal compiled with assembleConstants=True: used once (pushint / pushbytes) and used twice (constant
        block).  Returns [(form, line to decode as a push)]"""
        pt = self.pt
        out = []

        def site(text, n=0):
            """the line to decode for the n-th constant load of `text` (block references resolved through the block)"""
            ls = text.split("\n")[1:]
            loads = [x for x in ls if x.split(" ")[0] in ("int", "byte", "addr", "method", "pushint", "pushbytes", "intc", "bytec")
                     or x.split(" ")[0][:-1] in ("intc_", "bytec_")]
            first = loads[n]
            op = first.split(" ")[0]
            if op.startswith(("intc", "bytec")):
                is_int = op.startswith("intc")
                blk = [x for x in ls if x.startswith("intcblock " if is_int else "bytecblock ")][0].split(" ")
                idx = int(first.split(" ")[1]) if op in ("intc", "bytec") else int(op[-1])
                if 1 + idx >= len(blk):
                    return "block", f"int -1  // reference {idx} outside the block of {len(blk) - 1} entries"
                return "block", ("int " if is_int else "byte ") + blk[1 + idx]
            return "push", first

        try:
            t1 = pt.compileTeal(pt.Seq(pt.Pop(mk()), pt.Int(1)), pt.Mode.Application, version=6, assembleConstants=True)
            out.append(("once:%s" % site(t1)[0], site(t1)[1]))
            t2 = pt.compileTeal(pt.Seq(pt.Pop(mk()), pt.Pop(mk()), pt.Int(1)), pt.Mode.Application, version=6, assembleConstants=True)
            out.append(("twice:%s" % site(t2)[0], site(t2)[1]))
            # among other constants: four frequent small ints, a repeated small int ranked after them (left out of the block),
            # repeated large ints and byte strings around the literal under test (loads 12 and 13 of the program)
            I, By = pt.Int, pt.Bytes
            before = [I(1)] * 3 + [I(0)] * 3 + [I(2)] * 2 + [I(3)] * 2 + [I(7)] * 2
            after = [I(9), I(9), I(100000), I(100000), By("zz"), By("zz"), By("base16", "00ff"), By("base16", "00ff"), I(2 ** 40), I(2 ** 40)]
            t3 = pt.compileTeal(pt.Seq(*[pt.Pop(x) for x in before], pt.Pop(mk()), pt.Pop(mk()), *[pt.Pop(x) for x in after], pt.Int(1)),
                                pt.Mode.Application, version=6, assembleConstants=True)
            for n in (12, 13):
                out.append(("pool:%s" % site(t3, n)[0], site(t3, n)[1]))
            if twin is not None:
                # the same TEXT under the other constructor in one program (`byte "f()void"` is the text, `method "f()void"`
                # its selector): each load must still push its own literal - in both orders
                for order, first, second, n in (("literal-first", mk, twin, 0), ("twin-first", twin, mk, 1)):
                    t4 = pt.compileTeal(pt.Seq(pt.Pop(first()), pt.Pop(second()), pt.Pop(first()), pt.Pop(second()), pt.Int(1)),
                                        pt.Mode.Application, version=6, assembleConstants=True)
                    out.append((f"same-text:{order}:%s" % site(t4, n)[0], site(t4, n)[1]))
        except Exception as ex:  # noqa: BLE001
            out.append(("error", type(ex).__name__ + ": " + str(ex)[:120]))
        return out

    def valid(self, kind, s):
        f = {"16": self.T.valid_base16, "32": self.T.valid_base32, "64": self.T.valid_base64,
             "addr": self.T.valid_address}[kind]
        try:
            f(s)
            return True
        except self.TealInputError:
            return False


def expected_shape(text: str, line: str) -> bool:
    """the compiled text is exactly: pragma, <line>, pop, int 1, return"""
    return text == "#pragma version 6\n" + line + "\npop\nint 1\nreturn"


# ------------------------------------------------------------------------------- generators


def gen_string(r) -> str:
    """random Python strings: ASCII, dangerous characters and sequences, controls, latin-1, BMP,
    astral (never lone surrogates: those cannot be encoded, see the malformed stream)"""
    n = r.choice([0, 1, 1, 2, 2, 3, 4, 6, 9, 14, 30])
    out = []
    for _ in range(n):
        k = r.random()
        if k < 0.22:
            out.append(chr(r.randrange(0x20, 0x7F)))
        elif k < 0.42:
            out.append(r.choice(['"', "\\", "/", "//", ";", "\n", "\r", "\t", " ", "\x00", "\x7f", "'", "#",
                                 '\\"', "\\n", "\\x41", "\\\\", '";', '" //', "0x", "base64(", ")", "(",
                                 "TMPL_", "\\u1234", "\x0b", "\x0c", "\x1b", "\x85", " ", "﻿"]))
        elif k < 0.52:
            out.append(chr(r.randrange(0, 0x20)))
        elif k < 0.64:
            out.append(chr(r.randrange(0x80, 0x100)))
        elif k < 0.80:
            c = r.randrange(0x100, 0x10000)
            if 0xD800 <= c < 0xE000:
                c = 0x4E2D
            out.append(chr(c))
        else:
            out.append(chr(r.randrange(0x10000, 0x110000)))
    return "".join(out)


def gen_bytes(r) -> bytes:
    n = r.choice([0, 1, 1, 2, 3, 4, 5, 8, 9, 16, 31, 32, 33, 64])
    k = r.random()
    if k < 0.2:
        return bytes(r.choice(DANGEROUS) for _ in range(n))
    if k < 0.3:
        return bytes([r.choice([0, 0xFF])]) * n
    return bytes(r.randrange(256) for _ in range(n))


B32 = "ABCDEFGHIJKLMNOPQRSTUVWXYZ234567"
B64 = "ABCDEFGHIJKLMNOPQRSTUVWXYZabcdefghijklmnopqrstuvwxyz0123456789+/"


def gen_b16(r):
    """(text, well_formed?)"""
    b = gen_bytes(r)
    h = b.hex()
    k = r.random()
    if k < 0.25:
        return h, True
    if k < 0.40:
        return h.upper(), True
    if k < 0.55:
        return "".join(c.upper() if r.random() < 0.5 else c for c in h), True
    if k < 0.70:
        return "0x" + ("".join(c.upper() if r.random() < 0.5 else c for c in h)), True
    # ill-formed / tricky
    bad = r.choice([
        h + "0", "0x" + h + "f", "0x0x" + h, "0X" + h, "x" + h, h + "g", h + " ", " " + h, h + "\n", "0x" + h + "\n",
        h[:1] + "_" + h[1:], "00x" + h, "0x" + "0x", "0x00" + "x", "١٢", "０１", h + "=", "-" + h,
        "0x 12", "1 2", "0x", "00", "0x00", "x0", "0x0",
    ])
    import re
    body = bad[2:] if bad.startswith("0x") else bad
    wf = len(body) % 2 == 0 and re.fullmatch(r"[0-9A-Fa-f]*", body) is not None
    return bad, wf


def gen_b32(r):
    b = gen_bytes(r)
    enc = base64.b32encode(b).decode()
    nopad = enc.rstrip("=")
    k = r.random()
    if k < 0.3:
        return enc, True
    if k < 0.55:
        return nopad, True
    if k < 0.65 and nopad:
        # non-canonical trailing bits: still a valid text, decodes to the same leading bytes
        if len(nopad) % 8:
            alt = nopad[:-1] + B32[(B32.index(nopad[-1]) | 1)]
            return alt + ("=" * (-len(alt) % 8) if r.random() < 0.5 else ""), True
        return enc, True
    bad = r.choice([
        nopad + "A" if len(nopad) % 8 in (0, 2, 5) else nopad + "=", enc + "=", nopad + "=", nopad + "==",
        enc.lower(), nopad[:1] + "1" + nopad[1:], nopad + "\n", enc + "\n", " " + enc, nopad + "8", nopad + "0",
        "=" + enc, nopad[:2] + "=" + nopad[2:], enc[:-1] if enc.endswith("=") else enc + "A", nopad + "-",
        nopad + "Á", "A", "ABC", "ABCDEF", "A=======", "ABC=====", "ABCDEF==", "AB=====", "AB=======",
        "ABCD===", "ABCDE==", "ABCDEFG==", "ABCDEFGH=", "========", "=",
    ])
    return bad, py_b32_wellformed(bad)


def py_b32_wellformed(t: str) -> bool:
    """RFC 4648 well-formedness as PyTeal documents it: alphabet A-Z2-7, padding optional but if
    present complete; data length mod 8 in {0,2,4,5,7}"""
    body = t.rstrip("=")
    pad = len(t) - len(body)
    if any(c not in B32 for c in body):
        return False
    m = len(body) % 8
    if m in (1, 3, 6):
        return False
    if pad == 0:
        return True
    return m != 0 and pad == 8 - m


def py_b32_decode(t: str) -> bytes:
    body = t.rstrip("=")
    return base64.b32decode(body + "=" * (-len(body) % 8))


def gen_b64(r):
    b = gen_bytes(r)
    enc = base64.b64encode(b).decode()
    k = r.random()
    if k < 0.45:
        return enc, True
    if k < 0.55:
        # texts made of the symbols that matter to the tokeniser
        n = r.choice([1, 2, 3])
        t = "".join(r.choice(["////", "ab//", "//ab", "+/+/", "a//b"]) for _ in range(n))
        return t, True
    if k < 0.65 and enc.endswith("="):
        # non-canonical trailing bits
        i = len(enc.rstrip("=")) - 1
        alt = enc[:i] + B64[B64.index(enc[i]) | 1] + enc[i + 1:]
        return alt, True
    nopad = enc.rstrip("=")
    bad = r.choice([
        nopad if nopad != enc else enc + "=", enc + "=", enc + "==", enc + "A", enc + "\n", " " + enc, enc + " ",
        enc.replace("+", "-").replace("/", "_") if ("+" in enc or "/" in enc) else enc + "-",
        enc[:1] + "=" + enc[1:], "=" + enc, enc[:2] + "\n" + enc[2:], enc + ")", enc + "(", enc + "//x", enc + ";",
        "A", "AB", "ABC", "A===", "AB=", "ABC==", "====", "=", "AB==AB==", "ABCD=", "YQ==\n", "ÁAA=",
    ])
    return bad, py_b64_wellformed(bad)


def py_b64_wellformed(t: str) -> bool:
    if len(t) % 4:
        return False
    body = t.rstrip("=")
    pad = len(t) - len(body)
    if pad > 2 or any(c not in B64 for c in body):
        return False
    return True


def gen_int(r):
    k = r.random()
    if k < 0.5:
        return r.choice([0, 1, 2, 9, 10, 255, 256, 2**31, 2**32 - 1, 2**32, 2**63 - 1, 2**63, 2**64 - 2, 2**64 - 1,
                         2**64, 2**64 + 1, -1, -2**63, 2**65, 10**19, 10**20, 18446744073709551615, 9999999999999999999])
    if k < 0.8:
        return r.randrange(0, 2**64)
    if k < 0.9:
        return r.randrange(0, 2**r.randrange(1, 70))
    return -r.randrange(1, 2**70)


def gen_method(r):
    """(text, is it a plain ABI signature?)"""
    from_types = ["uint64", "byte", "bool", "address", "string", "uint8[]", "(uint64,bool)", "byte[32]", "ufixed128x10",
                  "account", "asset", "application", "pay", "axfer", "uint64[3][]", "(string,(byte,bool[]))"]
    name = "".join(r.choice("abcdefghijklmnopqrstuvwxyzABCXYZ_0123456789") for _ in range(r.randrange(1, 9)))
    if name[0].isdigit():
        name = "m" + name
    args = ",".join(r.choice(from_types) for _ in range(r.randrange(0, 5)))
    ret = r.choice(["void", "uint64", "string", "(uint64,bool)", "byte[]"])
    sig = f"{name}({args}){ret}"
    k = r.random()
    if k < 0.6:
        return sig, True
    weird = r.choice([
        'a"b()void', "a\\x41()void", "a\\nb()void", "a()void\nint 0", 'a()void" // x', "a b()void", "a//b()void",
        "a\rb()void", "a()void\r\nint 0", "\n", "\r", "a()void\r",
        "a;b()void", "été()void", "\U0001f600()void", "a\tb()void", "x" + sig + '"', "\\", '"', " ", "a\\",
        "a\\\\b()void", "a()void;int 1", sig + " ", "a'b()void",
    ])
    return weird, False


# ------------------------------------------------------------------------------- the check


class Ctx:
    def __init__(self, rep: Report):
        self.rep = rep
        self.real = Real()
        self.drv = Driver()
        self.n = 0
        self.distinct = set()
        self.dist: dict = {}
        self.samples: list = []
        self.mismatch: list = []     # model != real (no oracle failure)
        self.nrec: dict = {}
        self.stats: dict = {}
        self.assembled_budget = 10 ** 9

    def count(self, cls: str, key):
        self.n += 1
        self.dist[cls] = self.dist.get(cls, 0) + 1
        self.distinct.add((cls, key))

    def sample(self, cls, inp, real_out, dec):
        if sum(1 for s in self.samples if s["class"] == cls) < 3:
            self.samples.append({"class": cls, "input": inp, "real": real_out, "decoded": dec})

    def violate(self, cls, what, replay, key=None):
        k = key or cls
        self.nrec[k] = self.nrec.get(k, 0) + 1
        if (key is not None and self.rep.match_known(key) is not None) or self.nrec[k] <= MAXREC:
            self.rep.violation(what, replay, key=key)

    def model_line(self, cmd: str):
        a = self.drv.ask(cmd)
        if a.startswith("ok "):
            h = a[3:]
            return ("ok", "" if h == "-" else bytes.fromhex(h).decode("utf-8"))
        if a.startswith("err"):
            return ("err", "TealInputError")
        raise common.ToolFailure(f"driver: {cmd[:200]} -> {a}")

    def parseline(self, line: str, sels=()):
        cmd = "c13-parseline " + th(line)
        for sig, sel in sels:
            cmd += " " + hexs(sig) + " " + hexs(sel)
        a = self.drv.ask(cmd)
        if a.startswith("bytes "):
            h = a[6:]
            return ("bytes", b"" if h == "-" else bytes.fromhex(h))
        if a.startswith("int "):
            return ("int", int(a[4:]))
        return ("error", a)


def case_literal(cx: Ctx, cls: str, replay: dict, mk, model_cmd, meaning, wellformed, sels=(), key_bad=None,
                 key_accept=None, twin=None):
    """One literal through real code, model and oracle.
    meaning: Python's own reading of the literal (bytes | int) or None when ill-formed
    wellformed: should the constructor accept?"""
    r = cx.real.line(mk)
    m = cx.model_line(model_cmd) if model_cmd else None
    cx.count(cls, json.dumps(replay, sort_keys=True, default=str))
    oracle_failed = False
    if r[0] == "ok":
        line, text = r[1], r[2]
        dec = cx.parseline(line, sels)
        cx.sample(cls, replay, line, str(dec[1])[:80] if dec[0] != "bytes" else dec[1].hex()[:80])
        if not wellformed:
            oracle_failed = True
            cx.violate(cls + "/accepted-malformed",
                       f"{cls}: malformed literal accepted at construction, emitted {line!r}", dict(replay, line=line),
                       key=key_accept)
        elif not expected_shape(text, line):
            oracle_failed = True
            cx.violate(cls + "/shape", f"{cls}: literal changes the program's line structure: {text!r}",
                       dict(replay, text=text), key=key_bad)
        elif dec[0] == "error" or dec[1] != meaning:
            oracle_failed = True
            want = meaning.hex() if isinstance(meaning, bytes) else meaning
            got = dec[1].hex() if isinstance(dec[1], bytes) else dec[1]
            cx.violate(cls + "/value",
                       f"{cls}: emitted line {line!r} decodes to {got!r}, the literal means {want!r}",
                       dict(replay, line=line, decoded=str(got), meaning=str(want)), key=key_bad)
        if not oracle_failed and cx.assembled_budget > 0:
            # the same literal through createConstantBlocks (assembleConstants=True): pushint/pushbytes and block entry
            cx.assembled_budget -= 1
            for form, ln in cx.real.assembled(mk, twin):
                cx.stats["assembled:" + form] = cx.stats.get("assembled:" + form, 0) + 1
                d2 = cx.parseline(ln, sels) if form != "error" else ("error", ln)
                if d2[0] == "error" or d2[1] != meaning:
                    oracle_failed = True
                    want = meaning.hex() if isinstance(meaning, bytes) else meaning
                    got = d2[1].hex() if isinstance(d2[1], bytes) else d2[1]
                    cx.violate(cls + "/assembled", f"{cls}: with assembleConstants=True ({form}) the literal is loaded by {ln!r}, which decodes to "
                               f"{got!r}; the literal means {want!r}", dict(replay, line=ln, form=form, decoded=str(got), meaning=str(want)))
                    break
    else:
        if wellformed:
            oracle_failed = True
            cx.violate(cls + "/rejected-wellformed", f"{cls}: well-formed literal rejected ({r[1]})", replay)
        elif r[1] != "TealInputError" and replay.get("expect_exc") != r[1]:
            oracle_failed = True
            cx.violate(cls + "/wrong-exception", f"{cls}: malformed literal raises {r[1]}, not TealInputError", replay)
    if m is not None and (m[0] != r[0] or (m[0] == "ok" and m[1] != r[1])) and not oracle_failed:
        cx.mismatch.append({"class": cls, "replay": replay, "real": list(r[:2]), "model": list(m)})
    return r


def run_escape(cx: Ctx, tier: str):
    """real escapeStr (on arbitrary byte strings via FakeStr) vs model, and the grammar round trip"""
    r = rng("c13-escape")
    inputs = [bytes([b]) for b in range(256)] + [b""]
    if tier == "thorough":
        inputs += [bytes([a, b]) for a in range(256) for b in range(256)]
    else:
        inputs += [bytes([a, b]) for a in DANGEROUS for b in DANGEROUS]
        inputs += [bytes([a, b]) for a in DANGEROUS for b in range(256)]
        inputs += [bytes([b, a]) for a in DANGEROUS for b in range(256)]
        inputs += [bytes([r.randrange(256), r.randrange(256)]) for _ in range(3000)]
    inputs += [gen_bytes(r) for _ in range(4000 if tier == "thorough" else 800)]
    inputs = list(dict.fromkeys(inputs))
    model = cx.drv.ask_many(["c13-escape " + hexs(b) for b in inputs])
    reals = []
    for b in inputs:
        reals.append(cx.real.escapeStr(FakeStr(b)))
    # grammar round trip of the REAL escaped text (ascii by construction; if not, that is a failure too)
    lines = []
    for e in reals:
        try:
            lines.append("c13-parseline " + th("byte " + e))
        except UnicodeEncodeError:
            lines.append("c13-parseline 00")
    decs = cx.drv.ask_many(lines)
    for b, mo, e, d in zip(inputs, model, reals, decs):
        cls = "escape/len%d" % min(len(b), 3)
        cx.count(cls, b)
        me = "" if mo == "-" else bytes.fromhex(mo).decode("utf-8")
        want = "bytes " + hexs(b)
        bad_oracle = d != want
        if bad_oracle:
            cx.violate("escape/value", f"escapeStr of bytes {b.hex()} is {e!r}; as a TEAL line it decodes to {d!r}",
                       {"kind": "escape", "bytes": b.hex(), "escaped": e, "decoded": d})
        if me != e and not bad_oracle:
            cx.mismatch.append({"class": "escape", "replay": {"kind": "escape", "bytes": b.hex()}, "real": e, "model": me})
    cx.sample("escape", inputs[0x22].hex(), reals[0x22], decs[0x22])
    cx.sample("escape", inputs[0x0A].hex(), reals[0x0A], decs[0x0A])


def run_bytes_str(cx: Ctx, tier: str):
    pt = cx.real.pt
    r = rng("c13-str")
    fixed = ["", '"', "\\", '\\"', "//", "a // b", ";", "a;b", "a ; b", "\n", "a\nint 0", "\r\n", "\t", " ", "  a  ",
             "\x00", "\x7f", "\x80", "\xff", "é", "😀", "\\n", "\\x41", "\\u00e9", '"; int 0 //', "base64(AA==)", "0x00",
             "TMPL_X", "'", " ", "日本語", "\\", "\\\\", 'a"', '"a', "a\\"]
    fixed += [chr(c) for c in range(256)]
    N = 40000 if tier == "thorough" else 1500
    for s in fixed + [gen_string(r) for _ in range(N)]:
        tw = (lambda s=s: pt.MethodSignature(s)) if (s and not any(c in s for c in '"\\\n\r')) else None
        case_literal(cx, "bytes/str", {"kind": "str", "text": s}, lambda s=s: pt.Bytes(s),
                     "c13-bytes str " + th(s), s.encode("utf-8"), True, twin=tw)
    # strings that cannot be encoded (lone surrogates): rejected at construction, by UnicodeEncodeError
    for s in ["\ud800", "a\udfffb", "\udc80"]:
        case_literal(cx, "bytes/str-surrogate", {"kind": "str", "text_repr": ascii(s), "expect_exc": "UnicodeEncodeError"},
                     lambda s=s: pt.Bytes(s), None, None, False)


def run_bytes_raw(cx: Ctx, tier: str):
    pt = cx.real.pt
    r = rng("c13-raw")
    N = 12000 if tier == "thorough" else 600
    ins = [bytes([b]) for b in range(256)] + [b""] + [gen_bytes(r) for _ in range(N)]
    for i, b in enumerate(ins):
        arg = bytearray(b) if i % 3 == 0 else b
        case_literal(cx, "bytes/raw", {"kind": "raw", "bytes": b.hex(), "bytearray": i % 3 == 0},
                     lambda arg=arg: pt.Bytes(arg), "c13-bytes raw " + hexs(b), b, True)
    # the literal is the bytes given WHEN IT WAS WRITTEN: a bytearray changed afterwards (a reused scratch buffer, a buffer
    # wiped by its owner) must not change it
    for i, b in enumerate(ins[:400:3]):
        if not b:
            continue

        def mk(b=b, i=i):
            buf = bytearray(b)
            e = pt.Bytes(buf)
            buf[0] ^= 0xFF
            if i % 2:
                buf.extend(b"zz")
            else:
                for j in range(len(buf)):
                    buf[j] = 0
            return e
        case_literal(cx, "bytes/raw-buffer-changed-later", {"kind": "raw", "bytes": b.hex(), "bytearray": True, "mutated_after": True},
                     mk, None, b, True)
    # wrong argument types -> TealInputError (outside the model)
    for bad in [3, None, 1.5, ["a"], ("base16",)]:
        case_literal(cx, "bytes/type", {"kind": "type", "arg": repr(bad)}, lambda bad=bad: pt.Bytes(bad), None, None, False)
    for a1, a2 in [("base16", b"00"), (b"base16", "00"), ("base16", 0), (16, "00")]:
        case_literal(cx, "bytes/type", {"kind": "type2", "arg": repr((a1, a2))},
                     lambda a1=a1, a2=a2: pt.Bytes(a1, a2), None, None, False)


def run_based(cx: Ctx, tier: str):
    pt = cx.real.pt
    r = rng("c13-based")
    N = 15000 if tier == "thorough" else 900
    for _ in range(N):
        t, wf = gen_b16(r)
        body = t[2:] if t.startswith("0x") else t
        case_literal(cx, "bytes/base16" + ("" if wf else "-bad"), {"kind": "based", "base": "base16", "text": t},
                     lambda t=t: pt.Bytes("base16", t), "c13-bytes based " + th("base16") + " " + th(t),
                     bytes.fromhex(body) if wf else None, wf)
    for _ in range(N):
        t, wf = gen_b32(r)
        case_literal(cx, "bytes/base32" + ("" if wf else "-bad"), {"kind": "based", "base": "base32", "text": t},
                     lambda t=t: pt.Bytes("base32", t), "c13-bytes based " + th("base32") + " " + th(t),
                     py_b32_decode(t) if wf else None, wf)
    for _ in range(N):
        t, wf = gen_b64(r)
        case_literal(cx, "bytes/base64" + ("" if wf else "-bad"), {"kind": "based", "base": "base64", "text": t},
                     lambda t=t: pt.Bytes("base64", t), "c13-bytes based " + th("base64") + " " + th(t),
                     base64.b64decode(t, validate=True) if wf else None, wf)
    for base in ["utf8", "base", "Base64", "base64 ", "b64", "hex", "", "base58"]:
        case_literal(cx, "bytes/base-unknown", {"kind": "based", "base": base, "text": "AA=="},
                     lambda base=base: pt.Bytes(base, "AA=="), "c13-bytes based " + th(base) + " " + th("AA=="), None, False)


def run_validators(cx: Ctx, tier: str):
    """validators, rfc readings and correctBase32Padding: model vs real / Python's base64 module"""
    r = rng("c13-valid")
    N = 3000 if tier == "thorough" else 600
    texts = {"16": [], "32": [], "64": []}
    for _ in range(N):
        t, _ = gen_b16(r)
        texts["16"].append(t[2:] if t.startswith("0x") and r.random() < 0.7 else t)
        texts["32"].append(gen_b32(r)[0])
        texts["64"].append(gen_b64(r)[0])
    for kind, ts in texts.items():
        ts = list(dict.fromkeys(ts))
        mv = cx.drv.ask_many([f"c13-valid {kind} " + th(t) for t in ts])
        mr = cx.drv.ask_many([f"c13-rfc {kind} " + th(t) for t in ts])
        for t, v, rf in zip(ts, mv, mr):
            cx.count("validator/" + kind, t)
            rv = cx.real.valid(kind, t)
            if (v == "true") != rv:
                cx.mismatch.append({"class": "validator", "replay": {"kind": "valid", "base": kind, "text": t},
                                    "real": rv, "model": v})
                continue
            if rv:
                want = {"16": lambda: bytes.fromhex(t), "32": lambda: py_b32_decode(t),
                        "64": lambda: base64.b64decode(t, validate=True)}[kind]()
                if rf != "bytes " + hexs(want):
                    # the Lean RFC 4648 spec disagrees with Python's base64 module: the trusted spec is wrong
                    cx.rep.violation(f"Lean RFC 4648 reading of base{kind} text {t!r} is {rf}, Python decodes {want.hex()}",
                                     {"kind": "rfc", "base": kind, "text": t}, no_input=True)
            elif rf != "none":
                cx.mismatch.append({"class": "rfc", "replay": {"kind": "rfc", "base": kind, "text": t}, "real": None, "model": rf})
    ts = list(dict.fromkeys(texts["32"]))
    mp = cx.drv.ask_many(["c13-pad32 " + th(t) for t in ts])
    for t, m in zip(ts, mp):
        cx.count("pad32", t)
        try:
            rp = "ok " + th(cx.real.pad32(t))
        except cx.real.TealInternalError:
            rp = "err"
        if rp != m and not (rp == "err" and m.startswith("err")):
            cx.mismatch.append({"class": "pad32", "replay": {"kind": "pad32", "text": t}, "real": rp, "model": m})


def run_int(cx: Ctx, tier: str):
    pt = cx.real.pt
    r = rng("c13-int")
    N = 10000 if tier == "thorough" else 500
    for v in [gen_int(r) for _ in range(N)] + [0, 2**64 - 1, 2**64, -1]:
        wf = 0 <= v < 2**64
        case_literal(cx, "int" + ("" if wf else "-bad"), {"kind": "int", "value": str(v)}, lambda v=v: pt.Int(v),
                     "c13-int " + str(v), v if wf else None, wf)
    for bad in [True, False, 1.0, "1", None, b"1"]:
        case_literal(cx, "int/type", {"kind": "int-type", "arg": repr(bad)}, lambda bad=bad: pt.Int(bad), None, None, False)


def run_addr(cx: Ctx, tier: str):
    from algosdk import encoding
    pt = cx.real.pt
    r = rng("c13-addr")
    N = 6000 if tier == "thorough" else 250

    def meaning(a):
        try:
            k = encoding.decode_address(a)  # returns falsy input unchanged
            return k if isinstance(k, bytes) and len(k) == 32 else None
        except Exception:  # noqa: BLE001
            return None

    # the Lean counterexamples, replayed first
    cands = ["A" * 58, "A" * 57 + "E"]
    for _ in range(N):
        key = bytes(r.randrange(256) for _ in range(32))
        a = encoding.encode_address(key)
        k = r.random()
        if k < 0.5:
            cands.append(a)
        elif k < 0.65:
            i = r.randrange(52, 58)  # corrupt the checksum part only
            cands.append(a[:i] + r.choice([c for c in B32 if c != a[i]]) + a[i + 1:])
        elif k < 0.75:
            i = r.randrange(0, 51)
            cands.append(a[:i] + r.choice([c for c in B32 if c != a[i]]) + a[i + 1:])
        else:
            cands.append(r.choice([a[:-1], a + "A", a.lower(), a[:-1] + "=", a + "======", a[:57] + "1", a[:57] + "\n",
                                   " " + a[:57], a[:56] + "==", "", "A" * 64, a[:30] + " " + a[31:], "TMPL_" + a[5:]]))
    for a in cands:
        m = meaning(a)
        # the known finding covers exactly: 58 base32 symbols whose checksum (or unused trailing bits) is wrong
        only_checksum = len(a) == 58 and all(c in B32 for c in a)
        case_literal(cx, "addr" + ("" if m is not None else "-bad"), {"kind": "addr", "text": a}, lambda a=a: pt.Addr(a),
                     "c13-addr " + th(a), m, m is not None,
                     key_accept="addr-checksum-unchecked" if only_checksum else None)
    for bad in [b"A" * 58, 5, None]:
        case_literal(cx, "addr/type", {"kind": "addr-type", "arg": repr(bad)}, lambda bad=bad: pt.Addr(bad), None, None, False)


METHOD_REFUSED = '"\\\n\r'  # the characters MethodSignature refuses (methodsig.py)


def selector(text: str) -> bytes:
    from algosdk import encoding
    return encoding.checksum(text.encode("utf-8"))[:4]


def run_method(cx: Ctx, tier: str):
    from algosdk import abi
    pt = cx.real.pt
    r = rng("c13-method")
    N = 6000 if tier == "thorough" else 300
    # the first four are the inputs of the retired finding `methodsig-unescaped` (repaired by commit 3567bd6 of
    # pyteal/ast/methodsig.py; Lean: methodsig_quote_regression, methodsig_backslash_regression, methodsig_linebreak_regression)
    cands = [('a"b()void', False), ("a\\x41()void", False), ("a()void\nint 0", False), ("a\rb()void", False),
             ("add(uint64,uint64)uint64", True)]
    cands += [gen_method(r) for _ in range(N)]
    # every single character of a sample of code points inside an otherwise plain signature
    probe = list(range(0, 0x80)) + [0x85, 0xA0, 0xE9, 0x2028, 0x2029, 0x2603, 0x1F600]
    cands += [("a" + chr(cp) + "b()void", False) for cp in probe]
    for sig, plain in cands:
        sel = selector(sig)
        if plain:
            assert abi.Method.from_signature(sig).get_selector() == sel
        # MethodSignature emits its text verbatim between double quotes, so it must refuse (TealInputError) exactly the
        # texts containing a double quote, a backslash, a line feed or a carriage return (theorem methodsig_rejects);
        # accepting one of them is a violation (`accepted-malformed`).  Every other non-empty text must be accepted and
        # its line must decode to the selector of that very text (theorem methodsig_correct).
        refused = any(c in sig for c in METHOD_REFUSED)
        if refused:
            case_literal(cx, "method/odd-text/refused", {"kind": "method", "text": sig},
                         lambda sig=sig: pt.MethodSignature(sig), "c13-method " + th(sig), None, False)
            continue
        # the driver is told the selector of the text the user wrote - and of nothing else
        case_literal(cx, "method" + ("" if plain else "/odd-text"), {"kind": "method", "text": sig},
                     lambda sig=sig: pt.MethodSignature(sig), "c13-method " + th(sig), sel, True, twin=(lambda sig=sig: pt.Bytes(sig)),
                     sels=[(sig.encode("utf-8"), sel)])
    case_literal(cx, "method-bad", {"kind": "method", "text": ""}, lambda: pt.MethodSignature(""), "c13-method -", None, False)
    for bad in [b"a()void", 3, None]:
        case_literal(cx, "method/type", {"kind": "method-type", "arg": repr(bad)},
                     lambda bad=bad: pt.MethodSignature(bad), None, None, False)


def run(tier: str) -> int:
    rep = Report("C13", tier, level="proof")
    st = check_proofs(["PyTealV.Proofs.C13Lemmas", "PyTealV.Proofs.C13"])
    rep.coverage.update(proof_coverage(st, "cd lean && lake build PyTealV.Proofs.C13", TRUSTED))
    if not st.ok:
        rep.notes.append("proof problems: " + "; ".join(st.problems) + " :: " + st.log[-1500:])
    cx = Ctx(rep)
    try:
        run_escape(cx, tier)
        run_bytes_str(cx, tier)
        run_bytes_raw(cx, tier)
        run_based(cx, tier)
        run_validators(cx, tier)
        run_int(cx, tier)
        run_addr(cx, tier)
        run_method(cx, tier)
    finally:
        cx.drv.close()
    found_input = bool(rep.violations)
    if cx.mismatch:
        # model and code disagree but the oracle found no failing input of the property for them
        rep.violation(f"model/code correspondence broken on {len(cx.mismatch)} inputs (first: {cx.mismatch[0]})",
                      {"kind": "correspondence", "first": cx.mismatch[:5]}, no_input=not found_input)
    if not st.ok:
        rep.violation("C13 proofs do not check: " + "; ".join(st.problems)[:200],
                      {"kind": "proof", "problems": st.problems}, no_input=not found_input)
    rep.assumptions += [
        "TEAL grammar = lean/PyTealV/Avm/Syntax.lean (spec); its `;` rule only splits at a stand-alone `;` token - "
        "irrelevant here: every `;` PyTeal can emit in a literal is inside a quoted string",
        "type errors of the constructors (non-str/bytes/int arguments) are checked here only, not modelled",
        "Bytes(str) with a lone surrogate raises UnicodeEncodeError (not TealInputError): counted as rejected",
        "non-canonical base32/base64 texts (non-zero trailing bits) are accepted by PyTeal, Python and the grammar alike",
    ]
    rep.coverage.update({
        "evaluations": cx.n,
        "distinct_nontrivial": len(cx.distinct),
        "rule": "per input: real constructor+compileTeal line == model line; grammar-decoded real line == Python's own "
                "decoding; malformed => TealInputError; compiled text has exactly the expected 5 lines",
        "samples": cx.samples[:30],
        "distribution": dict(sorted(cx.dist.items())),
        "assembled_forms_decoded": dict(sorted(cx.stats.items())),
        "driver_queries": cx.drv.n,
        "correspondence_mismatches": len(cx.mismatch),
    })
    return rep.finish()


def replay(path: str) -> int:
    body = json.loads(open(path).read())
    cx = Ctx(Report("C13", "replay", level="proof"))
    pt = cx.real.pt
    k = body.get("kind")
    print("replay:", {x: body[x] for x in body if x not in ("what",)})
    try:
        if k == "escape":
            b = bytes.fromhex(body["bytes"])
            e = cx.real.escapeStr(FakeStr(b))
            print("real escapeStr :", repr(e))
            print("model escapeStr:", cx.drv.ask("c13-escape " + hexs(b)))
            print("real text through the grammar:", cx.drv.ask("c13-parseline " + th("byte " + e)), "| want bytes", hexs(b))
            return 0
        mk = cmd = None
        sels = ()
        if k == "str":
            s = body["text"]; mk = lambda: pt.Bytes(s); cmd = "c13-bytes str " + th(s); want = s.encode().hex()
        elif k == "raw":
            b = bytes.fromhex(body["bytes"]); mk = lambda: pt.Bytes(b); cmd = "c13-bytes raw " + hexs(b); want = b.hex()
        elif k == "based":
            mk = lambda: pt.Bytes(body["base"], body["text"])
            cmd = "c13-bytes based " + th(body["base"]) + " " + th(body["text"]); want = "(python decoding of the text)"
        elif k == "int":
            v = int(body["value"]); mk = lambda: pt.Int(v); cmd = "c13-int " + str(v); want = v
        elif k == "addr":
            mk = lambda: pt.Addr(body["text"]); cmd = "c13-addr " + th(body["text"]); want = "algosdk.decode_address"
            try:
                from algosdk import encoding
                want = encoding.decode_address(body["text"]).hex()
            except Exception as ex:  # noqa: BLE001
                want = f"algosdk rejects the address: {ex}"
        elif k == "method":
            sig = body["text"]; mk = lambda: pt.MethodSignature(sig); cmd = "c13-method " + th(sig)
            sels = [(sig.encode(), selector(sig))]; want = selector(sig).hex()
        else:
            print("nothing to re-run for kind", k)
            return 0
        r = cx.real.line(mk)
        print("real :", r[:2])
        print("model:", cx.drv.ask(cmd))
        if r[0] == "ok":
            print("real line through the grammar:", cx.parseline(r[1], sels), "| literal means:", want)
            print("compiled text:", repr(r[2]))
        return 0
    finally:
        cx.drv.close()
