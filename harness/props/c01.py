"""C01 — compiled TEAL computes what the PyTeal expression denotes.

Deciding method: (1) kernel-checked theorems: the code-generation model is correct w.r.t. the
source semantics for every tree of the fragment (Proofs/Shape.lean), and the certificate
checker `closed` is sound (Proofs/Sim.lean): an accepted certificate means graph and flat TEAL
have the same outcome on every context. (2) The tie to /repo: for every generated program the
REAL compiler's TEAL is parsed with the independent grammar and a certificate relating it to the
model's graph is checked in Lean (translation validation). (3) Oracle / failing-input search:
the real TEAL is executed in the AVM spec against the source semantics on generated contexts.
"""
from __future__ import annotations

import sys
from collections import Counter

from common import LEAN, Driver, Report, check_proofs, proof_coverage, rng
from gen import Cfg, G, required_version
from pipeline import Case, exec_diff, load_corpus, replay_case
from recipes import Program

PROOF_MODULES = ["PyTealV.Proofs.Sim", "PyTealV.Proofs.ShapeMach", "PyTealV.Proofs.ShapeOps", "PyTealV.Proofs.ShapeSem", "PyTealV.Proofs.ShapeGen", "PyTealV.Proofs.Shape", "PyTealV.Proofs.C01",
                 # renaming invariance of the source semantics and `compile_correct_original` (the theorem about the ORIGINAL tree)
                 "PyTealV.Proofs.RenameLemmas", "PyTealV.Proofs.RenameSem", "PyTealV.Proofs.Rename", "PyTealV.Proofs.CompileOriginal"]
TRUSTED = [
    "Lean 4 kernel; axioms propext, Classical.choice, Quot.sound only",
    "AVM spec lean/PyTealV/Avm (TEAL grammar, opcode semantics execPrim, machine step)",
    "source semantics lean/PyTealV/Src.lean (meaning of PyTeal constructs)",
    "harness: recipe -> real PyTeal API calls (harness/recipes.py Builder) and recipe -> S-expression renderer",
    "untrusted but checked: variable-to-slot discovery (bindings must form a bijection), certificate search",
]


def existing(mods):
    return [m for m in mods if (LEAN / (m.replace(".", "/") + ".lean")).exists()]


def configs(tier):
    return dict(nprog=260 if tier == "quick" else 4000, nctx=6 if tier == "quick" else 16, search_ctx=200 if tier == "quick" else 2000)


def opts_for(version):
    # the scratch-slot optimiser is on by default from v9; C01 fixes it off (C03 covers options)
    import pyteal as pt  # noqa: F401
    return {"scratch_slots": False} if version >= 9 else {}


def run(tier: str) -> int:
    rep = Report("C01", tier, level="translation_validation")
    mods = existing(PROOF_MODULES)
    st = check_proofs(mods) if mods else None
    cfg = configs(tier)
    r = rng("c01")
    d = Driver()
    stats, gstats = Counter(), Counter()
    samples, programs, validated, disagreements = [], 0, 0, 0
    distinct = set()
    corpus = load_corpus("C01")
    stats["corpus programs"] = len(corpus)
    for i in range(-len(corpus), cfg["nprog"]):
        if i < 0:
            _name, p, v0, _o = corpus[i + len(corpus)]
            mode, versions = p.mode, [v0]
        else:
            mode = r.choice(["app", "app", "sig"])
            ver = r.choice([2, 3, 4, 5, 6, 7, 8, 9, 10])
            g = G(r, Cfg(mode=mode, version=ver, subs=0, max_depth=r.choice([2, 3, 4, 5]), max_stmts=r.choice([2, 4, 6]), wide=r.random() < 0.3))
            p = g.program()
            for k, v in g.stats.items():
                gstats[k.split(":")[0]] += v
            need = required_version(p.main)
            versions = sorted({ver, r.choice([v for v in range(2, 11) if v >= need] or [ver])})
        for v in versions:
            case = Case(d, p, v, **opts_for(v))
            stats[f"compile:{case.res[0]}"] += 1
            stats[f"version:{v}"] += 1
            stats[f"mode:{mode}"] += 1
            if not case.ok:
                # rejection is decided by C20/C04; here only note it
                stats[f"rejected:{case.res[1]}"] += 1
                continue
            programs += 1
            distinct.add(case.teal)
            verdict = case.validate()
            ok = verdict.startswith("valid")
            stats["validate:" + verdict.split(" ")[0]] += 1
            if ok:
                stats["theorem gen_correct applies (fragment=true)" if "fragment=true" in verdict else "outside proven fragment (validated + executed only)"] += 1
                # do the hypotheses of `CompileOriginal.compile_correct_originalMainB` hold: the theorem about the ORIGINAL
                # tree (this recipe), not about its renamed form (`Check.renameOk` for the discovered bindings)?
                orig = d.ask(f"c01-original {v} {case.teal.encode().hex()} {case.sexp}")
                stats["original_theorem:" + " ".join(w for w in orig.split(" ") if w.split("=")[0] in ("original", "valid", "fragment", "renameOk"))] += 1
                if "original=true" not in orig:
                    # outside the call-free theorem (WideRatio): the program-level theorem of C02 (`compile_correct_original_prog`, whose
                    # fragment covers WideRatio under the side conditions W1/W2) may still apply to this program read as one without subroutines
                    comp = d.ask(f"composed-sexp {v} 0 {case.teal.encode().hex()} {case.sexp}")
                    stats["original_theorem (program-level, for trees outside the call-free fragment):" + comp.split(" ")[0]
                          + (" original=true" if " original=true" in comp else " original=false")] += 1
            bad = exec_diff(case, r, cfg["nctx"], stats)
            if ok and bad is None:
                validated += 1
                if len(samples) < 3:
                    samples.append({"recipe": case.sexp[:600], "version": v, "mode": mode, "validate": verdict, "teal_lines": case.teal.count("\n") + 1})
                continue
            disagreements += 1
            if bad is None:
                # certificate rejected: spend the search budget on this program …
                bad = exec_diff(case, r, cfg["search_ctx"], stats)
            if bad is None and mode == "app" and v >= 5:
                # … and on its instrumented neighbour (a distinct Log after every statement makes a
                # control-flow divergence observable as an effect difference)
                from shrink import instrument
                neighbour = Case(d, instrument(p), v, **opts_for(v))
                if neighbour.ok:
                    nb = exec_diff(neighbour, r, cfg["search_ctx"] // 2, stats)
                    if nb is not None:
                        case, bad = neighbour, nb
                        stats["search:found on instrumented neighbour"] += 1
            if bad is not None:
                ctx, out = bad
                rep.violation(f"source semantics and real TEAL disagree: {out[:400]} (validator: {verdict[:200]})",
                              case.replay_dict(ctx, {"validate": verdict, "compare": out}))
            else:
                rep.violation(f"translation validation failed ({verdict[:300]}); no differing context found in {cfg['search_ctx']} runs",
                              case.replay_dict(None, {"validate": verdict, "correspondence": "Check.closed / findSim on model graph vs real TEAL"}),
                              no_input=True)
    # ---- the same question for the `assembleConstants=True` spelling of the program (constants referenced through
    # intcblock / bytecblock): generated programs, and directed ones whose integer constants are ranked so that small repeated
    # ones (pushed, not put into the block) sit between block members
    asm_cases = []
    for k in range(cfg.get("nasm", 30)):
        ra = rng(f"c01-asm-{k}")
        if k % 2 == 0:
            big = ra.sample([128, 1000, 5000, 70000, 2 ** 32, 2 ** 63, 2 ** 64 - 1, 255, 256], ra.choice([1, 2, 3]))
            small = ra.sample(range(0, 128), ra.choice([1, 2]))
            top = ra.sample([0, 1, 2, 3, 7, 200, 300, 4096, 99], 4)
            uses = [(c, 3) for c in top] + [(c, 2) for c in small] + [(c, 2) for c in big]
            if ra.random() < 0.5:
                ra.shuffle(uses)
            terms = [c for c, n in uses for _ in range(n)]
            if ra.random() < 0.5:
                ra.shuffle(terms)
            # every constant is observable: logged (v >= 5) or folded into the verdict
            stmts = [("op", "PopU", [("op", "Add2", [("int", c), ("txn", "Fee")])]) for c in terms[:-1]]
            acc = ("int", terms[-1])
            for c in terms[:6]:
                acc = ("op", "BitwiseXor", [acc, ("int", c)])
            pa = Program("app", ("seq", [("op", "Log", [("op", "Itob", [("int", c)])]) for c in terms] + stmts + [("ret", ("op", "EqU", [acc, ("txn", "Fee")]))]))
            va = ra.choice([5, 6, 8, 10])
        else:
            va = ra.choice([3, 4, 5, 6, 7, 8, 9, 10])
            ga = G(ra, Cfg(mode="app", version=va, subs=0, max_depth=ra.choice([3, 4, 5]), max_stmts=ra.choice([4, 6, 8])))
            pa = ga.program()
            if required_version(pa.main) > va:
                continue
        asm_cases.append((pa, va))
    for pa, va in asm_cases:
        case = Case(d, pa, va, assemble=True, **opts_for(va))
        stats[f"assembled:compile:{case.res[0]}"] += 1
        if not case.ok:
            continue
        distinct.add(case.teal)
        bad = exec_diff(case, r, cfg["nctx"], stats)
        stats["assembled:" + ("agree" if bad is None else "DIFFER")] += 1
        if bad is not None:
            ctx, out = bad
            rep.violation(f"assembleConstants=True: source semantics and real TEAL disagree: {out[:400]}",
                          case.replay_dict(ctx, {"compare": out}))
    # ---- two live variables whose slots carry the SAME automatic id (the public `ScratchSlot.reset_slot_numbering` rewinds the counter;
    # the Router does so after every compilation): they are different variables, the program stores and reads them separately
    import pyteal as _pt
    from pipeline import gen_ctx as _gen_ctx
    from recipes import render_ctx as _render_ctx
    for ver in (2, 6, 8, 10):
        for k in (1, 3):
            saved = _pt.ScratchSlot.nextSlotId
            try:
                xs = [_pt.ScratchVar(_pt.TealType.uint64) for _ in range(k)]
                _pt.ScratchSlot.reset_slot_numbering(xs[0].slot.id)
                ys = [_pt.ScratchVar(_pt.TealType.uint64) for _ in range(k)]
                vs_ = xs + ys
                ok_ = _pt.Int(1)
                for i_, v_ in enumerate(vs_):
                    ok_ = _pt.And(ok_, v_.load() == _pt.Int(40 + i_))
                try:
                    teal_ = _pt.compileTeal(_pt.Seq(*[v_.store(_pt.Int(40 + i_)) for i_, v_ in enumerate(vs_)], _pt.Return(ok_)),
                                            _pt.Mode.Application, version=ver, optimize=_pt.OptimizeOptions(scratch_slots=False))
                except (_pt.TealInputError, _pt.TealInternalError, _pt.TealCompileError, _pt.TealTypeError) as e_:
                    stats["same-id variables:refused " + type(e_).__name__] += 1
                    continue
            finally:
                _pt.ScratchSlot.nextSlotId = max(saved, _pt.ScratchSlot.nextSlotId)
            a1 = d.ask(f"teal tsame {teal_.encode().hex()}")
            a2 = d.ask("ctx csame " + _render_ctx(_gen_ctx(rng(f"c01-same-{ver}-{k}"), "app", ver)))
            out_ = d.ask("exec tsame csame 20000") if a1.startswith("ok") and a2 == "ok" else f"{a1} / {a2}"
            stats["same-id variables:" + ("approve" if out_.startswith("done u1") else "OTHER")] += 1
            if not out_.startswith("done u1"):
                rep.violation(f"{2 * k} variables, two of them with equal automatic slot ids (after ScratchSlot.reset_slot_numbering): every variable is stored "
                              f"its own value and read back; the source semantics approves, the real TEAL gives {out_[:160]} (v{ver})",
                              {"kind": "same-id", "version": ver, "k": k, "teal": teal_, "avm": out_})
    d.close()
    if st is not None and not st.ok:
        rep.violation("proof obligations no longer check: " + "; ".join(st.problems)[:600],
                      {"theorems": mods, "problems": st.problems, "log": st.log[-3000:]}, no_input=True)
    cov = {
        "programs": programs,
        "disagreements_checked": disagreements,
        "validated_by_certificate": validated,
        "original_theorem": {k.split(":", 1)[1]: v for k, v in sorted(stats.items()) if k.startswith("original_theorem:")},
        "samples": samples or [{"note": "no program validated"}],
        "evaluations": sum(v for k, v in stats.items() if k.startswith("exec:")),
        "distinct_nontrivial": len(distinct),
        "rule": "type-directed random trees (harness/gen.py) over constants, operators, txn/global reads, state/log effects, "
                "scratch variables, Seq/If/Cond/While/For/Break/Continue/Assert/Return/Approve/Reject/Err; each compiled by the real "
                "compileTeal at 1-2 versions (optimiser off); distinct = distinct emitted TEAL texts",
        "distribution": {"constructs": dict(gstats.most_common(40)), "run": dict(sorted(stats.items()))},
    }
    if st is not None:
        cov.update(proof_coverage(st, "cd lean && lake build " + " ".join(mods), TRUSTED))
    rep.coverage.update(cov)
    rep.assumptions += TRUSTED + [
        "opcode budget (fuel) is not a source-level notion: outcomes are compared when both sides terminate within fuel",
        "uninterpreted opcodes (hashes, balances) take the same deterministic stand-in values on both sides",
    ]
    return rep.finish()


def replay(path: str) -> int:
    return replay_case(path)
