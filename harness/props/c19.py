"""C19 - ABI assignability implies identical encoding.

Proof level: `PyTealV.Proofs.C19.assignable_sound` (for ALL pairs of type specs, on the Lean
model of `type_spec_is_assignable_to`), over the ARC-4 specification `PyTealV.Arc4`
(theorems in `PyTealV.Proofs.Arc4`).

What this check does at run time
  1. builds the proofs, greps for escape hatches, audits axioms;
  2. validates the ARC-4 specification against `algosdk.abi` (signature, is_dynamic, byte_len,
     encode, decode) on random (type, value) pairs                 -> arc4util.validate_spec
  3. checks the modelled class hierarchy against the real classes (`issubclass`, and that no
     TypeSpec class exists that the model does not know);
  4. correspondence: ordered pairs of REAL TypeSpec objects through the REAL
     `type_spec_is_assignable_to`, `==`, `str`, `type` versus the model;
  5. oracle on the real code (independent of the model): for every pair the real function
     accepts, sample values and encode them with algosdk under `str(a)` and under `str(b)`;
     the bytes must be equal. For accepted pairs that are not ARC-4 data types
     (transaction / reference specs) the two specs must have the same shape and each
     transaction kind of `a` must be equal to, or generalised by (`txn`), the one in `b`;
  6. gate: a sample of pairs is passed through a real subroutine call
     (`SubroutineDefinition.invoke`) and through `InnerTxnBuilder.MethodCall` (ABI-value and
     transaction arguments), which must accept exactly the assignable ones.
"""
from __future__ import annotations

import json
import re
import sys
import time

import common
from common import Report, check_proofs, proof_coverage, Driver, rng, hexs

import arc4util as U

PROOF_MODULES = ["PyTealV.Proofs.Arc4", "PyTealV.Proofs.Arc4Decode", "PyTealV.Proofs.C19"]
TRUSTED = [
    "Lean 4 kernel; axioms propext, Classical.choice, Quot.sound only",
    "lean/PyTealV/Arc4.lean: the ARC-4 codec specification (hand-written from the standard; validated against algosdk.abi on every run)",
    "lean/PyTealV/Models/Assignable.lean: hand-written model of type_spec_is_assignable_to, TypeSpec.__eq__/__str__ and the class hierarchy (tied to /repo by the correspondence run over real TypeSpec objects)",
    "harness/props/c19.py + harness/arc4util.py: rendering of real TypeSpec objects, pair generation, comparison",
    "algosdk.abi as the reference codec; CPython semantics of match/isinstance/== as modelled",
]

# ------------------------------------------------------------------ real code


def load_pyteal():
    sys.path.insert(0, str(common.REPO))
    import pyteal as pt  # noqa: E402
    from pyteal import abi  # noqa: E402
    from pyteal.ast.abi.util import type_spec_is_assignable_to  # noqa: E402
    return pt, abi, type_spec_is_assignable_to


TXN_KINDS = ["txn", "pay", "keyreg", "acfg", "axfer", "afrz", "appl"]
REF_KINDS = ["account", "asset", "application"]
UINTS = ["byte", "u8", "u16", "u32", "u64"]

# AST of a PyTeal type spec (JSON-able):
#   ["bool"] ["byte"] ["u8"].. ["address"] ["string"] ["dynbytes"] ["stbytes", n] ["sa", n, T]
#   ["da", T] ["tup", T...] ["nt", variant, T...] (class derived from the fields + variant)
#   ["ntraw", variant, [F...], T...] (class of fields F, value specs T: constructor misuse)
#   ["txn"|"pay"|...] ["account"|...]


class World:
    """Builds real TypeSpec objects from ASTs and renders real objects for the Lean model."""

    def __init__(self, abi):
        self.abi = abi
        self.classes: dict[str, type] = {}    # key -> NamedTuple subclass
        self.class_ids: dict[int, int] = {}   # id(class) -> small int
        self.class_keep: list = []
        self.cache: dict[str, object] = {}

    def named_class(self, variant, fields_ast):
        key = json.dumps([variant, fields_ast])
        c = self.classes.get(key)
        if c is None:
            from typing import Literal  # noqa: F401
            anns = {}
            for i, f in enumerate(fields_ast):
                anns[f"f{i}"] = self.abi.Field[self.build(f).annotation_type()]
            c = type(f"NT{len(self.classes)}v{variant}", (self.abi.NamedTuple,), {"__annotations__": anns})
            self.classes[key] = c
        return c

    def build(self, t):
        key = json.dumps(t)
        if key in self.cache:
            return self.cache[key]
        abi = self.abi
        k = t[0]
        if k == "bool":
            r = abi.BoolTypeSpec()
        elif k == "byte":
            r = abi.ByteTypeSpec()
        elif k in ("u8", "u16", "u32", "u64"):
            r = {"u8": abi.Uint8TypeSpec, "u16": abi.Uint16TypeSpec, "u32": abi.Uint32TypeSpec, "u64": abi.Uint64TypeSpec}[k]()
        elif k == "address":
            r = abi.AddressTypeSpec()
        elif k == "string":
            r = abi.StringTypeSpec()
        elif k == "dynbytes":
            r = abi.DynamicBytesTypeSpec()
        elif k == "stbytes":
            r = abi.StaticBytesTypeSpec(t[1])
        elif k == "sa":
            r = abi.StaticArrayTypeSpec(self.build(t[2]), t[1])
        elif k == "da":
            r = abi.DynamicArrayTypeSpec(self.build(t[1]))
        elif k == "tup":
            r = abi.TupleTypeSpec(*[self.build(x) for x in t[1:]])
        elif k == "nt":
            # the natural way: instantiate the NamedTuple subclass and ask for its type spec
            r = self.named_class(t[1], t[2:])().type_spec()
        elif k == "ntraw":
            r = abi.NamedTupleTypeSpec(self.named_class(t[1], t[2]), *[self.build(x) for x in t[3:]])
        elif k in TXN_KINDS:
            r = {"txn": abi.TransactionTypeSpec, "pay": abi.PaymentTransactionTypeSpec,
                 "keyreg": abi.KeyRegisterTransactionTypeSpec, "acfg": abi.AssetConfigTransactionTypeSpec,
                 "axfer": abi.AssetTransferTransactionTypeSpec, "afrz": abi.AssetFreezeTransactionTypeSpec,
                 "appl": abi.ApplicationCallTransactionTypeSpec}[k]()
        elif k in REF_KINDS:
            r = {"account": abi.AccountTypeSpec, "asset": abi.AssetTypeSpec, "application": abi.ApplicationTypeSpec}[k]()
        else:
            raise ValueError(t)
        self.cache[key] = r
        return r

    def class_id(self, c) -> int:
        i = self.class_ids.get(id(c))
        if i is None:
            i = len(self.class_ids)
            self.class_ids[id(c)] = i
            self.class_keep.append(c)
        return i

    def render(self, s) -> str:
        """real TypeSpec object -> model syntax (dispatch on the exact class, data read
        from the object through its public accessors)"""
        abi = self.abi
        c = type(s)
        if c is abi.BoolTypeSpec:
            return "bool"
        if c is abi.ByteTypeSpec:
            return "byte"
        if c is abi.Uint8TypeSpec:
            return "u8"
        if c is abi.Uint16TypeSpec:
            return "u16"
        if c is abi.Uint32TypeSpec:
            return "u32"
        if c is abi.Uint64TypeSpec:
            return "u64"
        if c is abi.AddressTypeSpec:
            return "address"
        if c is abi.StringTypeSpec:
            return "string"
        if c is abi.DynamicBytesTypeSpec:
            return "dynbytes"
        if c is abi.StaticBytesTypeSpec:
            return f"(stbytes {s.length_static()})"
        if c is abi.StaticArrayTypeSpec:
            return f"(sa {s.length_static()} {self.render(s.value_type_spec())})"
        if c is abi.DynamicArrayTypeSpec:
            return f"(da {self.render(s.value_type_spec())})"
        if c is abi.TupleTypeSpec:
            return "(" + " ".join(["tup"] + [self.render(x) for x in s.value_type_specs()]) + ")"
        if c is abi.NamedTupleTypeSpec:
            return "(" + " ".join(["nt", str(self.class_id(s.instance_class))] + [self.render(x) for x in s.value_type_specs()]) + ")"
        for name, cls in [("txn", abi.TransactionTypeSpec), ("pay", abi.PaymentTransactionTypeSpec),
                          ("keyreg", abi.KeyRegisterTransactionTypeSpec), ("acfg", abi.AssetConfigTransactionTypeSpec),
                          ("axfer", abi.AssetTransferTransactionTypeSpec), ("afrz", abi.AssetFreezeTransactionTypeSpec),
                          ("appl", abi.ApplicationCallTransactionTypeSpec), ("account", abi.AccountTypeSpec),
                          ("asset", abi.AssetTypeSpec), ("application", abi.ApplicationTypeSpec)]:
            if c is cls:
                return name
        raise ValueError(f"unknown TypeSpec class {c}")


# ------------------------------------------------------------------ universe


def leaves_full():
    return ([["bool"]] + [[u] for u in UINTS] + [["address"], ["string"], ["dynbytes"], ["stbytes", 2], ["stbytes", 32]]
            + [[k] for k in TXN_KINDS] + [[k] for k in REF_KINDS] + [["tup"]])


def leaves_small():
    return [["bool"], ["byte"], ["u8"], ["u64"], ["address"], ["string"], ["pay"], ["account"]]


def unary(e, variants=(0,)):
    out = [["sa", 2, e], ["sa", 32, e], ["da", e], ["tup", e]]
    out += [["nt", v, e] for v in variants]
    return out


def universe(max_size: int):
    """every shape of size <= max_size (size 3: all unary-over-unary shapes over the full leaf
    set, binary tuples / named tuples over the reduced leaf set)"""
    u1 = leaves_full()
    out = list(u1)
    if max_size >= 2:
        for e in u1:
            out += unary(e, variants=(0, 1) if e in (["u8"], ["string"]) else (0,))
        # constructor misuse: a NamedTupleTypeSpec whose value specs differ from its class
        out += [["ntraw", 0, [["u8"]], ["byte"]], ["ntraw", 0, [["u8"]], ["u8"]], ["ntraw", 0, [["u8"]], ["u8"], ["bool"]]]
    if max_size >= 3:
        r = leaves_small()
        for e in u1:
            for m in unary(e):
                out += unary(m)
        for x in r:
            for y in r:
                out.append(["tup", x, y])
                out.append(["nt", 0, x, y])
    seen, res = set(), []
    for t in out:
        k = json.dumps(t)
        if k not in seen:
            seen.add(k)
            res.append(t)
    return res


def gen_ts(r, depth):
    if depth <= 1 or r.random() < 0.25:
        return r.choice(leaves_full())
    c = r.random()
    if c < 0.2:
        return ["sa", r.choice([0, 1, 2, 3, 32, 32]), gen_ts(r, depth - 1)]
    if c < 0.35:
        return ["da", gen_ts(r, depth - 1)]
    n = r.choice([0, 1, 2, 2, 3, 4, 6])
    fields = [gen_ts(r, depth - 1) for _ in range(n)]
    if n >= 1 and r.random() < 0.35:
        return ["nt", r.choice([0, 0, 1])] + fields
    return ["tup"] + fields


ALIASES = [
    [["byte"], ["u8"]],
    [["address"], ["sa", 32, ["byte"]], ["stbytes", 32], ["sa", 32, ["u8"]]],
    [["string"], ["dynbytes"], ["da", ["byte"]], ["da", ["u8"]]],
    [["stbytes", 2], ["sa", 2, ["byte"]], ["sa", 2, ["u8"]]],
    [[k] for k in TXN_KINDS],
    [[k] for k in REF_KINDS],
    [["u16"], ["u32"], ["u64"], ["u8"]],
    [["bool"], ["u8"]],
]


def mutate(r, t, p):
    """a relative of t: alias swaps (keep the encoding), tuple<->named, and small breaking edits"""
    for grp in ALIASES:
        if t in grp and r.random() < p * 2:
            return r.choice(grp)
    k = t[0]
    if k == "sa":
        c = r.random()
        if c < p / 3:
            # static <-> dynamic with the same elements (length 0 is the degenerate neighbour of "dynamic")
            return ["da", mutate(r, t[2], p)]
        if c < p / 2:
            return ["sa", r.choice([0, 0, 1, t[1] + 1]), mutate(r, t[2], p)]
        return ["sa", t[1], mutate(r, t[2], p)]
    if k == "da":
        if r.random() < p / 2:
            return ["sa", r.choice([0, 0, 1, 2]), mutate(r, t[1], p)]
        return ["da", mutate(r, t[1], p)]
    if k in ("tup", "nt"):
        fields = [mutate(r, x, p) for x in (t[1:] if k == "tup" else t[2:])]
        if fields and r.random() < p / 3:
            fields = fields[:-1]
        elif r.random() < p / 4:
            fields = fields + [["bool"]]
        c = r.random()
        if k == "tup":
            return (["nt", 0] + fields) if (c < p and fields) else (["tup"] + fields)
        if c < p:
            return ["tup"] + fields
        if c < 1.5 * p and fields:
            return ["nt", 1 - t[1]] + fields
        return ["nt", t[1]] + fields
    return t


# ------------------------------------------------------------------ oracle (independent of the model)

_TXN_RE = re.compile(r"\b(pay|keyreg|acfg|axfer|afrz|appl)\b")
_NONCODEC_RE = re.compile(r"\b(txn|pay|keyreg|acfg|axfer|afrz|appl|account|asset|application)\b")


def is_codec_str(s: str) -> bool:
    return _NONCODEC_RE.search(s) is None


def shape_generalises(sa: str, sb: str) -> bool:
    """non-codec accepted pairs: identical after alias normalisation, except that a transaction
    kind in `a` may meet the generic `txn` in `b`"""
    def norm(s):
        s = re.sub(r"\bbyte\b", "uint8", s)
        s = re.sub(r"\baddress\b", "uint8[32]", s)
        s = re.sub(r"\bstring\b", "uint8[]", s)
        return s
    ta = re.split(r"([(),\[\]])", norm(sa))
    tb = re.split(r"([(),\[\]])", norm(sb))
    if len(ta) != len(tb):
        return False
    for x, y in zip(ta, tb):
        if x == y:
            continue
        if y == "txn" and _TXN_RE.fullmatch(x):
            continue
        return False
    return True


def oracle_pair(r, sa: str, sb: str, nvals: int):
    """For an ACCEPTED pair with signatures sa, sb: returns None if fine, else a dict describing
    the failing input."""
    if is_codec_str(sa) != is_codec_str(sb):
        return {"why": "an ARC-4 data type and a transaction/reference type were accepted as assignable", "str_a": sa, "str_b": sb}
    if not is_codec_str(sa):
        if not shape_generalises(sa, sb):
            return {"why": "accepted transaction/reference specs of different shape or kind", "str_a": sa, "str_b": sb}
        return None
    ta, tb = U.parse_sig(sa), U.parse_sig(sb)
    same_layout = U.norm(ta) == U.norm(tb)
    # when the layouts differ a failing value exists; spend more samples to exhibit one
    for i in range(nvals if same_layout else 25):
        v = U.gen_value(r, ta)
        ea = U.sdk_encode(ta, v)
        if ea is None:
            continue
        base = {"str_a": sa, "str_b": sb, "value_of_a": U.value_sexp(ta, v)[:600], "enc_a": hexs(ea)[:600]}
        # (i) the same abstract value presented to b must encode to the same bytes
        try:
            vb = U.present(tb, U.flatten(ta, v))
        except UnicodeDecodeError:
            vb = None      # bytes that are not UTF-8 cannot be shown to algosdk as a str
        except Exception as e:  # noqa: BLE001
            return dict(base, why=f"accepted pair, but a value of a has no counterpart of type b ({e})", enc_b="-")
        if vb is not None:
            eb = U.sdk_encode(tb, vb)
            if eb is None or eb != ea:
                return dict(base, why="accepted pair encodes the same value differently", enc_b=hexs(eb) if eb is not None else "algosdk rejects the value")
        # (ii) the raw bytes handed over must be a valid encoding of b with the same meaning
        # (only when the layouts agree: algosdk materialises one type object per element before
        # looking at the bytes, so reading bytes under a wrongly shaped type can cost gigabytes;
        # differing layouts are exhibited by (i))
        if same_layout and not U._has_empty(tb):
            try:
                back = U.flatten(tb, U.sdk_type(tb).decode(ea))
            except UnicodeDecodeError:
                continue      # bytes that are not UTF-8 cannot be shown by algosdk as a str (ARC-4 `string` is byte[] on the wire)
            except Exception as e:  # noqa: BLE001
                return dict(base, why=f"bytes of a are not a valid encoding of b: {e!r}", enc_b="-")
            if back != U.flatten(ta, v):
                return dict(base, why="bytes of a decode to a different value under b", decoded_under_b=str(back)[:300])
    if not same_layout:
        return {"why": "accepted pair with different normalised ARC-4 layouts (no differing value sampled)", "str_a": sa, "str_b": sb}
    return None


# ------------------------------------------------------------------ the run


def real_eval(fn, a, b):
    try:
        asg = "1" if fn(a, b) else "0"
    except Exception as e:  # noqa: BLE001
        asg = "EXC:" + type(e).__name__
    try:
        eq = "1" if a == b else "0"
    except Exception as e:  # noqa: BLE001
        eq = "EXC:" + type(e).__name__
    return asg, eq


def check_hierarchy(drv, abi, rep):
    ans = drv.ask("c19-classes")
    model = dict(x.split(":") for x in ans.split()[1:])
    problems = []
    real = {}
    for name in model:
        c = getattr(abi, name, None)
        if c is None:
            problems.append(f"modelled class {name} does not exist")
            continue
        real[name] = c
    # every real TypeSpec class is modelled
    todo, seen = [abi.TypeSpec], set()
    while todo:
        c = todo.pop()
        if c in seen:
            continue
        seen.add(c)
        if c.__name__ not in model and c.__module__.startswith("pyteal"):
            problems.append(f"TypeSpec class {c.__name__} is not modelled")
        todo += c.__subclasses__()
    # issubclass agrees with the modelled parent relation for all ordered pairs

    def model_sub(x, y):
        while x != "-":
            if x == y:
                return True
            x = model[x]
        return False

    n = 0
    for x, cx in real.items():
        for y, cy in real.items():
            n += 1
            if issubclass(cx, cy) != model_sub(x, y):
                problems.append(f"issubclass({x},{y}) = {issubclass(cx, cy)} but the model says {model_sub(x, y)}")
    return n, problems


def gate_call(pt, a_spec, b_spec):
    """pass an instance of a to a real subroutine expecting b -> True if accepted"""
    def f(x):
        return pt.Approve()
    f.__annotations__ = {"x": b_spec.annotation_type(), "return": pt.Expr}
    sub = pt.Subroutine(pt.TealType.none)(f)
    try:
        sub(a_spec.new_instance())
        return True
    except pt.TealInputError:
        return False


def gate_call_after_good(pt, a_spec, b_spec):
    """the SAME subroutine object first called with a correctly typed argument (an instance of b itself), then with an
    instance of a: the decision must not depend on what the routine was called with before -> True if the second is accepted"""
    def f(x):
        return pt.Approve()
    f.__annotations__ = {"x": b_spec.annotation_type(), "return": pt.Expr}
    sub = pt.Subroutine(pt.TealType.none)(f)
    sub(b_spec.new_instance())
    try:
        sub(a_spec.new_instance())
        return True
    except pt.TealInputError:
        return False


def gate_assign(pt, abi, a_spec, b_spec):
    """the assignment routes: a value of type a produced by an ABI routine (or held by a variable) is put into a variable of
    type b -> {route: accepted}.  Every route stores the raw value, so an accepted pair must encode alike."""
    def f(*, output):
        return output.decode(pt.Bytes(""))
    f.__annotations__ = {"output": a_spec.annotation_type(), "return": pt.Expr}
    sub = pt.ABIReturnSubroutine(f)
    out = {}
    byte_like = str(b_spec) in ("byte", "uint8")
    routes = [("store_into", lambda: sub().store_into(b_spec.new_instance())),
              ("set(computed)", lambda: b_spec.new_instance().set(sub())),
              ("set(instance)", lambda: b_spec.new_instance().set(a_spec.new_instance())),
              # the value becomes an ELEMENT of a container whose element type is b (containers are assembled from the elements' encodings)
              ("element of b[]", lambda: abi.DynamicArrayTypeSpec(b_spec).new_instance().set([a_spec.new_instance()])),
              ("element of b[2]", lambda: abi.StaticArrayTypeSpec(b_spec, 2).new_instance().set([b_spec.new_instance(), a_spec.new_instance()])),
              ("element of (bool,b)", lambda: abi.TupleTypeSpec(abi.BoolTypeSpec(), b_spec).new_instance().set(abi.Bool(), a_spec.new_instance()))]
    if byte_like:
        routes += [("element of DynamicBytes", lambda: abi.DynamicBytes().set([a_spec.new_instance()])),
                   ("element of String", lambda: abi.String().set([a_spec.new_instance()])),
                   ("element of StaticBytes[1]", lambda: abi.StaticBytesTypeSpec(1).new_instance().set([a_spec.new_instance()]))]
    for route, th in routes:
        if route == "set(instance)" and isinstance(b_spec, abi.TupleTypeSpec) and not isinstance(a_spec, abi.TupleTypeSpec):
            continue     # Tuple.set(x) with a non-tuple x builds a one-element tuple from x: a construction, not an assignment
        try:
            th()
            out[route] = True
        except (pt.TealInputError, pt.TealTypeError):
            out[route] = False
    return out


def gate_method_call(pt, abi, a_spec, sig_b, shape="alone"):
    """InnerTxnBuilder.MethodCall with an ABI value of spec a for a parameter of signature
    sig_b -> (accepted, spec PyTeal derived from the signature).  shape: the parameter alone | after a parameter given as a raw
    expression | before one | between an ABI value and a raw expression (the decision about one argument must not depend on how
    its neighbours are given)"""
    b2 = abi.type_specs_from_signature(f"m({sig_b})void")[0][0]
    sig, args = {
        "alone": (f"m({sig_b})void", lambda x: [x]),
        "after-expr": (f"m(byte[],{sig_b})void", lambda x: [pt.Bytes(b"\x00\x01a"), x]),
        "before-expr": (f"m({sig_b},uint64)void", lambda x: [x, pt.Itob(pt.Int(5))]),
        "between": (f"m(uint64,byte[],{sig_b},uint8)void", lambda x: [abi.Uint64(), pt.Bytes(b"\x00\x00"), x, pt.Bytes(b"\x07")]),
    }[shape]
    try:
        pt.InnerTxnBuilder.MethodCall(app_id=pt.Int(1), method_signature=sig, args=args(a_spec.new_instance()))
        return True, b2
    except (pt.TealTypeError, pt.TealInputError):
        return False, b2


def gate_txn_table(pt):
    """itxn.py:397 - a transaction argument (dict with type_enum) against a transaction
    parameter: accepted iff same kind or the parameter is the generic `txn`"""
    kinds = {"pay": pt.TxnType.Payment, "keyreg": pt.TxnType.KeyRegistration, "acfg": pt.TxnType.AssetConfig,
             "axfer": pt.TxnType.AssetTransfer, "afrz": pt.TxnType.AssetFreeze, "appl": pt.TxnType.ApplicationCall}
    bad, n = [], 0
    for k, enum in kinds.items():
        for m in TXN_KINDS:
            n += 1
            try:
                pt.InnerTxnBuilder.MethodCall(app_id=pt.Int(1), method_signature=f"m({m})void", args=[{pt.TxnField.type_enum: enum}])
                got = True
            except (pt.TealTypeError, pt.TealInputError):
                got = False
            if got != (m == k or m == "txn"):
                bad.append((k, m, got))
    return n, bad


def run(tier: str) -> int:
    rep = Report("C19", tier, level="proof")
    t0 = time.time()
    st = check_proofs(PROOF_MODULES)
    rep.coverage.update(proof_coverage(st, "cd lean && lake build " + " ".join(PROOF_MODULES), TRUSTED))
    if not st.ok:
        rep.notes.append("proof problems: " + "; ".join(st.problems)[:2000] + " | " + st.log[-1500:])
    t_proofs = time.time() - t0
    pt, abi, fn = load_pyteal()
    drv = Driver()
    thorough = tier == "thorough"

    # ---- 2. ARC-4 specification vs algosdk
    r = rng("c19-arc4")
    ex = [t for n in ((1, 2, 3) if thorough else (1, 2)) for t in U.enum_types(n)]
    stats, bad = U.validate_spec(drv, r, 3000 if thorough else 400, values_per_type=4, extra_types=ex)
    t_arc4 = time.time() - t0 - t_proofs
    rep.coverage["arc4_spec_validation"] = stats
    for b in bad[:5]:
        rep.violation("ARC-4 specification (lean/PyTealV/Arc4.lean) disagrees with algosdk.abi: " + json.dumps(b)[:300],
                      {"kind": "arc4-spec", "case": b, "note": "the specification the theorem is stated over is wrong or algosdk changed"}, no_input=True)

    # ---- 3. class hierarchy
    nh, problems = check_hierarchy(drv, abi, rep)
    rep.coverage["class_pairs_checked"] = nh
    for p in problems[:5]:
        rep.violation("class hierarchy of the model differs from pyteal.abi: " + p, {"kind": "hierarchy", "problem": p}, no_input=True)

    # ---- 4. pairs
    w = World(abi)
    uni = universe(3 if thorough else 2)
    r = rng("c19-pairs")
    pairs = [(a, b, "exhaustive") for a in uni for b in uni]
    n_rand = 40000 if thorough else 4000
    for i in range(n_rand):
        a = gen_ts(r, r.choice([2, 3, 4, 5]))
        b = mutate(r, a, r.choice([0.05, 0.15, 0.3])) if r.random() < 0.85 else gen_ts(r, r.choice([2, 3]))
        if r.random() < 0.3:
            a, b = b, a
        pairs.append((a, b, "random"))

    objs, lines = [], []
    build_fail = 0
    for a, b, src in pairs:
        try:
            oa, ob = w.build(a), w.build(b)
        except Exception as e:  # noqa: BLE001  (e.g. annotation of a >5-tuple inside a NamedTuple)
            build_fail += 1
            continue
        objs.append((a, b, oa, ob, src))
        lines.append(f"c19-assignable ({w.render(oa)} {w.render(ob)})")
    answers = U.ask_all(drv, lines)

    dist = {"exhaustive": 0, "random": 0, "accepted": 0, "rejected": 0, "accepted_codec": 0, "accepted_noncodec": 0,
            "accepted_nonidentical_str": 0, "rejected_same_layout": 0, "eq_true": 0, "max_depth": 0}
    samples, rejected_same = [], []
    mismatches = 0
    violations = 0
    oracle_evals = 0
    distinct = set()
    ro = rng("c19-oracle")
    nvals = 4 if thorough else 3
    gate_todo = []
    for (a, b, oa, ob, src), line, ans in zip(objs, lines, answers):
        dist[src] += 1
        real_asg, real_eq = real_eval(fn, oa, ob)
        sa, sb = str(oa), str(ob)
        wds = ans.split()
        replay = {"a": a, "b": b, "str_a": sa, "str_b": sb, "model_line": line, "model_answer": ans, "real_assignable": real_asg, "real_eq": real_eq}
        ok_model = (len(wds) == 9 and wds[0] == "ok")
        if ok_model:
            m_asg, m_eq, m_sa, m_sb, er_a, er_b, cl_a, cl_b = wds[1:]
        if real_eq == "1":
            dist["eq_true"] += 1
        accepted = real_asg == "1"
        dist["accepted" if accepted else "rejected"] += 1
        distinct.add((sa, sb, type(oa).__name__, type(ob).__name__))
        # (5) oracle on the real answer
        failing = None
        if accepted:
            oracle_evals += 1
            codec = is_codec_str(sa)
            dist["accepted_codec" if codec else "accepted_noncodec"] += 1
            if sa != sb:
                dist["accepted_nonidentical_str"] += 1
            failing = oracle_pair(ro, sa, sb, nvals)
            if failing is None and ok_model and er_a != er_b:
                failing = {"why": "accepted pair with different normalised ARC-4 layouts", "erase_a": er_a, "erase_b": er_b}
            if failing is not None:
                violations += 1
                replay["failing"] = failing
                if violations <= 8:
                    rep.violation(
                        f"type_spec_is_assignable_to({sa}, {sb}) is True but {failing['why']}", replay,
                        key=f"accepts:{sa}->{sb}")
        elif real_asg == "0" and ok_model and er_a == er_b and er_a != "-":
            dist["rejected_same_layout"] += 1
            if len(rejected_same) < 12 and (sa, sb) not in [(x["a"], x["b"]) for x in rejected_same]:
                rejected_same.append({"a": sa, "b": sb, "classes": [type(oa).__name__, type(ob).__name__]})
        # (4) correspondence
        diff = None
        if not ok_model:
            diff = "model answer: " + ans
        elif (m_asg, m_eq, m_sa, m_sb, cl_a, cl_b) != (real_asg, real_eq, sa, sb, type(oa).__name__, type(ob).__name__):
            diff = f"real (assignable, ==, str a, str b, classes) = {(real_asg, real_eq, sa, sb, type(oa).__name__, type(ob).__name__)} model = {(m_asg, m_eq, m_sa, m_sb, cl_a, cl_b)}"
        if diff is not None:
            mismatches += 1
            if failing is None and mismatches <= 5:
                replay["diff"] = diff
                rep.violation("model of type_spec_is_assignable_to disagrees with the real code (no failing input of the property on this pair): " + diff[:400],
                              replay, no_input=True)
        if len(samples) < 6 and accepted and sa != sb and src == "random":
            samples.append({"a": sa, "b": sb, "assignable": True})
        if src == "random" or (len(gate_todo) < 400):
            gate_todo.append((oa, ob, real_asg, a, b))
        dist["max_depth"] = max(dist["max_depth"], line.count("(") and max(_depths(line)))

    # (6) gate through a real subroutine call
    rg = rng("c19-gate")
    rg.shuffle(gate_todo)
    gate_n, gate_bad, gate_hist_n = 0, 0, 0
    for oa, ob, real_asg, a, b in gate_todo[: (1500 if thorough else 300)]:
        try:
            got = gate_call(pt, oa, ob)
        except Exception:  # noqa: BLE001  (annotation_type unavailable, e.g. tuples of arity > 5)
            continue
        gate_n += 1
        if got != (real_asg == "1"):
            gate_bad += 1
            if gate_bad <= 3:
                rep.violation(f"subroutine call with argument {oa} for parameter {ob}: accepted={got} but type_spec_is_assignable_to={real_asg}",
                              {"a": a, "b": b, "str_a": str(oa), "str_b": str(ob), "kind": "gate"})
        # the same question to a routine that has already accepted a correctly typed argument
        try:
            got2 = gate_call_after_good(pt, oa, ob)
        except Exception:  # noqa: BLE001
            continue
        gate_hist_n += 1
        if got2 != (real_asg == "1"):
            gate_bad += 1
            if gate_bad <= 6:
                rep.violation(f"subroutine first called with a {ob}, then with argument {oa} for the same parameter: accepted={got2} but "
                              f"type_spec_is_assignable_to={real_asg}", {"a": a, "b": b, "str_a": str(oa), "str_b": str(ob), "kind": "gate-after-good"})

    # (6c) the assignment routes (store_into of a routine's result, set from a computed value, set from another variable)
    from collections import Counter
    as_n, as_acc, as_bad = 0, Counter(), 0
    # directed: every pair of the basic leaf types (the element routes need byte-like targets next to wider integers)
    basic = [abi.type_specs_from_signature(f"m({t_})void")[0][0] for t_ in
             ("bool", "byte", "uint8", "uint16", "uint32", "uint64", "address", "string", "byte[]", "byte[4]", "uint8[4]", "(uint8,bool)")]
    directed_pairs = [(x_, y_, None, str(x_), str(y_)) for x_ in basic for y_ in basic]
    for oa, ob, real_asg, a, b in directed_pairs + gate_todo[: (1500 if thorough else 300)]:
        if not (is_codec_str(str(oa)) and is_codec_str(str(ob))):
            continue
        try:
            got = gate_assign(pt, abi, oa, ob)
        except Exception:  # noqa: BLE001  (annotation_type unavailable, e.g. tuples of arity > 5)
            continue
        as_n += 1
        for route, acc in got.items():
            if not acc:
                continue
            as_acc[route] += 1
            failing = oracle_pair(ro, str(oa), str(ob), 3)
            if failing is not None:
                as_bad += 1
                if as_bad <= 4:
                    rep.violation(f"assignment route {route} lets a {oa} be put into a {ob}: {failing['why']}",
                                  {"a": a, "b": b, "str_a": str(oa), "str_b": str(ob), "kind": "gate-assign", "route": route, "failing": failing})

    # (6b) gate through InnerTxnBuilder.MethodCall (itxn.py:469 and :397)
    mc_n, mc_bad = 0, 0
    for oa, ob, real_asg, a, b in gate_todo[: (1500 if thorough else 300)]:
        sa, sb = str(oa), str(ob)
        if not (is_codec_str(sa) and is_codec_str(sb)):
            continue
        for shape in ("alone", "after-expr", "before-expr", "between"):
            try:
                got, b2 = gate_method_call(pt, abi, oa, sb, shape)
                want = bool(fn(oa, b2))
            except Exception:  # noqa: BLE001
                continue
            mc_n += 1
            bad_accept = got and oracle_pair(ro, sa, sb, 2) is not None
            if got != want or bad_accept:
                mc_bad += 1
                if mc_bad <= 3:
                    rep.violation(f"InnerTxnBuilder.MethodCall ({shape}) with argument {sa} for parameter {sb}: accepted={got}, type_spec_is_assignable_to={want}",
                                  {"a": a, "b": b, "str_a": sa, "str_b": sb, "kind": "gate-methodcall", "shape": shape}, no_input=not bad_accept)
    tn, tbad = gate_txn_table(pt)
    for k, m, got in tbad[:3]:
        rep.violation(f"InnerTxnBuilder.MethodCall: a {k} transaction argument for a {m} parameter: accepted={got}",
                      {"a": [k], "b": [m], "str_a": k, "str_b": m, "kind": "gate-methodcall-txn"})

    if not st.ok and not rep.violations:
        rep.violation("proofs of C19 do not check: " + "; ".join(st.problems)[:300],
                      {"theorem": "PyTealV.Proofs.C19.assignable_sound", "problems": st.problems, "log": st.log[-3000:]}, no_input=True)

    rep.coverage.update({
        "evaluations": len(objs),
        "distinct_nontrivial": len(distinct),
        "universe_size": len(uni),
        "build_failures": build_fail,
        "oracle_accepted_pairs_checked": oracle_evals,
        "oracle_values_per_pair": nvals,
        "correspondence_mismatches": mismatches,
        "accepted_pairs_violating_the_property": violations,
        "gate_calls": gate_n,
        "gate_calls_after_a_good_call_of_the_same_routine": gate_hist_n,
        "gate_method_calls": mc_n,
        "gate_assignment_pairs": as_n,
        "gate_assignments_accepted_by_route": dict(as_acc),
        "gate_txn_argument_cases": tn,
        "rule": "real type_spec_is_assignable_to / == / str / type on real TypeSpec objects == Lean model, for every pair; "
                "every really-accepted pair: algosdk encodings under str(a) and str(b) byte-equal on sampled values, "
                "bytes decode to the same value under b, normalised layouts equal; subroutine-call gate agrees",
        "distribution": dist,
        "samples": samples,
        "rejected_pairs_with_equal_layout": rejected_same,
        "named_tuple_classes": len(w.classes),
    })
    rep.assumptions += [
        "TypeSpec objects are built from the public pyteal.abi classes (no user subclasses of TypeSpec classes)",
        "ufixed types are outside PyTeal and outside the specification",
        "string values are compared as UTF-8 byte sequences",
    ]
    rep.notes.append(f"wall split: proofs {round(t_proofs, 1)}s, arc4 validation {round(t_arc4, 1)}s, total {round(time.time() - t0, 1)}s")
    drv.close()
    return rep.finish()


def _depths(line):
    d, out = 0, [0]
    for ch in line:
        if ch == "(":
            d += 1
            out.append(d)
        elif ch == ")":
            d -= 1
    return out


def replay(path: str) -> int:
    body = json.loads(open(path).read())
    pt, abi, fn = load_pyteal()
    if body.get("kind") in ("arc4-spec", "hierarchy") or "a" not in body:
        print(json.dumps(body, indent=1)[:4000])
        return 0
    w = World(abi)
    oa, ob = w.build(body["a"]), w.build(body["b"])
    drv = Driver()
    line = f"c19-assignable ({w.render(oa)} {w.render(ob)})"
    print("a =", oa, type(oa).__name__, " b =", ob, type(ob).__name__)
    print("real  type_spec_is_assignable_to(a, b) =", real_eval(fn, oa, ob))
    print("model", line, "->", drv.ask(line))
    sa, sb = str(oa), str(ob)
    if is_codec_str(sa) and is_codec_str(sb):
        ta, tb = U.parse_sig(sa), U.parse_sig(sb)
        r = rng("c19-replay")
        for _ in range(3):
            v = U.gen_value(r, ta)
            ea = U.sdk_encode(ta, v)
            try:
                eb = U.sdk_type(tb).encode(U.present(tb, U.flatten(ta, v)))
            except Exception as e:  # noqa: BLE001
                eb = "no encoding: " + repr(e)[:150]
            print(" value", U.value_sexp(ta, v)[:200])
            print("   algosdk under", sa, "->", hexs(ea)[:200] if ea is not None else None)
            print("   algosdk under", sb, "->", hexs(eb)[:200] if isinstance(eb, bytes) else eb)
    if "failing" in body:
        print("recorded failing input:", json.dumps(body["failing"])[:1500])
    if body.get("kind") == "gate":
        print("gate call accepted:", gate_call(pt, oa, ob))
    if body.get("kind") == "gate-assign":
        print("assignment routes accepted:", gate_assign(pt, abi, oa, ob))
    if body.get("kind") == "gate-methodcall":
        print("MethodCall accepted:", gate_method_call(pt, abi, oa, sb, body.get("shape", "alone"))[0])
    if body.get("kind") == "gate-methodcall-txn":
        print("txn-argument table mismatches:", gate_txn_table(pt)[1])
    drv.close()
    return 0
