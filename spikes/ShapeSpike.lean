-- Design-phase feasibility spike for DESIGN.md §5 (`shape_sound`); not framework code.
-- Mini language: int, add, load, store, pop, seq, ite, while, brk.
-- Graph machine + fuelled big-step source semantics + Shape relation on the final graph.
namespace Spike

inductive TOp | int (n : Nat) | add | pop | store (s : Nat) | load (s : Nat)
inductive Succ | none | next (b : Nat) | cond (t f : Nat)
structure Block where
  ops : List TOp
  succ : Succ
abbrev Graph := Nat → Option Block

structure MS where
  stack : List Nat
  slots : Nat → Nat

def upd (f : Nat → Nat) (k v : Nat) : Nat → Nat := fun x => if x = k then v else f x

def execOp : TOp → MS → Option MS
  | .int n, m => some { m with stack := n :: m.stack }
  | .add, m => match m.stack with
      | b :: a :: r => some { m with stack := (a + b) :: r }
      | _ => none
  | .pop, m => match m.stack with
      | _ :: r => some { m with stack := r }
      | _ => none
  | .store s, m => match m.stack with
      | v :: r => some { stack := r, slots := upd m.slots s v }
      | _ => none
  | .load s, m => some { m with stack := m.slots s :: m.stack }

def execOps : List TOp → MS → Option MS
  | [], m => some m
  | o :: os, m => (execOp o m).bind (execOps os)

inductive Pos | entry (b : Nat) | exit (b : Nat)

inductive Step (G : Graph) : Pos × MS → Pos × MS → Prop
  | ops {b blk m m'} : G b = some blk → execOps blk.ops m = some m' →
      Step G (.entry b, m) (.exit b, m')
  | next {b blk c m} : G b = some blk → blk.succ = .next c →
      Step G (.exit b, m) (.entry c, m)
  | condT {b blk t f v r sl} : G b = some blk → blk.succ = .cond t f → v ≠ 0 →
      Step G (.exit b, ⟨v :: r, sl⟩) (.entry t, ⟨r, sl⟩)
  | condF {b blk t f r sl} : G b = some blk → blk.succ = .cond t f →
      Step G (.exit b, ⟨0 :: r, sl⟩) (.entry f, ⟨r, sl⟩)

inductive Reach (G : Graph) : Pos × MS → Pos × MS → Prop
  | refl (x) : Reach G x x
  | step {x y z} : Step G x y → Reach G y z → Reach G x z

theorem Reach.trans {G x y z} (h1 : Reach G x y) (h2 : Reach G y z) : Reach G x z := by
  induction h1 with
  | refl => exact h2
  | step s _ ih => exact .step s (ih h2)

theorem Reach.one {G x y} (h : Step G x y) : Reach G x y := .step h (.refl _)

inductive E
  | int (n : Nat) | add (a b : E) | load (s : Nat) | store (s : Nat) (e : E) | pop (e : E)
  | seq (a b : E) | ite (c a b : E) | while (c d : E) | brk

inductive Res | val (vs : List Nat) | brk

def eval : Nat → E → (Nat → Nat) → Option (Res × (Nat → Nat))
  | 0, _, _ => none
  | _+1, .int n, sl => some (.val [n], sl)
  | f+1, .add a b, sl =>
      match eval f a sl with
      | some (.val [x], sl1) =>
        match eval f b sl1 with
        | some (.val [y], sl2) => some (.val [x + y], sl2)
        | _ => none
      | _ => none
  | _+1, .load s, sl => some (.val [sl s], sl)
  | f+1, .store s e, sl =>
      match eval f e sl with
      | some (.val [x], sl1) => some (.val [], upd sl1 s x)
      | _ => none
  | f+1, .pop e, sl =>
      match eval f e sl with
      | some (.val [_], sl1) => some (.val [], sl1)
      | _ => none
  | f+1, .seq a b, sl =>
      match eval f a sl with
      | some (.val [], sl1) => eval f b sl1
      | some (.brk, sl1) => some (.brk, sl1)
      | _ => none
  | f+1, .ite c a b, sl =>
      match eval f c sl with
      | some (.val [v], sl1) => if v ≠ 0 then eval f a sl1 else eval f b sl1
      | _ => none
  | f+1, .while c d, sl =>
      match eval f c sl with
      | some (.val [v], sl1) =>
        if v = 0 then some (.val [], sl1) else
        match eval f d sl1 with
        | some (.val [], sl2) => eval f (.while c d) sl2
        | some (.brk, sl2) => some (.val [], sl2)
        | _ => none
      | _ => none
  | _+1, .brk, sl => some (.brk, sl)

inductive Shape (G : Graph) : E → Nat → Nat → Option Nat → Prop
  | int {n b sc L} : G b = some ⟨[.int n], sc⟩ → Shape G (.int n) b b L
  | load {s b sc L} : G b = some ⟨[.load s], sc⟩ → Shape G (.load s) b b L
  | add {a b as ae bs be o sc L} : Shape G a as ae L → Shape G b bs be L →
      (∃ blk, G ae = some blk ∧ blk.succ = .next bs) →
      (∃ blk, G be = some blk ∧ blk.succ = .next o) →
      G o = some ⟨[.add], sc⟩ → Shape G (.add a b) as o L
  | store {s e es ee o sc L} : Shape G e es ee L →
      (∃ blk, G ee = some blk ∧ blk.succ = .next o) →
      G o = some ⟨[.store s], sc⟩ → Shape G (.store s e) es o L
  | pop {e es ee o sc L} : Shape G e es ee L →
      (∃ blk, G ee = some blk ∧ blk.succ = .next o) →
      G o = some ⟨[.pop], sc⟩ → Shape G (.pop e) es o L
  | seq {a b s0 as ae bs be L} : G s0 = some ⟨[], .next as⟩ →
      Shape G a as ae L → Shape G b bs be L →
      (∃ blk, G ae = some blk ∧ blk.succ = .next bs) → Shape G (.seq a b) s0 be L
  | ite {c a b cs ce br as ae bs be en sc L} : Shape G c cs ce L →
      (∃ blk, G ce = some blk ∧ blk.succ = .next br) →
      G br = some ⟨[], .cond as bs⟩ →
      Shape G a as ae L → Shape G b bs be L →
      (∃ blk, G ae = some blk ∧ blk.succ = .next en) →
      (∃ blk, G be = some blk ∧ blk.succ = .next en) →
      G en = some ⟨[], sc⟩ → Shape G (.ite c a b) cs en L
  | while {c d cs ce br ds de en sc L} : Shape G c cs ce (some en) →
      (∃ blk, G ce = some blk ∧ blk.succ = .next br) →
      G br = some ⟨[], .cond ds en⟩ →
      Shape G d ds de (some en) →
      (∃ blk, G de = some blk ∧ blk.succ = .next cs) →
      G en = some ⟨[], sc⟩ → Shape G (.while c d) cs en L
  | brk {b en} : G b = some ⟨[], .next en⟩ → Shape G .brk b b (some en)

def Goal (G : Graph) (s t : Nat) (L : Option Nat) (σ : List Nat) (sl : Nat → Nat)
    (r : Res) (sl' : Nat → Nat) : Prop :=
  match r with
  | .val vs => Reach G (.entry s, ⟨σ, sl⟩) (.exit t, ⟨vs ++ σ, sl'⟩)
  | .brk => ∃ en, L = some en ∧ Reach G (.entry s, ⟨σ, sl⟩) (.entry en, ⟨σ, sl'⟩)

theorem hop {G ae bs} (h : ∃ blk, G ae = some blk ∧ blk.succ = .next bs) (m : MS) :
    Reach G (.exit ae, m) (.entry bs, m) := by
  obtain ⟨blk, h1, h2⟩ := h
  exact .one (.next h1 h2)

theorem shape_sound (G : Graph) : ∀ (fuel : Nat) (e : E) (s t : Nat) (L : Option Nat)
    (σ : List Nat) (sl sl' : Nat → Nat) (r : Res),
    Shape G e s t L → eval fuel e sl = some (r, sl') → Goal G s t L σ sl r sl' := by
  intro fuel
  induction fuel with
  | zero => intro e s t L σ sl sl' r _ h; simp [eval] at h
  | succ f ih =>
    intro e s t L σ sl sl' r hs h
    cases hs with
    | int hb =>
      simp [eval] at h; obtain ⟨rfl, rfl⟩ := h
      exact .one (.ops hb (by simp [execOps, execOp]))
    | load hb =>
      simp [eval] at h; obtain ⟨rfl, rfl⟩ := h
      exact .one (.ops hb (by simp [execOps, execOp]))
    | add ha hb hab hbo ho =>
      simp only [eval] at h
      split at h
      · rename_i x sl1 h1
        split at h
        · rename_i y sl2 h2
          simp at h; obtain ⟨rfl, rfl⟩ := h
          have r1 := ih _ _ _ _ σ _ _ _ ha h1
          have r2 := ih _ _ _ _ (x :: σ) _ _ _ hb h2
          simp only [Goal] at r1 r2 ⊢
          refine r1.trans ((hop hab _).trans (r2.trans ((hop hbo _).trans ?_)))
          exact .one (.ops ho (by simp [execOps, execOp]))
        · simp at h
      · simp at h
    | store he heo ho =>
      simp only [eval] at h
      split at h
      · rename_i x sl1 h1
        simp at h; obtain ⟨rfl, rfl⟩ := h
        have r1 := ih _ _ _ _ σ _ _ _ he h1
        simp only [Goal] at r1 ⊢
        refine r1.trans ((hop heo _).trans ?_)
        exact .one (.ops ho (by simp [execOps, execOp]))
      · simp at h
    | pop he heo ho =>
      simp only [eval] at h
      split at h
      · rename_i x sl1 h1
        simp at h; obtain ⟨rfl, rfl⟩ := h
        have r1 := ih _ _ _ _ σ _ _ _ he h1
        simp only [Goal] at r1 ⊢
        refine r1.trans ((hop heo _).trans ?_)
        exact .one (.ops ho (by simp [execOps, execOp]))
      · simp at h
    | seq h0 ha hb hab =>
      simp only [eval] at h
      have start : Reach G (.entry s, ⟨σ, sl⟩) (.entry _, ⟨σ, sl⟩) :=
        (Reach.one (.ops h0 (by simp [execOps]))).trans (.one (.next h0 rfl))
      split at h
      · rename_i sl1 h1
        have r1 := ih _ _ _ _ σ _ _ _ ha h1
        have r2 := ih _ _ _ _ σ _ _ _ hb h
        simp only [Goal, List.nil_append] at r1
        cases r with
        | val vs => simp only [Goal] at r2 ⊢; exact start.trans (r1.trans ((hop hab _).trans r2))
        | brk =>
          simp only [Goal] at r2 ⊢
          obtain ⟨en, hL, r2⟩ := r2
          exact ⟨en, hL, start.trans (r1.trans ((hop hab _).trans r2))⟩
      · rename_i sl1 h1
        simp at h; obtain ⟨rfl, rfl⟩ := h
        have r1 := ih _ _ _ _ σ _ _ _ ha h1
        simp only [Goal] at r1 ⊢
        obtain ⟨en, hL, r1⟩ := r1
        exact ⟨en, hL, start.trans r1⟩
      · simp at h
    | ite hc hcb hbr ha hb hae hbe hen =>
      simp only [eval] at h
      split at h
      · rename_i v sl1 h1
        have r1 := ih _ _ _ _ σ _ _ _ hc h1
        simp only [Goal] at r1
        have toBr : Reach G (.entry s, ⟨σ, sl⟩) (.exit _, ⟨v :: σ, sl1⟩) :=
          r1.trans ((hop hcb _).trans (.one (.ops hbr (by simp [execOps]))))
        have fin : ∀ m, Reach G (.entry t, m) (.exit t, m) :=
          fun m => .one (.ops hen (by simp [execOps]))
        split at h
        · rename_i hv
          have r2 := ih _ _ _ _ σ _ _ _ ha h
          have jump : Reach G (.exit _, ⟨v :: σ, sl1⟩) (.entry _, ⟨σ, sl1⟩) :=
            .one (.condT hbr rfl hv)
          cases r with
          | val vs =>
            simp only [Goal] at r2 ⊢
            exact toBr.trans (jump.trans (r2.trans ((hop hae _).trans (fin _))))
          | brk =>
            simp only [Goal] at r2 ⊢
            obtain ⟨en, hL, r2⟩ := r2
            exact ⟨en, hL, toBr.trans (jump.trans r2)⟩
        · rename_i hv
          have hv0 : v = 0 := by simpa using hv
          subst hv0
          have r2 := ih _ _ _ _ σ _ _ _ hb h
          have jump : Reach G (.exit _, ⟨0 :: σ, sl1⟩) (.entry _, ⟨σ, sl1⟩) :=
            .one (.condF hbr rfl)
          cases r with
          | val vs =>
            simp only [Goal] at r2 ⊢
            exact toBr.trans (jump.trans (r2.trans ((hop hbe _).trans (fin _))))
          | brk =>
            simp only [Goal] at r2 ⊢
            obtain ⟨en, hL, r2⟩ := r2
            exact ⟨en, hL, toBr.trans (jump.trans r2)⟩
      · simp at h
    | «while» hc hcb hbr hd hdc hen =>
      rename_i c d ce br ds de sc
      simp only [eval] at h
      have fin : ∀ m, Reach G (.entry t, m) (.exit t, m) :=
        fun m => .one (.ops hen (by simp [execOps]))
      split at h
      · rename_i v sl1 h1
        have r1 := ih _ _ _ _ σ _ _ _ hc h1
        simp only [Goal] at r1
        have toBr : Reach G (.entry s, ⟨σ, sl⟩) (.exit br, ⟨v :: σ, sl1⟩) :=
          r1.trans ((hop hcb _).trans (.one (.ops hbr (by simp [execOps]))))
        split at h
        · rename_i hv
          subst hv
          simp at h; obtain ⟨rfl, rfl⟩ := h
          simp only [Goal, List.nil_append]
          exact toBr.trans ((Reach.one (.condF hbr rfl)).trans (fin _))
        · rename_i hv
          have jump : Reach G (.exit br, ⟨v :: σ, sl1⟩) (.entry ds, ⟨σ, sl1⟩) :=
            .one (.condT hbr rfl hv)
          split at h
          · rename_i sl2 h2
            have r2 := ih _ _ _ _ σ _ _ _ hd h2
            simp only [Goal, List.nil_append] at r2
            have r3 := ih (.while c d) s t L σ sl2 sl' r
              (.while hc hcb hbr hd hdc hen) h
            have pre := toBr.trans (jump.trans (r2.trans (hop hdc _)))
            cases r with
            | val vs => simp only [Goal] at r3 ⊢; exact pre.trans r3
            | brk =>
              simp only [Goal] at r3 ⊢
              obtain ⟨en, hL, r3⟩ := r3
              exact ⟨en, hL, pre.trans r3⟩
          · rename_i sl2 h2
            simp at h; obtain ⟨rfl, rfl⟩ := h
            have r2 := ih _ _ _ _ σ _ _ _ hd h2
            simp only [Goal] at r2 ⊢
            obtain ⟨en, hL, r2⟩ := r2
            cases hL
            exact toBr.trans (jump.trans (r2.trans (fin _)))
          · simp at h
      · simp at h
    | brk hb =>
      simp [eval] at h; obtain ⟨rfl, rfl⟩ := h
      simp only [Goal]
      exact ⟨_, rfl, (Reach.one (.ops hb (by simp [execOps]))).trans (.one (.next hb rfl))⟩

#print axioms shape_sound
end Spike
